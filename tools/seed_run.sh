#!/bin/bash
# usage: seed_run.sh <seed dir> <check id> [<check id> ...]
# Applies the seeded change to /repo, runs the named quick checks, records which ones report a
# VIOLATION, and restores /repo straight afterwards.
set -u
SD=$(realpath "$1"); shift
cd /verif
if [ -n "$(git -C /repo status --porcelain -- src Cargo.toml)" ]; then echo "/repo not clean"; exit 2; fi
git -C /repo apply "$SD/patch.diff" || { echo "patch does not apply"; exit 2; }
OUT="$SD/detection.txt"; echo "repo HEAD $(git -C /repo log -1 --format=%h) verif $(git -C /verif log -1 --format=%h)" > "$OUT"
for id in "$@"; do
  ./check $id --tier quick > /tmp/seedrun.$id.log 2>&1; rc=$?
  echo "$id exit=$rc $(grep -c '^VIOLATION' /tmp/seedrun.$id.log) violation line(s)" | tee -a "$OUT"
  grep -A2 '^VIOLATION' /tmp/seedrun.$id.log | head -9 | cut -c1-300 >> "$OUT"
done
git -C /repo checkout -- .
# evidence files were rewritten by these runs: restore the committed ones
git -C /verif checkout -- evidence 2>/dev/null
