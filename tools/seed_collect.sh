#!/bin/bash
# usage: seed_collect.sh C09 c   -- copies /tmp/seed/C09c/_seed into seeded/C09-c and removes the scratch worktree
set -u
id=$1; r=$2; src=/tmp/seed/${id}${r}; dst=/verif/seeded/${id}-${r}
mkdir -p "$dst"
cp "$src/_seed/patch.diff" "$src/_seed/seed_demo.rs" "$src/_seed/notes.md" "$dst/" || exit 1
git -C /repo worktree remove --force "$src"; rm -rf "$src"; git -C /repo worktree prune
echo "collected $dst"; grep -c . "$dst/patch.diff"
