#!/usr/bin/env python3
"""Generate the prompts (and scratch worktrees) of a seed round.
Usage: seed_prompts.py <round letter> [ids...]   -> /tmp/seed/prompt_<ID><letter>.txt, worktree /tmp/seed/<ID><letter>
The sub-agent gets the property text, its worktree and one line per earlier seed of that property
(files touched + what it needs to manifest) so that it picks another site and dimension. Nothing of
/verif's machinery is shown to it."""
import json, os, re, subprocess, sys, glob
letter = sys.argv[1]
ids = sys.argv[2:] or ['C%02d' % i for i in range(1, 21)]
root = '/verif'
props = {json.loads(l)['id']: json.loads(l) for l in open(root + '/properties.jsonl')}
tmpl = open(root + '/tools/seed_prompt.tmpl').read()
extra_t = open(root + '/tools/seed_round_extra.txt').read()
os.makedirs('/tmp/seed', exist_ok=True)
for pid in ids:
    p = props[pid]
    d = '/tmp/seed/%s%s' % (pid, letter)
    if not os.path.isdir(d):
        subprocess.check_call(['git', '-C', '/repo', 'worktree', 'add', '--detach', '-q', d, 'HEAD'])
    earlier = []
    for sd in sorted(glob.glob(root + '/seeded/%s-*' % pid)):
        files = sorted(set(re.findall(r'^\+\+\+ b/src/(\S+)', open(sd + '/patch.diff').read(), re.M)))
        title = ''
        for n in ('notes.md', 'NOTES.md', 'README.md'):
            if os.path.exists(sd + '/' + n):
                for l in open(sd + '/' + n):
                    if l.strip():
                        title = re.sub(r'^#+\s*(Seed\s*)?(C\d\d-?\w?)?\s*[-:]*\s*', '', l.strip(), flags=re.I)
                        break
                break
        needs = ''
        if os.path.exists(sd + '/meta.json'):
            needs = json.load(open(sd + '/meta.json')).get('needs_to_manifest', '')
        txt = (title + ' | ' if len(title) > 25 else '') + needs
        earlier.append('  - [%s] %s' % (', '.join(files), txt[:260].replace('\n', ' ')))
    s = tmpl.replace('@@DIR@@', d).replace('@@TITLE@@', p.get('title', '')).replace('@@STATEMENT@@', p.get('statement', '')).replace('@@QUANT@@', p['quantifier']['text'])
    s += '\n\nADDITIONAL CONSTRAINTS FOR THIS ROUND: other developers have already produced these bugs for this property:\n' + '\n'.join(earlier) + '\n' + extra_t.replace('@@DIR@@', d)
    open('/tmp/seed/prompt_%s%s.txt' % (pid, letter), 'w').write(s)
    print(pid, len(earlier), 'earlier seeds;', d)
