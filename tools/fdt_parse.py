#!/usr/bin/env python3
"""Independent FDT reader (expat, no namespace processing) used by the C10 check.
stdin: one hex-encoded XML document per line.  stdout: one JSON object per line:
{"ok": true, "root": name, "attrs": {...}, "files": [{"attrs": {...}, "groups": [...], "cache": [kind, text]}], "groups": [...]}
or {"ok": false, "error": "..."}."""
import sys, json, binascii
import xml.parsers.expat as expat

def parse(data):
    doc = {"ok": True, "root": None, "attrs": {}, "files": [], "groups": []}
    stack = []
    text = []
    def start(name, attrs):
        nonlocal text
        text = []
        if not stack:
            doc["root"] = name
            doc["attrs"] = dict(attrs)
        elif name == "File":
            doc["files"].append({"attrs": dict(attrs), "groups": [], "cache": None})
        stack.append(name)
    def end(name):
        nonlocal text
        t = "".join(text)
        local = name.split(":")[-1]
        parent = stack[-2] if len(stack) >= 2 else None
        if local == "Group":
            if parent == "File":
                doc["files"][-1]["groups"].append(t)
            else:
                doc["groups"].append(t)
        if parent is not None and parent.split(":")[-1] == "Cache-Control" and doc["files"]:
            doc["files"][-1]["cache"] = [local, t]
        stack.pop()
        text = []
    def chars(d):
        text.append(d)
    p = expat.ParserCreate()
    p.StartElementHandler = start
    p.EndElementHandler = end
    p.CharacterDataHandler = chars
    p.Parse(data, True)
    return doc

for line in sys.stdin:
    line = line.strip()
    if not line:
        continue
    try:
        print(json.dumps(parse(binascii.unhexlify(line))))
    except Exception as e:
        print(json.dumps({"ok": False, "error": str(e)}))
