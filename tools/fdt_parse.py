#!/usr/bin/env python3
"""Independent FDT reader (expat) used by the C10 check. Element and attribute names are reduced to
their local part (whatever prefix the writer chose), xmlns declarations are dropped.
stdin: one hex-encoded XML document per line.  stdout: one JSON object per line:
{"ok": true, "root": name, "attrs": {...}, "files": [{"attrs": {...}, "groups": [...], "cache": [kind, text]}], "groups": [...]}
or {"ok": false, "error": "..."}."""
import sys, json, binascii
import xml.parsers.expat as expat

def parse(data):
    doc = {"ok": True, "root": None, "attrs": {}, "files": [], "groups": []}
    stack = []
    text = []
    def local(n):
        return n.split(":")[-1]
    def clean(attrs):
        return {local(k): v for k, v in attrs.items() if not (k == "xmlns" or k.startswith("xmlns:"))}
    def start(name, attrs):
        nonlocal text
        text = []
        if not stack:
            doc["root"] = local(name)
            doc["attrs"] = clean(attrs)
        elif local(name) == "File":
            doc["files"].append({"attrs": clean(attrs), "groups": [], "cache": None})
        stack.append(name)
    def end(name):
        nonlocal text
        t = "".join(text)
        lname = local(name)
        parent = local(stack[-2]) if len(stack) >= 2 else None
        if lname == "Group":
            if parent == "File":
                doc["files"][-1]["groups"].append(t)
            else:
                doc["groups"].append(t)
        if parent == "Cache-Control" and doc["files"]:
            doc["files"][-1]["cache"] = [lname, t]
        stack.pop()
        text = []
    def chars(d):
        text.append(d)
    p = expat.ParserCreate()
    p.StartElementHandler = start
    p.EndElementHandler = end
    p.CharacterDataHandler = chars
    p.Parse(data, True)
    return doc

for line in sys.stdin:
    line = line.strip()
    if not line:
        continue
    try:
        print(json.dumps(parse(binascii.unhexlify(line))))
    except Exception as e:
        print(json.dumps({"ok": False, "error": str(e)}))
