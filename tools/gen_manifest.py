#!/usr/bin/env python3
"""Regenerates /verif/MANIFEST.json from the table below and validates it against the schema."""
import json, subprocess, sys, os

HOOK_COMMITS = subprocess.run(
    ["git", "-C", "/repo", "log", "--format=%h %s", "--grep=^verif hooks"], capture_output=True, text=True
).stdout.strip().splitlines()

# id -> (category, technique, engine, design_ref, text, note)
CHECKS = {
    "C01": ("exploration", "exhaustive finite grids of real sender->receiver sessions against a reference oracle", "gridx",
            "DESIGN.md §3 C01",
            "Every case of exhaustive configuration grids is run through the real Sender and the real receiver and compared with the bytes and metadata given to the sender: (core) scheme x (E,B) x parity x every length up to 3EB+2 (7EB+2 thorough) x cenc x in-band/FDT-only FTI and CENC, Raptor(Q) sub-block counts N up to 350 and alignments, objects of 255-1100 source blocks, lengths at the scheme maximum and one above (refused); (sessions) FDT mode x interleave x multiplex x 1..n objects x queues x transfer count x receive-once x buffer/stream/file source x buffer/filesystem writer x three receiver configurations x MultiReceiver::push or Receiver::push_data; (mixed) three objects of different schemes, profiles, and the full product of TOI width classes x TSI width classes. Complete inside the grids, nothing outside them.",
            "Trusted: the harness's monitoring writer and its expected-metadata computation; third-party codecs at larger parameters; HashMap iteration order is not enumerated (oracles are order-invariant)."),
    "C02": ("fault_enumeration", "exhaustive enumeration of all loss subsets / duplication multisets of recorded real sessions, each pushed into the real receiver", "gridx",
            "DESIGN.md §3 C02",
            "For every recorded single-object session of up to 11 (16 thorough) object packets (scheme x (k,parity) x block shape x interleave x signalling x transfer count) all 2^n loss subsets and all 3^n lost/once/twice vectors (n <= 7 / 10) are delivered with the FDT first, only after the object, or never; sessions of 30-50 packets get every pattern of at most 2 / 3 losses and every (loss, duplicate) pair; two-object sessions (multiplexed or sequential, one or two queues, both publish modes, 60 configurations) get every loss subset over ALL packets, FDT packets included. Whenever the harness's own RFC decode says the property's premise holds (a complete FDT instance listing the object arrived, every block keeps enough symbols) the real receiver must deliver exactly one complete byte-exact copy.",
            "Trusted: the recoverability predicate (independent RFC decode + 128-bit partition reference); 'FDT late' = the recorded FDT packets re-delivered after the object; single-object sessions above 16 packets get bounded loss counts instead of all subsets (no sampling is used)."),
    "C03": ("model_checking", "exhaustive exploration of all orderings / repetition sequences / sub-multisets / single-packet corruptions of recorded sessions on the real receiver", "gridx",
            "DESIGN.md §3 C03",
            "All n! orderings (n <= 7 quick, 9 thorough), all sequences with repetition up to length 5/7, all subsets in emission and reverse order, every payload byte x {0x01,0x80,0xFF} and every truncation of every object packet, and families of whole-session orders for large sessions, of recorded real sessions (all schemes incl. Raptor(Q) with sub-blocks and degenerate partitions, cenc, every FTI x CENC x MD5 signalling combination, session default OTI resembling the object's, two-transfer, carousel, two-object sessions in both publish modes, large incompressible content-encoded objects wrapping the inflate ring) are pushed into the real MultiReceiver; on every execution every writer that saw complete must hold exactly the sender's bytes of that TOI, no writer gets two terminal calls, and an altered object never stays open.",
            "Trusted: monitoring writer; one corrupted packet per history; MD5 collisions ignored."),
    "C07": ("exploration", "exhaustive finite grid of (B,E,L) triples on the real partition functions against a 128-bit RFC 5052 reference", "gridx",
            "DESIGN.md §3 C07",
            "All (B,E,L) with B<=32, E<=12, L<=1500 (thorough: 200/48/12000, 115 M triples) plus a boundary grid up to B=2^32-1, E=65535, L=2^48-1 and a structured mid-range grid (T around the multiples of B for B up to 2^20, L at / below / above a symbol boundary) are evaluated on the real block_partitioning and block_length (every sbn, or first/last 2048 and the large/small boundary) against a u128 reference; the B that flute's EXT_FTI parser takes from an independently encoded FTI (No-Code 32-bit B, RS, under-specified RS) or reconstructs from Raptor(Q) (F,Z,T) is partitioned and compared; real sender sessions (No-Code small grid; object-level Raptor(Q) OTIs under three session default OTIs) must show the reference structure on the wire and their in-band FTI must lead flute's parser to the sender's partition. Overflow checks and debug assertions are on.",
            "Trusted: the 128-bit reference written from RFC 5052 section 9.1; random triples are not used."),
    "C06": ("exploration", "exhaustive finite grids of packets: flute's encoder against an independent RFC decoder and an independent RFC encoder against flute's parser", "gridx",
            "DESIGN.md §3 C06 + appendix A",
            "Encode direction: the full product of CCI/TSI/TOI width classes (min, max, pattern per class) x close flag x 6 codepoints x 8 extension sets, per-scheme EXT_FTI boundary values, payload-id ranges, SCT instants from 1970 to the NTP era end, FDT ids and versions, and a walking one through every bit of every variable-width field, built by flute's packet builder and decoded field by field by rfc.rs and by flute itself; the sender's close-session packet; and sender streams: every packet of real Sender sessions (5 schemes x 6 TOI widths x 6 TSI classes x 2 profiles x start ids around the 20-bit wrap x SCT x FDT encodings x publish modes) decoded by both. Decode direction: rfc.rs packets over every (C,S,O,H) combination, flags, extension orders with unknown variable-length (HEL 1..200) and fixed-length extensions at every position, six EXT_TIME shapes (SCT-High/Low, ERT, SLC), FTI / payload-id / SCT boundary values and walking ones, parsed by flute.",
            "Trusted: rfc.rs (written from the RFC texts, appendix A of DESIGN.md). Values inside a width class are the class bounds, one pattern and a walking one, not every value."),
    "C08": ("model_checking", "exhaustive configuration grid x one deviation (remove_object after every packet index) on the real Sender, stream decoded by an independent codec", "seqx",
            "DESIGN.md §3 C08",
            "For scheme x (E,B) x parity x every L <= 3EB+2 (5EB+2 and more (E,B) thorough) x interleave 1..3 x cenc x transfer count 1..3 x carousel, objects of 255-1500 source blocks, and the removal of the object after every packet index with and without immediate stop, the real Sender is drained and every complete transfer (delimited by Subscriber events) is checked symbol by symbol against the RFC slices of the transfer-encoded object; B only on the final packet / the one packet after a forced stop / the lone packet of an empty object; A only on read_close_session.",
            "Trusted: rfc.rs decode and the 128-bit partition reference; transfers cut by a forced stop are exempt from completeness as the property states."),
    "C04": ("exploration", "exhaustive finite families of datagram histories (depth <= 3 plus in-context substitutions) on the real receiver under panic / hang / heap / usability oracles", "gridx",
            "DESIGN.md §3 C04",
            "All byte strings of length 0..3; every packet of a corpus of valid sessions (all schemes, signalling modes, cenc, empty object, close session) x every header byte x substitutions (all 255 in the thorough tier) and every truncation, delivered in context; products of boundary values of every EXT_FTI field x payload-id field x payload length per scheme and of version/flags/C/S/O/H/HDR_LEN/HEL; crafted FDT instances (OTI attribute products at File and instance level, TOI/length/Expires/Content-Encoding products, every truncation and XML byte substitutions of a valid instance, malformed documents); payload length x content encoding; and the corpus delivered through flute's own buffer and filesystem writers with every single loss, close-bit flip, loss + early flag, reversed and doubled. Every call must return Ok/Err (catch_unwind, overflow checks and debug assertions on), within the watchdog, under a 64 MB heap ceiling with a 64 kB cache limit, and a valid session pushed after any rejected packet must still be delivered.",
            "Trusted: counting allocator and watchdog; the quantifier's random mutation sequences are sampling and are not used (stated in the evidence); histories longer than the corpus sessions are outside the bound."),
    "C09": ("model_checking", "stateless deviation-bounded exploration of environment answers (builder decision, open/write failures at every call, receiver drop and timeout+cleanup after every packet) on the real receiver", "seqx",
            "DESIGN.md §3 C09",
            "For every recorded session x 7 delivery orders, plus harness-written FDTs (without OTI so that the OTI arrives in-band after attachment; announcing the MD5 of other bytes), a 10-byte object cache with every block pending, forged copies of an object packet (each payload-id byte set to 0xFF), and receive-twice receivers, the choice-sequence explorer enumerates every combination of at most 2 (quick) / 3 (thorough) non-default environment answers (builder decision, open failure, write failure at any call, receiver drop and timeout+cleanup after any packet); on every execution each writer's call log is run through the typestate automaton (open once, writes, one terminal, nothing after), writes must form a prefix of the content (authentic histories), complete only with the full content, no failed write and a matching MD5, and after the receiver is dropped every opened writer is terminated.",
            "Trusted: monitoring writer; deviation bound; packet orders are 7 fixed shapes per session (all orders are C03's job)."),
    "C11": ("model_checking", "explicit-state BFS over the real Sender's transition function, states merged on a canonical fingerprint of the whole Sender plus monitor state", "statex",
            "DESIGN.md §3 C11",
            "All histories over {add (catalogue order), publish, remove, one read, tick, read-only API calls} to depth 8 (quick) / 11 (thorough, state cap reported) for both publish modes x multiplex 1..2 x 1..2 queues x multi-packet and single-packet FDT instances x four catalogues (plain; repeated transfer + carousel + start time; transfer counts 0 and 3 + zero-delay carousel; low priority first); the monitor reassembles every FDT instance from the TOI-0 packets with the independent codec and requires, for every object packet, a completely emitted instance listing its TOI, no object packet inside a partly emitted instance, and none between a publication (explicit, or automatic at transfer start) and the complete emission of a new instance.",
            "Trusted: rfc.rs, the fingerprint (compact derived Debug of the real Sender; checked on every run against the general canonicaliser and by re-running the search), catalogues of 3 objects."),
    "C12": ("model_checking", "explicit-state BFS over the real Sender's transition function with a lifecycle reference monitor", "statex",
            "DESIGN.md §3 C12",
            "All histories over {add, publish, remove, trigger(none|+2 ticks), one read, drain, tick 0.5 s / 1.5 s} to depth 7 (quick) / 9 (thorough, cap 60 k states reported) for max_transfer_count 1..3 x carousel none/delay/interval/zero delay/zero interval x immediate stop x publish mode x multiplex 1..2; a reference counter per object fed by Subscriber events and independently decoded packets decides: never more transfers than configured, finished or removed objects disappear from is_added / nb_objects / get_objects_in_fdt, nb_transfers equals the Stop events, removal semantics (nothing after removing a waiting object; at most one flagged packet after a forced stop; no new transfer after removal), a read that returns None never leaves an eligible transfer or a due carousel turn behind, drains terminate.",
            "Trusted: rfc.rs, fingerprint (as C11), 2 objects of 2-3 packets; carousel clause applied per turn for max_transfer_count > 1 (DESIGN §5)."),
    "C13": ("model_checking", "exhaustive workload grid x one deviation (object added and published at every packet index) on the real Sender, scheduling oracle on every packet", "seqx",
            "DESIGN.md §3 C13",
            "Every workload of 1..3 queues x 0..3 objects per queue (sizes empty / 1 symbol / 2 blocks / 3 blocks) x multiplex_files 0..3 (uniform and every non-uniform per-queue assignment) x interleave_blocks 1..3 x add order x No-Code / Reed-Solomon x both publish modes, and for each the addition(+publication) of a further object at every packet index into every queue, is run on the real Sender to quiescence; on every packet: no lower-queue packet while a ready higher-queue object still has packets to send, first transfers start in add order per queue, at most max(1,multiplex) objects in transmission per queue, exactly-one-packet round-robin fairness, at most interleave_blocks partly sent blocks opened in increasing SBN, everything published is eventually sent. Priority x timing: one timed object (start time, carousel delay/interval, pacing) per higher queue over plain long objects below, fixed poll step and per-poll budget: the packets of queues <= q leave at the same (poll, order) with and without the lower queues, inside one instant no higher queue follows a lower one, an untimed object of the top queue is never overtaken, and a start-time / interval-carousel object that is due goes first.",
            "Trusted: rfc.rs decode; start times / pacing / carousel are excluded here (C14)."),
    "C14": ("model_checking", "exhaustive enumeration of polling schedules (all sequences of virtual-clock advances) x timing configurations x trigger deviation on the real Sender", "seqx",
            "DESIGN.md §3 C14",
            "All 4^5 (quick) / 4^7 (thorough) polling schedules with clock steps {0,1,2,5} ticks of 250 ms, for every combination of start time {none, past, now, +3 ticks} x carousel {none, delay 0/2 ticks, interval 0/3 ticks} x target {none, WithinDuration 0 / 4 ticks, WithinTime past / +6 ticks, as-fast-as-possible} x size {empty, 1, 3 symbols} x a higher-priority object present or not x five FDT carousel periods on a sub-grid, plus trigger_transfer_at(none | +2 ticks) at every poll index on a fixed sub-grid of schedules; oracle on every timed packet: never before the start time (configured or last accepted trigger), carousel turn never before end+delay / start+interval unless re-triggered, paced packet i never before start + i*target/n and sent by the first poll at or after its due time, an FDT instance never re-emitted before its carousel period nor twice at one instant; no panic; after advancing the clock far enough every transfer completes.",
            "Trusted: the virtual clock (time is an argument of every Sender call); carousel clause literal for max_transfer_count = 1 only (DESIGN §5)."),
    "C15": ("model_checking", "explicit-state BFS over the real Sender/allocator + complete walks of the 16-bit TOI space + loom exhaustive interleavings of the real toiallocator.rs", "statex",
            "DESIGN.md §3 C15",
            "Sequential: all histories over {allocate, drop handle j, add object (implicit TOI), add object with handle j, add object after set_toi(j) then set_toi(k), publish+drain} to depth 6 (quick) / 9 (thorough) for every TOI width x initial values {0, 1, max-1, max, max+1, 2^112+5, u128::MAX} against a reference set of live TOIs, with the TOI decoded from the object's packets and the FDT entry compared with the value add_object returned; 40 complete laps of the 16-bit space with values held by handles, by live objects with an explicit TOI and by live objects with an implicit TOI (wrap-around, skip of reserved values). Concurrent: loom explores every interleaving (preemption bound 3 in quick, unbounded in thorough) of three bodies on the real ToiAllocator compiled with loom's Mutex/Arc: live handles pairwise distinct, non-zero, in range; no deadlock; Send/Sync of Toi and Sender asserted at compile time.",
            "Trusted: loom's model of Mutex/Arc; the random default initial value is run 64 times and labelled sampling (it shares the code path of the explicit large values)."),
    "C20": ("model_checking", "stateless deviation-bounded exploration of the size returned by every read() of a harness stream feeding the real Sender, differential oracle against the buffer source", "seqx",
            "DESIGN.md §3 C20",
            "For scheme x (E,B) x every L <= 3EB+2 x transfer count 1..2 x interleave x carousel (three turns) x initial stream position {start, 1, middle, end} x MD5 pass on/off, a real Sender fed by a harness stream whose every read size is an explorer choice among {everything, 1, 2, E+1} is explored with at most 2 (quick) / 3 (thorough) non-default answers, plus nine fixed sources (1-byte, 2-byte, E+1, alternating chunks, a real File, BufReader<File> with a 3-byte buffer, std::io::Cursor<Vec>, BufReader<Cursor>, Cursor<Box<[u8]>>); the complete object packet sequence (all transfers) must be byte-identical to the same Sender fed the same bytes as a buffer.",
            "Trusted: EXT_TIME switched off for the comparison; read-size alphabet and deviation bound."),
    "C16": ("model_checking", "exhaustive enumeration of every join offset of recorded real carousel sessions, suffix pushed into the real receiver", "seqx",
            "DESIGN.md §3 C16",
            "Real carousel sessions (scheme x 1..3 objects incl. an empty one x in-band / FDT-only / split OTI+CENC signalling x cenc x MD5 on/off x delay / interval carousel x publish mode x single- and multi-packet FDT x FDT content encoding x transfer count per turn x interleave) are recorded over four cycles; for every packet boundary of the first cycle (mid-FDT, mid-block, between objects, between cycles) the stream from there to the end of the second further full cycle is pushed into a fresh receiver, which must complete every object byte-exactly.",
            "Trusted: the definition of a cycle (everything emitted at one poll); no loss after the join."),
    "C18": ("model_checking", "exhaustive interleavings of recorded sessions + explicit-state BFS of the TSI filter against a counter reference + deviation-bounded exploration of clock reads for listener events, all on the real MultiReceiver", "statex",
            "DESIGN.md §3 C18",
            "Isolation: every interleaving of 2-4 recorded sessions (same TSI on two endpoints, two TSIs on one endpoint, same destination with and without source; long and short streams) is pushed into one MultiReceiver and each session's writer/FDT callbacks (with their endpoint and TSI) must equal the session run alone. Filter: BFS over all sequences of the 24 add/remove listen operations and set_tsi_filtering to depth 4 (quick) / 7 (thorough), states merged on reference counters + probe vector + the REAL demultiplexing state (hook verif_state); after every operation 8 probe packets decide processed/dropped against reference counters. Listener: every history over {data s, close-session s, tick+cleanup} up to length 5/7 for 2 sessions, with a 6 s jump of the virtual Instant injected before every single clock read (every pair in thorough): the event word of each session must be (open close)* once the receiver is dropped, a data packet leaves its session open, a close-session packet leaves it closed, and after every cleanup a session idle for more than the time-out has been closed and a younger one has not. Registry: every history over {data, close, tick+cleanup, add listener, remove listener k} up to length 6/7: each listener sees exactly what a permanent listener sees between its registration and its removal.",
            "Trusted: the virtual Instant hook (H2) and its read counter; hook H6 (verif_state) as the real-state part of the filter search key; the probe = a single-packet FDT instance observed through fdt_received."),
    "C19": ("model_checking", "exhaustive grid of two-clock scenarios (sender SCT/Expires vs receiver `now`) with harness-crafted packets on the real MultiReceiver, verdict compared with a two-clock reference model", "gridx",
            "DESIGN.md §3 C19",
            "Full product of SCT-Expires {-1h,-3s,+3s,+1h} (8 values thorough) x SCT present/absent x receiver clock offset {0, +-3 s, +-1 h, +-400 d, +-20 y} (16 values thorough) x expiry check on/off x six arrival orders {FDT then object, object (in-band FTI) then FDT, object (cached) then FDT, FDT-cleanup-object, two objects one early one late, two FDT instances with the object announced only by the older one} x object estimate-Expires x FDT in 1 packet / 3 packets 1 s apart / 3 packets 40 s apart (the last packet's SCT and arrival anchor the estimate): delivered iff the estimate of the sender clock at the moment delivery starts is <= Expires (always with the check off); when not delivered no writer is obtained and nb_objects_error stays 0; with SCT the verdict is the same for every offset. Real Sender sessions (SCT on/off) are run under every offset as a sanity layer.",
            "Trusted: the two-clock model (DESIGN §3 C19), no transit delay, +-2 s around the expiry instant excluded as the property states."),
    "C17": ("model_checking", "exhaustive traffic-event sequences to a depth bound + pumping (every event and ordered pair repeated) + per-object sweeps on the real MultiReceiver under a counting allocator and the virtual Instant", "seqx",
            "DESIGN.md §3 C17",
            "Alphabet of 16 traffic events (object packets without FTI / with in-band FTI / with the close flag / far SBN for fixed and fresh TOIs, first fragment of an FDT instance for fixed and fresh ids, complete FDT for known and fresh ids, other TSI, other endpoint, half tick, object-timeout and session-timeout ticks, each followed by cleanup) x cache {3 packets, 64 kB} x max_objects_error {0,1,2}: all sequences to depth 4 (quick) / 6 (thorough, 100 M executions); every event and ordered pair repeated max(400, 8*cache/100) times; six sweeps keeping one object undecodable or unwritable for 800/2000 packets incl. 0- and 1-byte payloads. Oracle: failed-object list <= max_objects_error per session in every state; heap held for one object <= cache + two blocks + stated bookkeeping; no higher heap peak in the last quarter of a pumping run than in the quarter before; after every cleanup no object silent for longer than the object time-out and no session (listener events) silent for longer than the session time-out survives; after both time-outs and cleanup nb_objects() = 0 and the heap is back to the baseline + 4 kB.",
            "Trusted: counting allocator (receiver thread only, harness allocations excluded), bookkeeping allowances stated in the evidence; the number of objects in reception at once is bounded by the time-out, not by a configured count."),
    "C05": ("exploration", "exhaustive enumeration of a Content-Location grammar to a depth bound, each string delivered through a real session into the real ObjectWriterFS inside a sandbox tree with canaries", "gridx",
            "DESIGN.md §3 C05",
            "Every Content-Location = 9 prefixes (file:///, file://host/, http://h/, x:, x:/, x://h/, none, /, //) x every sequence of at most 3 (quick) / 5 (thorough) segments from {n, ., .., empty, %2e%2e, ..%2f, a\\..\\b, an absolute path inside the sandbox} is put in a harness-written FDT and delivered into ObjectWriterFS for the outcomes complete, error (MD5 mismatch) and interrupted; afterwards the sandbox tree minus the destination directory (two empty directories, then 7 levels of ancestors and siblings holding canary and same-named victim files) must be bit-identical, directories included, and the destination directory itself must still exist.",
            "Trusted: the tree scan (an escape above the 7 sandbox levels is impossible with at most 5 segments plus the prefixes used); random strings are not used; symlinks planted inside the destination are out of scope."),
    "C10": ("model_checking", "explicit-state BFS over the real Sender collecting every emitted FDT instance with its publication-time reference set, documents then read by an independent XML parser (expat) and by flute's own receiver", "statex",
            "DESIGN.md §3 C10",
            "All histories over {add, remove, publish, set_complete, drain, tick 0.1 s / duration/2 / duration} to depth 5 (quick) / 6 (thorough, state cap reported) plus a directed family (add n, publish, read i packets, remove object k possibly in flight, publish, drain for every n, k, i), for publish mode x fdt_start_id {0,1,2^20-2} x fdt_duration {1,5,10,11,30,31,3600 s, 2 days} x FDT cenc x sub-second publish phase (fixed covering sub-grids per tier), over a catalogue of 4 objects whose metadata contain quotes, &, <, >, ]]>, non-ASCII and 300-character strings, per-object OTI incl. RaptorQ, every cache directive, groups, ETag, cenc. Every completely emitted instance is reassembled and inflated from its TOI-0 packets by rfc.rs; ids must be +1 mod 2^20, one id never denotes two contents, after every drain the newest instance is unexpired; each distinct (document, expectation) pair is parsed by expat and by flute's receiver and must list exactly the reference set with every attribute unaltered (cache expiry relative to its own publication) and Expires = publish second + duration.",
            "Trusted: rfc.rs reassembly, expat, the reference set (API results + Subscriber events at the log position of the publication), one queue with multiplex 1 so that at most one publication happens per read; tab/CR/LF excluded from the strings (DESIGN §5)."),
}

NOT_YET = {}

ALL = ["C%02d" % i for i in range(1, 21)]

def main():
    checks = []
    for pid in ALL:
        if pid not in CHECKS:
            continue
        cat, tech, engine, ref, text, note = CHECKS[pid]
        checks.append({
            "property_id": pid,
            "quick_cmd": f"./check {pid} --tier quick",
            "thorough_cmd": f"./check {pid} --tier thorough",
            "evidence_file": f"/verif/evidence/{pid}.json",
            "replay_cmd_template": "./check replay {path}",
            "engine": engine,
            "level_claimed": {"category": cat, "text": text, "design_ref": ref},
            "level_note": note,
            "technique": tech,
        })
    na = [{"property_id": p, "reason": NOT_YET.get(p, "check not built yet in this round (planned, see DESIGN.md §3)")}
          for p in ALL if p not in CHECKS]
    m = {
        "version": 1,
        "setup_cmd": "cd /verif/mc && CARGO_NET_OFFLINE=true cargo build --release --offline -p fv -p loomtoi",
        "hooks": {
            "guard": "cargo feature `verif` (and `verif-loom`, only meaningful in the loom harness crate that #[path]-includes toiallocator.rs)",
            "enable": "the harness crates depend on flute by path with features=[\"verif\"]; loomtoi enables its own feature verif-loom",
            "baseline_off_cmd": "cd /repo && PATH=/root/miniconda/bin:$PATH cargo test --workspace --no-fail-fast --offline",
            "source_commits": [c.split()[0] for c in HOOK_COMMITS],
            "add_only": True,
        },
        "engines": [
            {"name": "gridx", "path": "mc/fv/src/util.rs (par_map_wd) + per-property modules", "kind_free_text": "exhaustive finite grids of executions of the real code against a reference, watchdog for infinite loops"},
            {"name": "seqx", "path": "mc/fv/src/seqx.rs", "kind_free_text": "stateless choice-sequence explorer (deviation-bounded DFS over environment answers) on the real code"},
            {"name": "statex", "path": "mc/fv/src/statex.rs", "kind_free_text": "explicit-state BFS over the real transition function with canonical {:#?} fingerprints"},
            {"name": "loomtoi", "path": "mc/loomtoi", "kind_free_text": "loom exhaustive interleavings of the real toiallocator.rs"},
        ],
        "checks": checks,
        "not_applicable": na,
        "notes": "All checks explore the real implementation exhaustively inside stated bounds; see DESIGN.md. known_findings.json lists recorded genuine defects (known) and repaired ones (fixed).",
    }
    for e in m["engines"]:
        e["serves_properties"] = [c["property_id"] for c in checks if c["engine"] == e["name"]]
    out = "/verif/MANIFEST.json"
    json.dump(m, open(out, "w"), indent=1)
    open(out, "a").write("\n")
    try:
        import jsonschema
        jsonschema.validate(m, json.load(open("/root/.vp/MANIFEST.schema.json")))
        print("MANIFEST.json valid;", len(checks), "checks,", len(na), "not_applicable")
    except ImportError:
        print("jsonschema not importable here; run with python3-vt")

if __name__ == "__main__":
    main()
