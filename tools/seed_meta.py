#!/usr/bin/env python3
"""Write/refresh seeded/<id>/meta.json. Usage: seed_meta.py <seed dir> ["needs to manifest" text]
Keeps an existing needs_to_manifest / origin when no text is given; validation_result and
detection_result are always re-read from validation.txt / detection.txt."""
import json, os, sys
d = sys.argv[1].rstrip('/')
name = os.path.basename(d)
p = os.path.join(d, 'meta.json')
m = json.load(open(p)) if os.path.exists(p) else {}
m['seed'] = name
m['property'] = name.split('-')[0]
if len(sys.argv) > 2:
    m['needs_to_manifest'] = sys.argv[2]
m.setdefault('origin', 'independent sub-agent (third round: told the two earlier bugs for this property and asked for another site, mechanism and clause) given the property text and a scratch worktree of /repo' if name.endswith('-c') else 'independent sub-agent (fourth round: told the three earlier bugs for this property and asked for a dimension none of them involves) given the property text and a scratch worktree of /repo' if name.endswith('-d') else 'independent sub-agent (fifth round: told the four earlier bugs for this property and pointed at what a test author holds fixed) given the property text and a scratch worktree of /repo' if name.endswith('-e') else 'independent sub-agent (sixth round: told the five earlier bugs for this property and given a list of places to look: error paths, cleanup, carried-over state, long sessions, comparison boundaries, defaults, rare schemes, third-party-visible details) given the property text and a scratch worktree of /repo' if name.endswith('-f') else 'independent sub-agent (seventh round: told the six earlier bugs for this property; asked to enumerate the clauses and quantified dimensions left untouched, interactions of two features, second occurrences, integer widths, first-match logic, early returns) given the property text and a scratch worktree of /repo' if name.endswith('-g') else 'independent sub-agent (eighth round: told the seven earlier bugs for this property; asked for a behaviour a user relies on that none of them touches, in a configuration a harness author would not think to vary) given the property text and a scratch worktree of /repo' if name.endswith('-h') else 'independent sub-agent (ninth round: told the eight earlier bugs for this property; asked to go through every public configuration field, API variant and callback and pick the one somebody testing this property would leave at its default or never call) given the property text and a scratch worktree of /repo' if name.endswith('-i') else 'independent sub-agent (tenth round: told the nine earlier bugs for this property; asked to pick one of five families - internal constants and thresholds, two of something, after an error, time (equality, repeated or backward caller clock), later cycles) given the property text and a scratch worktree of /repo' if name.endswith('-j') else 'independent sub-agent (eleventh round: told the ten earlier bugs for this property; asked for a rarely taken branch a valid input can reach, or a secondary public entry point with a partly separate code path) given the property text and a scratch worktree of /repo' if name.endswith('-k') else 'independent sub-agent (twelfth round: told the eleven earlier bugs for this property; asked for a bug that needs TWO unusual-but-valid settings or events at once, each harmless alone) given the property text and a scratch worktree of /repo' if name.endswith('-l') else 'independent sub-agent (second round: told only to avoid the code site of the first seed) given the property text and a scratch worktree of /repo' if name.endswith('-b') else 'independent sub-agent given the property text and a scratch worktree of /repo')
def lines(f):
    f = os.path.join(d, f)
    return [l.rstrip('\n') for l in open(f)] if os.path.exists(f) else []
w = m.setdefault('what_i_ran', {})
w['validation'] = 'tools/seed_validate.sh seeded/' + name
w['validation_result'] = lines('validation.txt')
w['detection'] = 'tools/seed_run.sh seeded/%s <checks>' % name
w['detection_result'] = lines('detection.txt')
json.dump(m, open(p, 'w'), indent=1)
print(name, 'meta written;', (w['validation_result'] or ['no validation'])[-1])
