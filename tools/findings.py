#!/usr/bin/env python3
"""Maintains /verif/known_findings.json (committed; never written by checks at run time).
usage: findings.py fixed <property> <commit> <key> <what...>   |   findings.py known <property> <key> <what...>"""
import json, sys
P = "/verif/known_findings.json"
d = json.load(open(P))
kind = sys.argv[1]
if kind == "fixed":
    prop, commit, key, what = sys.argv[2], sys.argv[3], sys.argv[4], " ".join(sys.argv[5:])
    d = [e for e in d if not (e["property"] == prop and e["key"] == key)]
    d.append({"property": prop, "key": key, "status": "fixed", "commit": commit, "what": what,
              "record": f"fixed: property={prop} {commit} {what}"})
elif kind == "known":
    prop, key, what = sys.argv[2], sys.argv[3], " ".join(sys.argv[4:])
    d = [e for e in d if not (e["property"] == prop and e["key"] == key)]
    d.append({"property": prop, "key": key, "status": "known", "what": what})
d.sort(key=lambda e: (e["property"], e["status"], e["key"]))
json.dump(d, open(P, "w"), indent=1)
open(P, "a").write("\n")
print(len(d), "entries")
