#!/bin/bash
# Runs every kept seeded change against the checks expected to catch it (and records the outcome in
# seeded/<id>/detection.txt). /repo must be clean; it is restored after every seed.
cd /verif
declare -A MAP=(
 [C01-a]="C01 C02 C08" [C02-a]="C02 C03" [C03-a]="C03" [C04-a]="C04" [C05-a]="C05" [C06-a]="C06"
 [C07-a]="C07 C02 C16" [C08-a]="C08 C01" [C09-a]="C09 C03" [C10-a]="C10 C12" [C11-a]="C11" [C12-a]="C12 C08"
 [C13-a]="C13" [C14-a]="C14" [C15-a]="C15" [C16-a]="C16 C07 C02" [C17-a]="C17" [C18-a]="C18" [C19-a]="C19" [C20-a]="C20"
)
for d in seeded/*/; do
  id=$(basename $d)
  checks=${MAP[$id]:-${id%%-*}}
  [ -n "${1:-}" ] && [ "$1" != "$id" ] && continue
  echo "== $id: $checks"
  tools/seed_run.sh seeded/$id $checks
done
