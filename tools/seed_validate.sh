#!/bin/bash
# usage: seed_validate.sh <seed dir with patch.diff + seed_demo.rs>
# Confirms in a scratch worktree of /repo HEAD: patch applies, crate compiles, the 40 repository tests
# pass with it, the demonstration fails with it and passes without it. Removes the worktree afterwards.
set -u
SD=$(realpath "$1"); NAME=$(basename "$SD")
WT=/tmp/val/$NAME
export PATH=/root/miniconda/bin:$HOME/.cargo/bin:$PATH CARGO_NET_OFFLINE=true
rm -rf "$WT"; mkdir -p /tmp/val
git -C /repo worktree prune
git -C /repo worktree add -q --detach "$WT" HEAD || exit 2
cd "$WT" || exit 2
mkdir -p "$WT/_tmp"; export TMPDIR="$WT/_tmp"   # the suite writes fixed temp-file names: never share /tmp with another run
R="$SD/validation.txt"; : > "$R"
echo "repo HEAD $(git -C /repo log -1 --format=%h)  $(date -u +%FT%TZ)" >> "$R"
if ! git apply "$SD/patch.diff" 2>>"$R"; then echo "RESULT: patch does not apply" | tee -a "$R"; cd /; git -C /repo worktree remove --force "$WT"; exit 1; fi
cargo test --workspace --no-fail-fast --offline -- --test-threads 8 > /tmp/val/$NAME.suite.log 2>&1
PASS=$(grep -E "^test .* \.\.\. ok$" /tmp/val/$NAME.suite.log | grep -vc "(line" ); FAIL=$(grep -cE "^test .* \.\.\. FAILED$" /tmp/val/$NAME.suite.log)
echo "repository suite with patch (demo not present): ok=$PASS failed=$FAIL (expected 40 / 0)" >> "$R"
grep -E "^test .* FAILED" /tmp/val/$NAME.suite.log >> "$R"
cp "$SD/seed_demo.rs" tests/seed_demo.rs
cargo test --offline --test seed_demo > /tmp/val/$NAME.demo1.log 2>&1; D1=$?
echo "demo with patch: exit=$D1 (expected non-zero)" >> "$R"
git checkout -q -- src
cargo test --offline --test seed_demo > /tmp/val/$NAME.demo0.log 2>&1; D0=$?
echo "demo without patch: exit=$D0 (expected 0)" >> "$R"
if [ "$D1" != 0 ] && [ "$D0" = 0 ] && [ "$FAIL" = 0 ] && [ "$PASS" = 40 ]; then echo "RESULT: VALID" >> "$R"; else echo "RESULT: INVALID" >> "$R"; fi
cd /; git -C /repo worktree remove --force "$WT"
tail -5 "$R"
