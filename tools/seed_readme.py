#!/usr/bin/env python3
"""Regenerates /verif/seeded/README.md from the meta.json / validation.txt / detection.txt of every kept seed."""
import json, glob, os
rows = []
for d in sorted(glob.glob('/verif/seeded/*/')):
    sid = os.path.basename(d.rstrip('/'))
    mp = d + 'meta.json'
    if not os.path.exists(mp):
        continue
    m = json.load(open(mp))
    val = [l for l in m['what_i_ran'].get('validation_result', []) if l.startswith('RESULT')]
    det = [l for l in m['what_i_ran'].get('detection_result', []) if ' exit=' in l]
    caught = [l.split()[0] for l in det if 'exit=1' in l]
    missed = [l.split()[0] for l in det if 'exit=0' in l]
    rows.append((sid, m['property'], m['needs_to_manifest'], (val[-1] if val else '?'), ', '.join(caught) or '-', ', '.join(missed) or '-'))
out = ["# Seeded changes", "",
       "Each directory holds `patch.diff` (apply with `git -C /repo apply`), `seed_demo.rs` (the author's demonstration: fails with the patch, passes without),",
       "`notes.md` (the author's notes), `meta.json`, `validation.txt` (tools/seed_validate.sh) and `detection.txt` (tools/seed_run.sh, quick tier).", "",
       "| seed | property | needs, to manifest | validation | caught by | not caught by |", "|---|---|---|---|---|---|"]
for r in rows:
    out.append("| %s | %s | %s | %s | %s | %s |" % (r[0], r[1], r[2].replace('|', '/'), r[3].replace('RESULT: ', ''), r[4], r[5]))
open('/verif/seeded/README.md', 'w').write("\n".join(out) + "\n")
print(len(rows), "seeds")
