//! E3 — loom exploration of the REAL `src/sender/toiallocator.rs` (compiled as is through #[path];
//! its `use std::sync::{Arc, Mutex}` resolves to loom's types because this crate enables the
//! feature `verif-loom` that the hook in that file tests).
//!
//! Output: one JSON line on stdout: {"body": ..., "schedules": n, "violations": [...]}
#![allow(dead_code)]

mod common {
    pub mod lct {
        pub const TOI_FDT: u128 = flute::verif::TOI_FDT;
    }
}
mod sender {
    pub use flute::sender::TOIMaxLength;
    #[path = "/repo/src/sender/toiallocator.rs"]
    pub mod toiallocator;
}

use sender::toiallocator::{Toi, ToiAllocator};
use sender::TOIMaxLength;
use std::sync::atomic::{AtomicU64, Ordering};
use std::sync::Mutex as StdMutex;

static SCHEDULES: AtomicU64 = AtomicU64::new(0);
static VIOLATIONS: StdMutex<Vec<String>> = StdMutex::new(Vec::new());
static OUTCOMES: StdMutex<std::collections::BTreeSet<String>> = StdMutex::new(std::collections::BTreeSet::new());

fn violation(s: String) {
    let mut v = VIOLATIONS.lock().unwrap();
    if v.len() < 5 && !v.contains(&s) {
        v.push(s);
    }
}

fn check_values(label: &str, live: &[u128], bits: u32) {
    let mut seen = std::collections::BTreeSet::new();
    for v in live {
        if *v == 0 {
            violation(format!("{}: TOI 0 handed out", label));
        }
        if bits < 128 && *v >= (1u128 << bits) {
            violation(format!("{}: TOI {} does not fit {} bits", label, v, bits));
        }
        if !seen.insert(*v) {
            violation(format!("{}: TOI {} held by two live handles", label, v));
        }
    }
}

/// body (a): T1 allocates twice, T2 drops a pre-allocated handle, T3 allocates once
fn body_a() {
    loom::model(|| {
        SCHEDULES.fetch_add(1, Ordering::Relaxed);
        let alloc = ToiAllocator::new(TOIMaxLength::ToiMax16, Some(0xFFFE));
        let h0: Box<Toi> = ToiAllocator::allocate(&alloc); // 0xFFFE
        let v0 = h0.get();
        let a1 = alloc.clone();
        let a3 = alloc.clone();
        let t1 = loom::thread::spawn(move || {
            let x = ToiAllocator::allocate(&a1);
            let y = ToiAllocator::allocate(&a1);
            (x, y)
        });
        let t2 = loom::thread::spawn(move || {
            drop(h0);
        });
        let t3 = loom::thread::spawn(move || ToiAllocator::allocate(&a3));
        let (x, y) = t1.join().unwrap();
        t2.join().unwrap();
        let z = t3.join().unwrap();
        let live = vec![x.get(), y.get(), z.get()];
        check_values("a", &live, 16);
        OUTCOMES.lock().unwrap().insert(format!("a:{:?}", live));
        // the released value must be allocatable again, the live ones must not come back:
        // walk once around the 16-bit space is too long under loom; allocate a few and compare
        let mut extra = Vec::new();
        for _ in 0..4 {
            let h = ToiAllocator::allocate(&alloc);
            if live.contains(&h.get()) {
                violation(format!("a: live TOI {} handed out again (v0 = {})", h.get(), v0));
            }
            extra.push(h);
        }
        drop(extra);
        drop((x, y, z));
    });
}

/// body (b): allocation near the wrap with TOI 1 reserved, while another thread drops the handle of 1
fn body_b() {
    loom::model(|| {
        SCHEDULES.fetch_add(1, Ordering::Relaxed);
        let alloc = ToiAllocator::new(TOIMaxLength::ToiMax16, Some(1));
        let h1 = ToiAllocator::allocate(&alloc); // 1, next = 2
        assert_eq!(h1.get(), 1);
        // move the cursor to the top of the space: allocate/drop is O(1), but 65533 steps are too many
        // for loom: build a second allocator positioned at 0xFFFF and reserve 1 in it instead
        drop(h1);
        let alloc = ToiAllocator::new(TOIMaxLength::ToiMax16, Some(0xFFFF));
        let top = ToiAllocator::allocate(&alloc); // 0xFFFF, cursor wraps to 1
        let one = ToiAllocator::allocate(&alloc); // 1, cursor = 2
        assert_eq!((top.get(), one.get()), (0xFFFF, 1));
        drop(top);
        let a2 = alloc.clone();
        let t1 = loom::thread::spawn(move || {
            let x = ToiAllocator::allocate(&a2);
            let y = ToiAllocator::allocate(&a2);
            (x, y)
        });
        let t2 = loom::thread::spawn(move || drop(one));
        let (x, y) = t1.join().unwrap();
        t2.join().unwrap();
        let live = vec![x.get(), y.get()];
        check_values("b", &live, 16);
        OUTCOMES.lock().unwrap().insert(format!("b:{:?}", live));
        drop((x, y));
    });
}

/// body (c): two threads each allocate and drop in a loop of 2 (release/allocate races on the set)
fn body_c() {
    loom::model(|| {
        SCHEDULES.fetch_add(1, Ordering::Relaxed);
        let alloc = ToiAllocator::new(TOIMaxLength::ToiMax32, Some(7));
        let mut ts = Vec::new();
        for _ in 0..2 {
            let a = alloc.clone();
            ts.push(loom::thread::spawn(move || {
                let h = ToiAllocator::allocate(&a);
                let v1 = h.get();
                drop(h);
                let h2 = ToiAllocator::allocate(&a);
                (v1, h2)
            }));
        }
        let mut live = Vec::new();
        let mut hs = Vec::new();
        for t in ts {
            let (v1, h2) = t.join().unwrap();
            if v1 == 0 {
                violation("c: TOI 0".into());
            }
            live.push(h2.get());
            hs.push(h2);
        }
        check_values("c", &live, 32);
        OUTCOMES.lock().unwrap().insert(format!("c:{:?}", live));
    });
}

fn main() {
    // compile-time: the public handle and the sender can move and be shared across threads
    fn assert_send<T: Send>() {}
    fn assert_sync<T: Sync>() {}
    assert_send::<flute::sender::Toi>();
    assert_sync::<flute::sender::Toi>();
    assert_send::<flute::sender::Sender>();
    assert_sync::<flute::sender::Sender>();
    assert_send::<Box<flute::sender::ObjectDesc>>();

    let which = std::env::args().nth(1).unwrap_or_else(|| "all".into());
    let mut report = Vec::new();
    for (name, f) in [("a", body_a as fn()), ("b", body_b as fn()), ("c", body_c as fn())] {
        if which != "all" && which != name {
            continue;
        }
        SCHEDULES.store(0, Ordering::Relaxed);
        let r = std::panic::catch_unwind(f);
        if let Err(e) = r {
            let msg = e.downcast_ref::<String>().cloned().or_else(|| e.downcast_ref::<&str>().map(|s| s.to_string())).unwrap_or_else(|| "panic".into());
            violation(format!("{}: loom reported: {}", name, msg));
        }
        report.push(format!("{{\"body\": \"{}\", \"schedules\": {}}}", name, SCHEDULES.load(Ordering::Relaxed)));
    }
    let v = VIOLATIONS.lock().unwrap();
    let o = OUTCOMES.lock().unwrap();
    println!(
        "{{\"bodies\": [{}], \"distinct_outcomes\": {}, \"outcomes\": {:?}, \"max_preemptions\": \"{}\", \"violations\": {:?}}}",
        report.join(", "),
        o.len(),
        o.iter().take(12).collect::<Vec<_>>(),
        std::env::var("LOOM_MAX_PREEMPTIONS").unwrap_or_else(|_| "unbounded".into()),
        *v
    );
}
