fn main(){ println!("hi"); }
