//! Session drivers: build real Senders / Receivers from small serialisable specs.
#![allow(dead_code)]
use crate::monitor::Mon;
use crate::util::*;
use flute::core::lct::Cenc;
use flute::core::{Oti, UDPEndpoint};
use flute::receiver::{self, MultiReceiver};
use flute::sender::{
    CacheControl, CarouselRepeatMode, Config, FDTPublishMode, ObjectDesc, PriorityQueue, Sender, TOIMaxLength,
    TargetAcquisition, TransferConfig,
};
use serde::{Deserialize, Serialize};
use std::time::{Duration, SystemTime};

#[derive(Clone, Copy, Debug, Serialize, Deserialize, PartialEq, Eq, Hash, PartialOrd, Ord)]
pub enum Scheme {
    NoCode,
    Rs28,
    Rs28Us,
    RaptorQ,
    Raptor,
}
pub const ALL_SCHEMES: [Scheme; 5] = [Scheme::NoCode, Scheme::Rs28, Scheme::Rs28Us, Scheme::RaptorQ, Scheme::Raptor];

impl Scheme {
    pub fn cp(&self) -> u8 {
        match self {
            Scheme::NoCode => 0,
            Scheme::Raptor => 1,
            Scheme::Rs28 => 5,
            Scheme::RaptorQ => 6,
            Scheme::Rs28Us => 129,
        }
    }
    pub fn has_repair(&self) -> bool {
        !matches!(self, Scheme::NoCode)
    }
    /// symbols of a short last block are zero-padded to E on the wire
    pub fn pads(&self) -> bool {
        !matches!(self, Scheme::NoCode)
    }
}

#[derive(Clone, Debug, Serialize, Deserialize, PartialEq)]
pub struct OtiSpec {
    pub scheme: Scheme,
    pub e: u16,
    pub b: u16,
    pub parity: u16,
    pub inband_fti: bool,
    /// symbol alignment for Raptor/RaptorQ
    pub al: u8,
    /// number of sub-blocks N for Raptor/RaptorQ
    #[serde(default = "one_u16")]
    pub n: u16,
}
fn one_u16() -> u16 {
    1
}

impl OtiSpec {
    pub fn new(scheme: Scheme, e: u16, b: u16, parity: u16, inband_fti: bool) -> OtiSpec {
        OtiSpec { scheme, e, b, parity, inband_fti, al: 1, n: 1 }
    }
    pub fn oti(&self) -> Result<Oti, String> {
        let mut o = match self.scheme {
            Scheme::NoCode => Oti::new_no_code(self.e, self.b),
            Scheme::Rs28 => {
                if self.b > 255 || self.parity > 255 {
                    return Err("rs28 range".into());
                }
                Oti::new_reed_solomon_rs28(self.e, self.b as u8, self.parity as u8).map_err(|e| format!("{:?}", e))?
            }
            Scheme::Rs28Us => Oti::new_reed_solomon_rs28_under_specified(self.e, self.b, self.parity)
                .map_err(|e| format!("{:?}", e))?,
            Scheme::RaptorQ => {
                Oti::new_raptorq(self.e, self.b, self.parity, self.n, self.al).map_err(|e| format!("{:?}", e))?
            }
            Scheme::Raptor => Oti::new_raptor(self.e, self.b, self.parity, self.n.min(255) as u8, self.al).map_err(|e| format!("{:?}", e))?,
        };
        o.inband_fti = self.inband_fti;
        Ok(o)
    }
}

#[derive(Clone, Debug, Serialize, Deserialize, PartialEq)]
pub enum Carousel {
    Delay(u64),
    Interval(u64),
}
#[derive(Clone, Debug, Serialize, Deserialize, PartialEq)]
pub enum Target {
    Asap,
    WithinMs(u64),
    /// deadline relative to t0 in ms (may be negative = past)
    AtMs(i64),
}
#[derive(Clone, Debug, Serialize, Deserialize, PartialEq)]
pub enum Cache {
    NoCache,
    MaxStale,
    ExpiresMs(u64),
    ExpiresAtMs(u64),
}
#[derive(Clone, Copy, Debug, Serialize, Deserialize, PartialEq)]
pub enum Source {
    Buffer,
    /// in-memory seekable stream returning at most `chunk` bytes per read (0 = unlimited)
    Stream(usize),
    File,
}

#[derive(Clone, Debug, Serialize, Deserialize, PartialEq)]
pub struct ObjSpec {
    pub len: usize,
    pub salt: u8,
    pub text: bool,
    pub oti: Option<OtiSpec>,
    pub cenc: u8,
    pub inband_cenc: bool,
    pub count: u32,
    pub carousel: Option<Carousel>,
    pub prio: u32,
    pub location: String,
    pub ctype: String,
    pub groups: Option<Vec<String>>,
    pub etag: Option<String>,
    pub cache: Option<Cache>,
    pub md5: bool,
    pub source: Source,
    pub start_ms: Option<i64>,
    pub target: Option<Target>,
    pub immediate_stop: Option<bool>,
    /// for stream sources: where the stream stands when it is handed to flute (0 start, 1 after one byte,
    /// 2 middle, 3 end); the object is the whole stream, every transfer re-reads it from its start
    #[serde(default)]
    pub stream_start: u8,
    /// zero-filled content (see `content`)
    #[serde(default)]
    pub sparse: bool,
}

impl ObjSpec {
    pub fn simple(len: usize, salt: u8) -> ObjSpec {
        ObjSpec {
            len,
            salt,
            text: false,
            oti: None,
            cenc: 0,
            inband_cenc: true,
            count: 1,
            carousel: None,
            prio: 0,
            location: format!("file:///o{}", salt),
            ctype: "application/octet-stream".into(),
            groups: None,
            etag: None,
            cache: None,
            md5: true,
            source: Source::Buffer,
            start_ms: None,
            target: None,
            immediate_stop: None,
            stream_start: 0,
            sparse: false,
        }
    }
    pub fn content(&self) -> Vec<u8> {
        if self.sparse {
            // zero-filled with a marker every 64 KiB: inflates to hundreds of times its transfer length
            let mut v = vec![0u8; self.len];
            for (k, i) in (0..self.len).step_by(65_521).enumerate() {
                v[i] = self.salt.wrapping_add(k as u8) | 1;
            }
            if let Some(l) = v.last_mut() {
                *l = 0xA5;
            }
            return v;
        }
        if self.text {
            text_bytes(self.len, self.salt)
        } else {
            obj_bytes(self.len, self.salt)
        }
    }
    pub fn cenc(&self) -> Cenc {
        cenc_of(self.cenc)
    }
    pub fn transfer_config(&self) -> Result<TransferConfig, String> {
        Ok(TransferConfig {
            max_transfer_count: self.count,
            carousel_mode: self.carousel.as_ref().map(|c| match c {
                Carousel::Delay(ms) => CarouselRepeatMode::DelayBetweenTransfers(Duration::from_millis(*ms)),
                Carousel::Interval(ms) => CarouselRepeatMode::IntervalBetweenStartTimes(Duration::from_millis(*ms)),
            }),
            target_acquisition: self.target.as_ref().map(|t| match t {
                Target::Asap => TargetAcquisition::AsFastAsPossible,
                Target::WithinMs(ms) => TargetAcquisition::WithinDuration(Duration::from_millis(*ms)),
                Target::AtMs(ms) => TargetAcquisition::WithinTime(time_rel(*ms)),
            }),
            cache_control: self.cache.as_ref().map(|c| match c {
                Cache::NoCache => CacheControl::NoCache,
                Cache::MaxStale => CacheControl::MaxStale,
                Cache::ExpiresMs(ms) => CacheControl::Expires(Duration::from_millis(*ms)),
                Cache::ExpiresAtMs(ms) => CacheControl::ExpiresAt(at_ms(*ms)),
            }),
            groups: self.groups.clone(),
            cenc: self.cenc(),
            inband_cenc: self.inband_cenc,
            oti: match &self.oti {
                Some(o) => Some(o.oti()?),
                None => None,
            },
            transfer_start_time: self.start_ms.map(time_rel),
            toi: None,
            optel_propagator: None,
            e_tag: self.etag.clone(),
            allow_immediate_stop_before_first_transfer: self.immediate_stop,
        })
    }
    /// build the real ObjectDesc; `tmpdir` is used for Source::File
    pub fn desc(&self, tmpdir: Option<&std::path::Path>) -> Result<Box<ObjectDesc>, String> {
        let cfg = self.transfer_config()?;
        let url = url::Url::parse(&self.location).map_err(|e| e.to_string())?;
        let content = self.content();
        match self.source {
            Source::Buffer => {
                ObjectDesc::create_from_buffer(content, &self.ctype, &url, self.md5, cfg).map_err(|e| format!("{:?}", e))
            }
            Source::Stream(chunk) => {
                let mut st = ChunkStream::new(content, chunk);
                st.pos = match self.stream_start {
                    0 => 0,
                    1 => 1.min(st.data.len()),
                    2 => st.data.len() / 2,
                    _ => st.data.len(),
                };
                ObjectDesc::create_from_stream(Box::new(st), &self.ctype, &url, self.md5, cfg)
                    .map_err(|e| format!("{:?}", e))
            }
            Source::File => {
                let dir = tmpdir.ok_or("no tmpdir")?;
                let p = dir.join(format!("src-{}-{}.bin", self.salt, self.len));
                std::fs::write(&p, &content).map_err(|e| e.to_string())?;
                ObjectDesc::create_from_file(&p, Some(&url), &self.ctype, false, self.md5, cfg)
                    .map_err(|e| format!("{:?}", e))
            }
        }
    }
}

pub fn time_rel(ms: i64) -> SystemTime {
    if ms >= 0 {
        at_ms(ms as u64)
    } else {
        t0() - Duration::from_millis((-ms) as u64)
    }
}

pub fn cenc_of(c: u8) -> Cenc {
    match c {
        1 => Cenc::Zlib,
        2 => Cenc::Deflate,
        3 => Cenc::Gzip,
        _ => Cenc::Null,
    }
}

/// In-memory seekable stream with bounded read sizes. Debug prints only the cursor so that the
/// sender fingerprint includes the stream position but not a megabyte of bytes twice.
pub struct ChunkStream {
    data: Vec<u8>,
    pos: usize,
    chunk: usize,
    pub reads: usize,
}
impl ChunkStream {
    pub fn new(data: Vec<u8>, chunk: usize) -> ChunkStream {
        ChunkStream { data, pos: 0, chunk, reads: 0 }
    }
}
impl std::fmt::Debug for ChunkStream {
    fn fmt(&self, f: &mut std::fmt::Formatter<'_>) -> std::fmt::Result {
        write!(f, "ChunkStream(len={}, pos={}, chunk={})", self.data.len(), self.pos, self.chunk)
    }
}
impl std::io::Read for ChunkStream {
    fn read(&mut self, buf: &mut [u8]) -> std::io::Result<usize> {
        self.reads += 1;
        let mut n = buf.len().min(self.data.len() - self.pos);
        if self.chunk > 0 {
            n = n.min(self.chunk);
        }
        buf[..n].copy_from_slice(&self.data[self.pos..self.pos + n]);
        self.pos += n;
        Ok(n)
    }
}
impl std::io::Seek for ChunkStream {
    fn seek(&mut self, p: std::io::SeekFrom) -> std::io::Result<u64> {
        let np: i64 = match p {
            std::io::SeekFrom::Start(o) => o as i64,
            std::io::SeekFrom::End(o) => self.data.len() as i64 + o,
            std::io::SeekFrom::Current(o) => self.pos as i64 + o,
        };
        if np < 0 {
            return Err(std::io::Error::new(std::io::ErrorKind::InvalidInput, "seek before start"));
        }
        self.pos = (np as usize).min(self.data.len());
        Ok(self.pos as u64)
    }
}

#[derive(Clone, Debug, Serialize, Deserialize, PartialEq)]
pub struct SessSpec {
    pub oti: OtiSpec,
    pub full_fdt: bool,
    pub interleave: u8,
    /// (priority, multiplex_files)
    pub queues: Vec<(u32, u32)>,
    pub fdt_cenc: u8,
    pub sct: bool,
    pub fdt_start_id: u32,
    pub fdt_duration_s: u64,
    pub fdt_carousel: Carousel,
    pub toi_bits: u8,
    pub toi_init: Option<String>,
    pub groups: Option<Vec<String>>,
    pub rfc3926: bool,
    /// transport session identifier (0 in old replay files = the default TSI)
    #[serde(default)]
    pub tsi: u64,
    /// use flute's `Config::default()` as it is (interleave 4, one queue multiplexing 3 files, ...) instead of
    /// building the configuration from the fields above
    #[serde(default)]
    pub default_config: bool,
}

impl SessSpec {
    pub fn basic(oti: OtiSpec) -> SessSpec {
        SessSpec {
            oti,
            full_fdt: true,
            interleave: 1,
            queues: vec![(0, 1)],
            fdt_cenc: 0,
            sct: true,
            fdt_start_id: 1,
            fdt_duration_s: 3600,
            fdt_carousel: Carousel::Delay(1000),
            toi_bits: 112,
            toi_init: Some("1".into()),
            groups: None,
            rfc3926: false,
            tsi: TSI,
            default_config: false,
        }
    }
    pub fn config(&self) -> Config {
        if self.default_config {
            return Config::default();
        }
        let mut c = Config {
            fdt_duration: Duration::from_secs(self.fdt_duration_s),
            fdt_carousel_mode: match self.fdt_carousel {
                Carousel::Delay(ms) => CarouselRepeatMode::DelayBetweenTransfers(Duration::from_millis(ms)),
                Carousel::Interval(ms) => CarouselRepeatMode::IntervalBetweenStartTimes(Duration::from_millis(ms)),
            },
            fdt_start_id: self.fdt_start_id,
            fdt_cenc: cenc_of(self.fdt_cenc),
            fdt_inband_sct: self.sct,
            fdt_publish_mode: if self.full_fdt { FDTPublishMode::FullFDT } else { FDTPublishMode::ObjectsBeingTransferred },
            priority_queues: Default::default(),
            interleave_blocks: self.interleave,
            profile: if self.rfc3926 { flute::sender::Profile::RFC3926 } else { flute::sender::Profile::RFC6726 },
            toi_max_length: match self.toi_bits {
                16 => TOIMaxLength::ToiMax16,
                32 => TOIMaxLength::ToiMax32,
                48 => TOIMaxLength::ToiMax48,
                64 => TOIMaxLength::ToiMax64,
                80 => TOIMaxLength::ToiMax80,
                _ => TOIMaxLength::ToiMax112,
            },
            toi_initial_value: self.toi_init.as_ref().map(|s| s.parse::<u128>().unwrap()),
            groups: self.groups.clone(),
        };
        for (p, m) in &self.queues {
            c.set_priority_queue(*p, PriorityQueue::new(*m));
        }
        c
    }
    pub fn sender(&self) -> Result<Sender, String> {
        let oti = self.oti.oti()?;
        Ok(Sender::new(endpoint(), if self.tsi == 0 { TSI } else { self.tsi }, &oti, &self.config()))
    }
}

pub const TSI: u64 = 1;
pub fn endpoint() -> UDPEndpoint {
    UDPEndpoint::new(None, "224.0.0.1".to_string(), 3400)
}
pub fn endpoint_n(n: u8, src: Option<&str>) -> UDPEndpoint {
    UDPEndpoint::new(src.map(|s| s.to_string()), format!("224.0.0.{}", n), 3400)
}

/// read until the sender has nothing more to send at instant `now`
pub fn drain(s: &mut Sender, now: SystemTime, out: &mut Vec<(SystemTime, Vec<u8>)>, limit: usize) -> bool {
    let mut n = 0;
    while let Some(p) = s.read(now) {
        out.push((now, p));
        n += 1;
        if n >= limit {
            return false;
        }
    }
    true
}

pub fn recv_config(receive_once: bool) -> receiver::Config {
    receiver::Config {
        max_objects_error: 0,
        session_timeout: None,
        object_timeout: Some(Duration::from_secs(10)),
        object_max_cache_size: None,
        object_receive_once: receive_once,
        enable_fdt_expiration_check: true,
    }
}

/// push packets into a fresh MultiReceiver; returns per-packet result (Err text / panic text)
pub fn deliver(
    mon: &Mon,
    cfg: receiver::Config,
    pkts: &[(SystemTime, Vec<u8>)],
) -> (Vec<Result<(), String>>, Option<String>) {
    let mut rx = MultiReceiver::new(mon.builder(), Some(cfg), false);
    let ep = endpoint();
    let mut res = Vec::with_capacity(pkts.len());
    for (t, p) in pkts {
        match catch(|| rx.push(&ep, p, *t)) {
            Ok(Ok(())) => res.push(Ok(())),
            Ok(Err(e)) => res.push(Err(format!("{:?}", e.0.to_string()))),
            Err(p) => {
                std::mem::forget(rx);
                return (res, Some(p));
            }
        }
    }
    drop(rx);
    (res, None)
}

/// Same through the single-session `Receiver` and its `push_data` entry point (public API of its own)
pub fn deliver_direct(mon: &Mon, cfg: receiver::Config, tsi: u64, pkts: &[(SystemTime, Vec<u8>)]) -> (Vec<Result<(), String>>, Option<String>) {
    let ep = endpoint();
    let mut rx = receiver::Receiver::new(&ep, tsi, mon.builder(), Some(cfg));
    let mut res = Vec::with_capacity(pkts.len());
    for (t, p) in pkts {
        match catch(|| rx.push_data(p, *t)) {
            Ok(Ok(())) => res.push(Ok(())),
            Ok(Err(e)) => res.push(Err(format!("{:?}", e.0.to_string()))),
            Err(p) => {
                std::mem::forget(rx);
                return (res, Some(p));
            }
        }
    }
    drop(rx);
    (res, None)
}

pub fn md5_b64(data: &[u8]) -> String {
    use base64::Engine;
    base64::engine::general_purpose::STANDARD.encode(md5::compute(data).0)
}

pub fn inflate(cenc: u8, data: &[u8]) -> Result<Vec<u8>, String> {
    use std::io::Read;
    let mut out = Vec::new();
    match cenc {
        0 => out.extend_from_slice(data),
        1 => {
            flate2::read::ZlibDecoder::new(data).read_to_end(&mut out).map_err(|e| e.to_string())?;
        }
        2 => {
            flate2::read::DeflateDecoder::new(data).read_to_end(&mut out).map_err(|e| e.to_string())?;
        }
        3 => {
            flate2::read::GzDecoder::new(data).read_to_end(&mut out).map_err(|e| e.to_string())?;
        }
        _ => return Err("cenc".into()),
    }
    Ok(out)
}

/// `Sender::add_object` with the per-scheme acceptance tally (util::tally_add)
pub fn add_tallied(s: &mut Sender, prio: u32, d: Box<flute::sender::ObjectDesc>, sess_oti: &OtiSpec) -> Result<u128, flute::error::FluteError> {
    let id = d.config.oti.as_ref().map(|o| o.fec_encoding_id as u8).unwrap_or_else(|| sess_oti.oti().map(|o| o.fec_encoding_id as u8).unwrap_or(255));
    let r = s.add_object(prio, d);
    crate::util::tally_add(id, r.is_ok());
    r
}
