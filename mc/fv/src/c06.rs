//! C06 — ALC/LCT wire format: flute's encoder against an independent RFC decoder, an independent
//! RFC encoder against flute's parser, on exhaustive grids of width classes, flags, codepoints,
//! extension sets and boundary values.
use crate::report::*;
use crate::rfc;
use crate::util::*;
use flute::core::lct::Cenc;
use flute::core::Oti;
use flute::verif::PktFields;
use serde::{Deserialize, Serialize};
use serde_json::json;
use std::time::{Duration, SystemTime, UNIX_EPOCH};

#[derive(Serialize, Deserialize, Clone, Debug, PartialEq)]
pub struct OtiV {
    pub cp: u8,
    pub e: u16,
    pub b: u32,
    pub parity: u32,
    pub inst: u16,
    pub m: u8,
    pub g: u8,
    pub z: u32,
    pub n: u32,
    pub al: u8,
    pub inband_fti: bool,
}

impl OtiV {
    pub fn basic(cp: u8) -> OtiV {
        OtiV { cp, e: 16, b: 4, parity: if cp == 0 { 0 } else { 2 }, inst: 0, m: 8, g: 1, z: 3, n: 1, al: 1, inband_fti: true }
    }
    pub fn oti(&self) -> Oti {
        use flute::core::FECEncodingID as F;
        let id = match self.cp {
            0 => F::NoCode,
            1 => F::Raptor,
            2 => F::ReedSolomonGF2M,
            5 => F::ReedSolomonGF28,
            6 => F::RaptorQ,
            _ => F::ReedSolomonGF28UnderSpecified,
        };
        let mut o = Oti::new_no_code(1, 1);
        o.fec_encoding_id = id;
        o.fec_instance_id = self.inst;
        o.maximum_source_block_length = self.b;
        o.encoding_symbol_length = self.e;
        o.max_number_of_parity_symbols = self.parity;
        o.inband_fti = self.inband_fti;
        match self.cp {
            6 => flute::verif::oti_set_raptorq(&mut o, self.z as u8, self.n as u16, self.al),
            1 => flute::verif::oti_set_raptor(&mut o, self.z as u16, self.n as u8, self.al),
            2 => flute::verif::oti_set_rs2m(&mut o, self.m, self.g),
            _ => {}
        }
        o
    }
}

#[derive(Serialize, Deserialize, Clone, Debug)]
pub struct EncCase {
    pub oti: OtiV,
    pub cci: String,
    pub tsi: u64,
    pub toi: String,
    pub close_object: bool,
    pub cenc: u8,
    pub inband_cenc: bool,
    pub sct: bool,
    /// unix microseconds of "now"
    pub now_us: u64,
    pub fdt_id: u32,
    pub rfc3926: bool,
    pub transfer_length: u64,
    pub sbn: u32,
    pub esi: u32,
    pub sbl: u32,
    pub payload_len: usize,
}

fn cenc_of(c: u8) -> Cenc {
    crate::sess::cenc_of(c)
}

/// flute encodes, the independent decoder decodes; returns (signature, description) on mismatch
pub fn check_encode(c: &EncCase) -> Vec<(String, String)> {
    let mut soft = Vec::new();
    let hard = check_encode_inner(c, &mut soft);
    soft.extend(hard);
    soft
}

fn check_encode_inner(c: &EncCase, soft: &mut Vec<(String, String)>) -> Option<(String, String)> {
    let cci: u128 = c.cci.parse().unwrap();
    let toi: u128 = c.toi.parse().unwrap();
    let oti = c.oti.oti();
    let now = UNIX_EPOCH + Duration::from_micros(c.now_us);
    let payload: Vec<u8> = (0..c.payload_len).map(|i| (i * 7 + 3) as u8).collect();
    let fields = PktFields {
        payload: payload.clone(),
        transfer_length: c.transfer_length,
        esi: c.esi,
        sbn: c.sbn,
        toi,
        fdt_id: if toi == 0 { Some(c.fdt_id) } else { None },
        cenc: cenc_of(c.cenc),
        inband_cenc: c.inband_cenc,
        close_object: c.close_object,
        source_block_length: c.sbl,
        sender_current_time: c.sct,
    };
    let profile = if c.rfc3926 { flute::sender::Profile::RFC3926 } else { flute::sender::Profile::RFC6726 };
    let bytes = match catch(|| flute::verif::new_alc_pkt(&oti, &cci, c.tsi, &fields, profile, now)) {
        Ok(b) => b,
        Err(p) => return Some((format!("C06/encode-panic/{}", panic_sig(&p)), format!("new_alc_pkt panicked: {}", p))),
    };
    let cpn = scheme_name(c.oti.cp);
    let r = match rfc::decode(&bytes) {
        Ok(r) => r,
        Err(e) => return Some((format!("C06/encode/undecodable/{}", cpn), format!("independent decoder rejects flute's packet: {} ({})", e, hex(&bytes[..bytes.len().min(48)])))),
    };
    let mism = |field: &str, got: String, exp: String| Some((format!("C06/encode/{}/{}", field, cpn), format!("flute wrote {}={} for input {} (packet {})", field, got, exp, hex(&bytes[..bytes.len().min(64)]))));
    if r.version != 1 {
        return mism("version", r.version.to_string(), "1".into());
    }
    if r.psi != 0 || r.res != 0 {
        return mism("psi-res", format!("{}/{}", r.psi, r.res), "0/0".into());
    }
    if r.cci != cci {
        return mism("cci", r.cci.to_string(), cci.to_string());
    }
    if r.tsi != c.tsi {
        return mism("tsi", r.tsi.to_string(), c.tsi.to_string());
    }
    if r.toi != toi {
        return mism("toi", r.toi.to_string(), toi.to_string());
    }
    if r.cp != c.oti.cp {
        return mism("codepoint", r.cp.to_string(), c.oti.cp.to_string());
    }
    if r.b != c.close_object {
        return mism("close-object", r.b.to_string(), c.close_object.to_string());
    }
    if r.a {
        return mism("close-session", "true".into(), "false".into());
    }
    // EXT_FDT
    let exp_fdt = if toi == 0 { Some((if c.rfc3926 { 1u8 } else { 2u8 }, c.fdt_id)) } else { None };
    if r.fdt() != exp_fdt {
        return mism("ext-fdt", format!("{:?}", r.fdt()), format!("{:?}", exp_fdt));
    }
    // EXT_CENC
    let exp_cenc = if (toi == 0 && c.cenc != 0) || c.inband_cenc { Some(c.cenc) } else { None };
    if r.cenc() != exp_cenc {
        return mism("ext-cenc", format!("{:?}", r.cenc()), format!("{:?}", exp_cenc));
    }
    // EXT_TIME
    if c.sct {
        match r.sct() {
            None => return mism("ext-time", "absent".into(), format!("{} us", c.now_us)),
            Some((s, f)) => {
                let got = rfc::sct_to_unix_micros(s, f);
                if (got - c.now_us as i128).abs() > 1 {
                    return mism("ext-time", format!("{} us", got), format!("{} us", c.now_us));
                }
            }
        }
    } else if r.ext(rfc::EXT_TIME).is_some() {
        return mism("ext-time", "present".into(), "absent".into());
    }
    // EXT_FTI
    let want_fti = toi == 0 || c.oti.inband_fti;
    match (r.fti(true), want_fti) {
        (None, false) => {}
        (None, true) => return mism("ext-fti", "absent".into(), "present".into()),
        (Some(_), false) => return mism("ext-fti", "present".into(), "absent".into()),
        (Some(Err(e)), true) => return mism("ext-fti", format!("undecodable: {}", e), "decodable".into()),
        (Some(Ok(f)), true) => {
            let o = &c.oti;
            let exp = rfc::Fti {
                l: c.transfer_length,
                e: o.e,
                b: match o.cp {
                    1 | 6 => 0,
                    _ => o.b,
                },
                max_n: match o.cp {
                    5 | 2 | 129 => o.b + o.parity,
                    _ => 0,
                },
                instance_id: if o.cp == 129 { o.inst } else { 0 },
                m: if o.cp == 2 { o.m } else { 0 },
                g: if o.cp == 2 { o.g } else { 0 },
                z: if o.cp == 1 || o.cp == 6 { o.z } else { 0 },
                n: if o.cp == 1 || o.cp == 6 { o.n } else { 0 },
                al: if o.cp == 1 || o.cp == 6 { o.al } else { 0 },
            };
            if f != exp {
                // for Raptor distinguish "RFC 5053 layout not used" from a genuine value error
                if o.cp == 1 {
                    if let Some(Ok(f2)) = r.fti(false) {
                        if f2 == exp {
                            soft.push((
                                "C06/fti-layout/Raptor/rfc5053".into(),
                                format!("Raptor (FEC ID 1) EXT_FTI is written in the RaptorQ field order (40-bit F, reserved, T, Z, N, Al, padding); RFC 5053 §3.2.2/3.2.3 prescribes F(48) reserved(16) T(16) Z(16) N(8) Al(8); an RFC decoder reads {:?} instead of {:?}", f, exp),
                            ));
                        } else {
                            return mism("ext-fti", format!("{:?}", f2), format!("{:?}", exp));
                        }
                    } else {
                        return mism("ext-fti", format!("{:?}", f), format!("{:?}", exp));
                    }
                } else {
                    return mism("ext-fti", format!("{:?}", f), format!("{:?}", exp));
                }
            }
        }
    }
    // FEC payload id + payload
    match r.payload_id(c.oti.m) {
        Err(e) => return mism("payload-id", e, "decodable".into()),
        Ok((sbn, esi, sbl, _)) => {
            if sbn != c.sbn || esi != c.esi {
                return mism("payload-id", format!("sbn={} esi={}", sbn, esi), format!("sbn={} esi={}", c.sbn, c.esi));
            }
            if c.oti.cp == 129 && sbl != Some(c.sbl) {
                return mism("payload-id-sbl", format!("{:?}", sbl), c.sbl.to_string());
            }
        }
    }
    if r.payload() != &payload[..] {
        return mism("payload", hex(r.payload()), hex(&payload));
    }
    // flute -> flute round trip on the same packet
    let rt = catch(|| {
        let p = flute::core::alc::parse_alc_pkt(&bytes).map_err(|e| e.0.to_string())?;
        let pid = flute::core::alc::parse_payload_id(&p, &oti).map_err(|e| e.0.to_string())?;
        let sct = flute::core::alc::get_sender_current_time(&p).map_err(|e| e.0.to_string())?;
        Ok::<_, String>((p.lct.cci, p.lct.tsi, p.lct.toi, p.lct.cp, p.lct.close_object, p.lct.close_session, p.transfer_length, p.cenc.map(|c| c as u8), p.fdt_info.as_ref().map(|f| (f.version, f.fdt_instance_id)), pid.sbn, pid.esi, pid.source_block_length, sct, p.oti.clone(), p.data[p.data_payload_offset..].to_vec()))
    });
    match rt {
        Err(p) => return Some((format!("C06/roundtrip-panic/{}", panic_sig(&p)), format!("flute panicked parsing its own packet: {}", p))),
        Ok(Err(e)) => return Some((format!("C06/roundtrip/rejected/{}", cpn), format!("flute rejects its own packet: {} ({})", e, hex(&bytes[..bytes.len().min(64)])))),
        Ok(Ok((pcci, ptsi, ptoi, pcp, pb, pa, ptl, pcenc, pfdt, psbn, pesi, psbl, psct, poti, ppay))) => {
            let m2 = |field: &str, got: String, exp: String| Some((format!("C06/roundtrip/{}/{}", field, cpn), format!("flute parsed {}={} from a packet it built with {}", field, got, exp)));
            if pcci != cci {
                return m2("cci", pcci.to_string(), cci.to_string());
            }
            if ptsi != c.tsi {
                return m2("tsi", ptsi.to_string(), c.tsi.to_string());
            }
            if ptoi != toi {
                return m2("toi", ptoi.to_string(), toi.to_string());
            }
            if pcp != c.oti.cp || pb != c.close_object || pa {
                return m2("cp-flags", format!("{} {} {}", pcp, pb, pa), format!("{} {} false", c.oti.cp, c.close_object));
            }
            if want_fti && ptl != Some(c.transfer_length) {
                return m2("transfer-length", format!("{:?}", ptl), c.transfer_length.to_string());
            }
            if pcenc != exp_cenc {
                return m2("cenc", format!("{:?}", pcenc), format!("{:?}", exp_cenc));
            }
            if pfdt != exp_fdt.map(|(v, i)| (v as u32, i)) {
                return m2("fdt", format!("{:?}", pfdt), format!("{:?}", exp_fdt));
            }
            if psbn != c.sbn || pesi != c.esi {
                return m2("payload-id", format!("{} {}", psbn, pesi), format!("{} {}", c.sbn, c.esi));
            }
            if c.oti.cp == 129 && psbl != Some(c.sbl) {
                return m2("sbl", format!("{:?}", psbl), c.sbl.to_string());
            }
            if c.sct {
                let us = psct.map(|t| t.duration_since(UNIX_EPOCH).unwrap().as_micros() as i128);
                if us.map(|u| (u - c.now_us as i128).abs() > 1).unwrap_or(true) {
                    return m2("sct", format!("{:?}", us), c.now_us.to_string());
                }
            }
            if want_fti {
                if let Some(po) = poti {
                    let o = &c.oti;
                    let mut bad = po.encoding_symbol_length != o.e;
                    if !matches!(o.cp, 1 | 6) {
                        bad |= po.maximum_source_block_length != o.b;
                    }
                    if matches!(o.cp, 5 | 2 | 129) {
                        bad |= po.max_number_of_parity_symbols != o.parity;
                    }
                    if matches!(o.cp, 1 | 6) {
                        bad |= flute::verif::oti_get_scheme(&po) != Some((o.cp, o.z, o.n, o.al as u32));
                    }
                    if o.cp == 2 {
                        bad |= flute::verif::oti_get_scheme(&po) != Some((2, o.m as u32, o.g as u32, 0));
                    }
                    if o.cp == 129 {
                        bad |= po.fec_instance_id != o.inst;
                    }
                    if bad {
                        return m2("oti", format!("{:?}", po), format!("{:?}", o));
                    }
                } else {
                    return m2("oti", "none".into(), "some".into());
                }
            }
            if ppay != payload {
                return m2("payload", hex(&ppay), hex(&payload));
            }
        }
    }
    None
}

fn scheme_name(cp: u8) -> &'static str {
    match cp {
        0 => "NoCode",
        1 => "Raptor",
        2 => "RS2m",
        5 => "RS28",
        6 => "RaptorQ",
        129 => "RS28US",
        _ => "?",
    }
}

// ------------------------------------------------------------------------------------------------
// reference -> flute

#[derive(Serialize, Deserialize, Clone, Debug)]
pub struct DecCase {
    pub cp: u8,
    pub c: u8,
    pub s: u8,
    pub o: u8,
    pub h: u8,
    pub cci: String,
    pub tsi: u64,
    pub toi: String,
    pub a: bool,
    pub b: bool,
    /// extension list: "fdt", "cenc", "time", "time-hi", "time-hi-ert", "time-hi-slc", "time-hi-ert-slc", "time-all", "fti", "u<het>:<hel>" unknown variable, "x<het>" unknown fixed
    pub exts: Vec<String>,
    pub fti: OtiV,
    pub l: u64,
    pub sbn: u32,
    pub esi: u32,
    pub sbl: u32,
    pub sct_s: u32,
    pub sct_f: u32,
    pub fdt_id: u32,
    pub cenc: u8,
    pub raptor_rfc_layout: bool,
}

fn build_fti(f: &OtiV, l: u64, raptor_rfc: bool) -> Vec<u8> {
    match f.cp {
        0 => rfc::fti_nocode(l, f.e, f.b),
        129 => rfc::fti_sbs(l, f.inst, f.e, f.b as u16, (f.b + f.parity) as u16),
        5 => rfc::fti_rs28(l, f.e, f.b as u8, (f.b + f.parity) as u8),
        2 => rfc::fti_rs2m(l, f.m, f.g, f.e, f.b as u16, (f.b + f.parity) as u16),
        6 => rfc::fti_raptorq(l, f.e, f.z as u8, f.n as u16, f.al),
        _ => {
            if raptor_rfc {
                rfc::fti_raptor_rfc(l, f.e, f.z as u16, f.n as u8, f.al)
            } else {
                rfc::fti_raptor_flute(l, f.e, f.z as u16, f.n as u8, f.al)
            }
        }
    }
}

pub fn check_decode(c: &DecCase) -> Option<(String, String)> {
    let cci: u128 = c.cci.parse().unwrap();
    let toi: u128 = c.toi.parse().unwrap();
    let mut sp = rfc::Spec::minimal(c.cp, c.tsi, toi);
    sp.c = c.c;
    sp.s = c.s;
    sp.o = c.o;
    sp.h = c.h;
    sp.cci = cci;
    sp.a = c.a;
    sp.b = c.b;
    let mut has = (false, false, false, false);
    let mut frac = true;
    for e in &c.exts {
        let bytes = match e.as_str() {
            "fdt" => {
                has.0 = true;
                rfc::ext_fdt(2, c.fdt_id)
            }
            "cenc" => {
                has.1 = true;
                rfc::ext_cenc(c.cenc)
            }
            "time" => {
                has.2 = true;
                rfc::ext_time(c.sct_s, Some(c.sct_f))
            }
            "time-hi" => {
                has.2 = true;
                frac = false;
                rfc::ext_time(c.sct_s, None)
            }
            // SCT with the other optional time values of RFC 5651 (expected residual time, session last changed)
            "time-hi-ert" => {
                has.2 = true;
                frac = false;
                rfc::ext_time_full(c.sct_s, None, Some(0x8000_0000), None)
            }
            "time-hi-slc" => {
                has.2 = true;
                frac = false;
                rfc::ext_time_full(c.sct_s, None, None, Some(0xE8F5_C28F))
            }
            "time-hi-ert-slc" => {
                has.2 = true;
                frac = false;
                rfc::ext_time_full(c.sct_s, None, Some(3600), Some(c.sct_s.wrapping_sub(77)))
            }
            "time-all" => {
                has.2 = true;
                rfc::ext_time_full(c.sct_s, Some(c.sct_f), Some(0x0027_8D00), Some(c.sct_s.wrapping_sub(5)))
            }
            "fti" => {
                has.3 = true;
                build_fti(&c.fti, c.l, c.raptor_rfc_layout)
            }
            x if x.starts_with('u') => {
                let mut it = x[1..].split(':');
                let het: u8 = it.next().unwrap().parse().unwrap();
                let hel: u8 = it.next().unwrap().parse().unwrap();
                rfc::ext_unknown_var(het, hel, 0x5A)
            }
            x => rfc::ext_unknown_fixed(x[1..].parse().unwrap(), 0xC3),
        };
        sp.exts.push(bytes);
    }
    let hdr: usize = 4 + 4 * (c.c as usize + 1) + 4 * c.s as usize + 2 * c.h as usize + 4 * c.o as usize + 2 * c.h as usize + sp.exts.iter().map(|e| e.len()).sum::<usize>();
    if hdr > 1020 || hdr % 4 != 0 {
        return None; // not expressible in HDR_LEN
    }
    sp.payload_id = rfc::pid(c.cp, c.sbn, c.esi, c.sbl, c.fti.m);
    sp.payload = vec![0xEE; 5];
    let bytes = rfc::encode(&sp);
    let cpn = scheme_name(c.cp);
    let tsi_bits = 32 * c.s as u32 + 16 * c.h as u32;
    let toi_bits = 32 * c.o as u32 + 16 * c.h as u32;
    let exp_tsi = if tsi_bits >= 64 { c.tsi } else { c.tsi & ((1u64 << tsi_bits) - 1) };
    let exp_toi = if toi_bits == 0 { 0 } else { toi & ((1u128 << toi_bits) - 1) };
    let exp_cci = if c.c == 3 { cci } else { cci & ((1u128 << (32 * (c.c as u32 + 1))) - 1) };
    let res = catch(|| {
        let p = flute::core::alc::parse_alc_pkt(&bytes).map_err(|e| format!("parse_alc_pkt: {}", e.0))?;
        let sct = flute::core::alc::get_sender_current_time(&p).map_err(|e| format!("get_sender_current_time: {}", e.0))?;
        let oti_for_pid = p.oti.clone().unwrap_or_else(|| c.fti.oti());
        let pid = flute::core::alc::parse_payload_id(&p, &oti_for_pid).map_err(|e| format!("parse_payload_id: {}", e.0))?;
        Ok::<_, String>((p.lct.cci, p.lct.tsi, p.lct.toi, p.lct.cp, p.lct.close_object, p.lct.close_session, p.transfer_length, p.cenc.map(|c| c as u8), p.fdt_info.as_ref().map(|f| (f.version, f.fdt_instance_id)), pid.sbn, pid.esi, pid.source_block_length, sct, p.oti.clone(), p.data[p.data_payload_offset..].to_vec()))
    });
    let feat = {
        let mut f = String::new();
        if c.exts.iter().any(|e| e.starts_with('u')) {
            let big = c.exts.iter().filter(|e| e.starts_with('u')).any(|e| e.split(':').nth(1).unwrap().parse::<u32>().unwrap() >= 64);
            f.push_str(if big { "/unknown-ext-hel>=64" } else { "/unknown-ext" });
        }
        if c.exts.iter().any(|e| e.starts_with('x')) {
            f.push_str("/unknown-fixed-ext");
        }
        f
    };
    match res {
        Err(p) => Some((format!("C06/decode-panic/{}", panic_sig(&p)), format!("flute panicked on an RFC-conformant packet: {} ({})", p, hex(&bytes[..bytes.len().min(64)])))),
        Ok(Err(e)) => {
            if c.cp == 1 && c.raptor_rfc_layout && has.3 {
                // an RFC 5053 layout FTI is read with the wrong field order: may be refused
                return Some(("C06/fti-layout/Raptor/rfc5053".into(), format!("RFC 5053 EXT_FTI (F={},T={},Z={},N={},Al={}) refused by flute: {}", c.l, c.fti.e, c.fti.z, c.fti.n, c.fti.al, e)));
            }
            Some((format!("C06/decode/rejected/{}{}", cpn, feat), format!("flute rejects an RFC-conformant packet: {} (S={} O={} H={} C={} exts={:?}; {})", e, c.s, c.o, c.h, c.c, c.exts, hex(&bytes[..bytes.len().min(48)]))))
        }
        Ok(Ok((pcci, ptsi, ptoi, pcp, pb, pa, ptl, pcenc, pfdt, psbn, pesi, psbl, psct, poti, ppay))) => {
            let m2 = |field: &str, got: String, exp: String| Some((format!("C06/decode/{}/{}{}", field, cpn, feat), format!("flute parsed {}={}, the packet carries {} (S={} O={} H={} C={} exts={:?})", field, got, exp, c.s, c.o, c.h, c.c, c.exts)));
            if pcci != exp_cci {
                return m2("cci", pcci.to_string(), exp_cci.to_string());
            }
            if ptsi != exp_tsi {
                return m2("tsi", ptsi.to_string(), exp_tsi.to_string());
            }
            if ptoi != exp_toi {
                return m2("toi", ptoi.to_string(), exp_toi.to_string());
            }
            if pcp != c.cp || pb != c.b || pa != c.a {
                return m2("cp-flags", format!("{} {} {}", pcp, pb, pa), format!("{} {} {}", c.cp, c.b, c.a));
            }
            let exp_cenc = if has.1 { Some(c.cenc) } else { None };
            if pcenc != exp_cenc {
                return m2("cenc", format!("{:?}", pcenc), format!("{:?}", exp_cenc));
            }
            let exp_fdt = if has.0 && exp_toi == 0 { Some((2u32, c.fdt_id)) } else { None };
            if pfdt != exp_fdt {
                return m2("fdt", format!("{:?}", pfdt), format!("{:?}", exp_fdt));
            }
            if has.2 {
                let exp = rfc::sct_to_unix_micros(c.sct_s, if frac { Some(c.sct_f) } else { None });
                let got = psct.map(|t| t.duration_since(UNIX_EPOCH).unwrap().as_micros() as i128);
                if got.map(|g| (g - exp).abs() > 1).unwrap_or(true) {
                    return m2("sct", format!("{:?}", got), exp.to_string());
                }
            } else if psct.is_some() {
                return m2("sct", "some".into(), "none".into());
            }
            if has.3 {
                let o = &c.fti;
                let raptor_rfc = c.cp == 1 && c.raptor_rfc_layout;
                let mut bad = ptl != Some(c.l);
                match &poti {
                    None => bad = true,
                    Some(po) => {
                        bad |= po.encoding_symbol_length != o.e;
                        if !matches!(o.cp, 1 | 6) {
                            bad |= po.maximum_source_block_length != o.b;
                        }
                        if matches!(o.cp, 5 | 2 | 129) {
                            bad |= po.max_number_of_parity_symbols != o.parity;
                        }
                        if matches!(o.cp, 1 | 6) {
                            bad |= flute::verif::oti_get_scheme(po) != Some((o.cp, o.z, o.n, o.al as u32));
                        }
                        if o.cp == 2 {
                            bad |= flute::verif::oti_get_scheme(po) != Some((2, if o.m == 0 { 8 } else { o.m } as u32, if o.g == 0 { 1 } else { o.g } as u32, 0));
                        }
                        if o.cp == 129 {
                            bad |= po.fec_instance_id != o.inst;
                        }
                    }
                }
                if bad {
                    if raptor_rfc {
                        return Some(("C06/fti-layout/Raptor/rfc5053".into(), format!("RFC 5053 EXT_FTI (F={},T={},Z={},N={},Al={}) parsed by flute as L={:?} {:?}", c.l, o.e, o.z, o.n, o.al, ptl, poti)));
                    }
                    return m2("fti", format!("L={:?} {:?}", ptl, poti), format!("L={} {:?}", c.l, o));
                }
            } else if poti.is_some() {
                return m2("fti", "some".into(), "none".into());
            }
            if psbn != c.sbn || pesi != c.esi {
                return m2("payload-id", format!("{} {}", psbn, pesi), format!("{} {}", c.sbn, c.esi));
            }
            if c.cp == 129 && psbl != Some(c.sbl) {
                return m2("sbl", format!("{:?}", psbl), c.sbl.to_string());
            }
            if ppay != vec![0xEE; 5] {
                return m2("payload", hex(&ppay), "ee x5".into());
            }
            None
        }
    }
}

// ------------------------------------------------------------------------------------------------
// grids

fn class_values(nbytes: u32) -> Vec<u128> {
    // values that need exactly `nbytes` bytes when rounded up to the 16-bit granularity of LCT
    if nbytes == 0 {
        return vec![0];
    }
    let max: u128 = if nbytes >= 16 { u128::MAX } else { (1u128 << (8 * nbytes)) - 1 };
    let min: u128 = if nbytes <= 2 { 1 } else { 1u128 << (8 * (nbytes - 2)) };
    let pat: u128 = 0xA5A5_A5A5_A5A5_A5A5_A5A5_A5A5_A5A5_A5A5u128 & max | (min & !0xFF);
    let mut v = vec![min, max, pat];
    v.dedup();
    v
}

fn times_us() -> Vec<u64> {
    let mut v = Vec::new();
    // 1970-01-01, 2000-01-01, 2027-01-01, NTP era end 2036-02-07 06:28:15
    for s in [0u64, 946_684_800, EPOCH_2027, 2_085_978_495] {
        for us in [0u64, 1, 499_999, 999_999] {
            v.push(s * 1_000_000 + us);
        }
    }
    v
}

fn enc_base(cp: u8) -> EncCase {
    EncCase {
        oti: OtiV::basic(cp),
        cci: "0".into(),
        tsi: 1,
        toi: "1".into(),
        close_object: false,
        cenc: 0,
        inband_cenc: false,
        sct: false,
        now_us: EPOCH_2027 * 1_000_000 + 123_456,
        fdt_id: 1,
        rfc3926: false,
        transfer_length: 1000,
        sbn: 0,
        esi: 0,
        sbl: 4,
        payload_len: 5,
    }
}

const CPS: [u8; 6] = [0, 1, 2, 5, 6, 129];

pub fn enc_grid(thorough: bool) -> Vec<EncCase> {
    let mut v = Vec::new();
    // (1) header product: widths x flags x codepoints x extension sets
    let cci_bytes = [0u32, 4, 8, 12, 16];
    let tsi_bytes = [0u32, 2, 4, 6];
    let toi_bytes = [0u32, 2, 4, 6, 8, 10, 12, 14];
    for cp in CPS {
        for cb in cci_bytes {
            for tb in tsi_bytes {
                for ob in toi_bytes {
                    for cci in class_values(cb) {
                        for tsi in class_values(tb) {
                            for toi in class_values(ob) {
                                if !thorough && (cci as u8 & 1) == 1 && (tsi as u8 & 1) == 0 && toi != 0 && cp != 0 {
                                    // quick: thin the value axis for non-default codepoints
                                    continue;
                                }
                                for close_object in [false, true] {
                                    for extset in 0..8u8 {
                                        let inband_cenc = extset & 1 != 0;
                                        let sct = extset & 2 != 0;
                                        let inband_fti = extset & 4 != 0;
                                        let mut c = enc_base(cp);
                                        c.cci = cci.to_string();
                                        c.tsi = tsi as u64;
                                        c.toi = toi.to_string();
                                        c.close_object = close_object;
                                        c.inband_cenc = inband_cenc;
                                        c.cenc = if inband_cenc { 3 } else { 0 };
                                        c.sct = sct;
                                        c.oti.inband_fti = inband_fti;
                                        v.push(c);
                                    }
                                }
                            }
                        }
                    }
                }
            }
        }
    }
    // (2) FTI values per scheme
    let ls: Vec<u64> = vec![0, 1, 65535, 65536, (1 << 32) - 1, 1 << 32, (1 << 40) - 1, 1 << 40, (1 << 48) - 1];
    for cp in CPS {
        for l in &ls {
            if (cp == 6 || cp == 1) && *l >= (1 << 40) {
                continue; // 40-bit F (Raptor: the layout flute uses; RFC 5053's 48 bits are the known finding)
            }
            for e in [1u16, 3, 1424, 65535] {
                let bs: Vec<u32> = match cp {
                    5 => vec![1, 2, 200],
                    0 => vec![1, 255, 65535, 65536, u32::MAX],
                    _ => vec![1, 255, 60000],
                };
                for b in bs {
                    let ps: Vec<u32> = match cp {
                        0 | 1 | 6 => vec![0],
                        5 => vec![1, 255 - b],
                        _ => vec![1, 65535 - b],
                    };
                    for parity in ps {
                        for (z, n, al) in [(1u32, 1u32, 1u8), (255, 65535, 4), (65535, 255, 255)] {
                            if !(cp == 1 || cp == 6) && z != 1 {
                                continue;
                            }
                            if (cp == 1 || cp == 6) && e % al as u16 != 0 {
                                continue; // Oti::new_raptor(q) refuses E not a multiple of Al
                            }
                            if cp == 6 && (z > 255 || n > 65535) {
                                continue;
                            }
                            if cp == 1 && n > 255 {
                                continue;
                            }
                            for (m, g) in [(8u8, 1u8), (4, 2), (16, 255)] {
                                if cp != 2 && m != 8 {
                                    continue;
                                }
                                for inst in [0u16, 65535] {
                                    if cp != 129 && inst != 0 {
                                        continue;
                                    }
                                    let mut c = enc_base(cp);
                                    c.transfer_length = *l;
                                    c.oti = OtiV { cp, e, b, parity, inst, m, g, z, n, al, inband_fti: true };
                                    v.push(c);
                                }
                            }
                        }
                    }
                }
            }
        }
    }
    // (3) payload ids over each scheme's SBN/ESI range
    for cp in CPS {
        let (sb, eb): (u32, u32) = match cp {
            0 | 1 => (16, 16),
            5 => (24, 8),
            6 => (8, 24),
            2 => (24, 8),
            _ => (32, 16),
        };
        let rng = |bits: u32| -> Vec<u32> {
            let max = if bits == 32 { u32::MAX } else { (1u32 << bits) - 1 };
            vec![0, 1, max / 2 + 1, max]
        };
        for sbn in rng(sb) {
            for esi in rng(eb) {
                for sbl in [0u32, 1, 65535] {
                    if cp != 129 && sbl != 1 {
                        continue;
                    }
                    for plen in [0usize, 1, 16] {
                        let mut c = enc_base(cp);
                        c.sbn = sbn;
                        c.esi = esi;
                        c.sbl = sbl;
                        c.payload_len = plen;
                        v.push(c);
                    }
                }
            }
        }
    }
    // (4) SCT times, FDT ids, versions
    for now_us in times_us() {
        for fdt_id in [0u32, 1, (1 << 20) - 1] {
            for rfc3926 in [false, true] {
                for cenc in 0..4u8 {
                    let mut c = enc_base(0);
                    c.toi = "0".into();
                    c.sct = true;
                    c.now_us = now_us;
                    c.fdt_id = fdt_id;
                    c.rfc3926 = rfc3926;
                    c.cenc = cenc;
                    v.push(c);
                }
            }
        }
    }
    // (5) walking ones: every single bit of every variable-width field, so that a mask, shift or width
    // error confined to one bit position cannot hide behind the class bounds
    for cp in [0u8, 6, 129] {
        for bit in 0..128u32 {
            let mut c = enc_base(cp);
            c.cci = (1u128 << bit).to_string();
            v.push(c);
        }
        for bit in 0..48u32 {
            let mut c = enc_base(cp);
            c.tsi = 1u64 << bit;
            v.push(c);
        }
        for bit in 0..112u32 {
            let mut c = enc_base(cp);
            c.toi = (1u128 << bit).to_string();
            c.oti.inband_fti = bit % 2 == 0;
            v.push(c);
        }
        for bit in 0..(if cp == 6 { 40u32 } else { 48 }) {
            let mut c = enc_base(cp);
            c.transfer_length = 1u64 << bit;
            c.oti.inband_fti = true;
            v.push(c);
        }
        let (sb, eb): (u32, u32) = match cp {
            0 => (16, 16),
            6 => (8, 24),
            _ => (32, 16),
        };
        for bit in 0..sb {
            let mut c = enc_base(cp);
            c.sbn = 1u32 << bit;
            v.push(c);
        }
        for bit in 0..eb {
            let mut c = enc_base(cp);
            c.esi = 1u32 << bit;
            v.push(c);
        }
    }
    for bit in 0..20u32 {
        for rfc3926 in [false, true] {
            let mut c = enc_base(0);
            c.toi = "0".into();
            c.fdt_id = 1 << bit;
            c.rfc3926 = rfc3926;
            v.push(c);
        }
    }
    for bit in 0..51u32 {
        // microseconds since 1970 up to 2^50 us (year 2005) and 2^50 + 2^bit
        let mut c = enc_base(0);
        c.toi = "0".into();
        c.sct = true;
        c.now_us = if bit < 51 { 1u64 << bit } else { 0 };
        v.push(c.clone());
        c.now_us = (1u64 << 50) + (1u64 << bit.min(49));
        v.push(c);
    }
    v
}

fn dec_base(cp: u8) -> DecCase {
    DecCase {
        cp,
        c: 0,
        s: 0,
        o: 0,
        h: 1,
        cci: "0".into(),
        tsi: 1,
        toi: "1".into(),
        a: false,
        b: false,
        exts: vec![],
        fti: OtiV::basic(cp),
        l: 1000,
        sbn: 0,
        esi: 0,
        sbl: 4,
        sct_s: (EPOCH_2027 + 2_208_988_800) as u32,
        sct_f: 0x8000_0000,
        fdt_id: 5,
        cenc: 3,
        raptor_rfc_layout: false,
    }
}

pub fn dec_grid(thorough: bool) -> Vec<DecCase> {
    let mut v = Vec::new();
    // (1) every (C,S,O,H) combination x values at the class bounds x flags x codepoints
    for cp in CPS {
        for c in 0..4u8 {
            for s in 0..2u8 {
                for o in 0..4u8 {
                    for h in 0..2u8 {
                        let tb = 4 * s as u32 + 2 * h as u32;
                        let ob = 4 * o as u32 + 2 * h as u32;
                        for cci in class_values(4 * (c as u32 + 1)) {
                            for tsi in [class_values(tb)[0], *class_values(tb).last().unwrap()] {
                                for toi in [class_values(ob)[0], *class_values(ob).last().unwrap()] {
                                    for (a, b) in [(false, false), (false, true), (true, false), (true, true)] {
                                        if !thorough && cp != 0 && (a || c == 2) {
                                            continue;
                                        }
                                        let mut d = dec_base(cp);
                                        d.c = c;
                                        d.s = s;
                                        d.o = o;
                                        d.h = h;
                                        d.cci = cci.to_string();
                                        d.tsi = tsi as u64;
                                        d.toi = toi.to_string();
                                        d.a = a;
                                        d.b = b;
                                        d.exts = vec!["fti".into()];
                                        v.push(d);
                                    }
                                }
                            }
                        }
                    }
                }
            }
        }
    }
    // (2) extension sets with unknown extensions before / between / after the known ones
    let unknowns: Vec<String> = {
        let mut u = Vec::new();
        for het in [0u8, 1, 127] {
            for hel in [1u8, 2, 63, 64, 200] {
                u.push(format!("u{}:{}", het, hel));
            }
        }
        for het in [128u8, 200, 255] {
            u.push(format!("x{}", het));
        }
        u
    };
    for cp in CPS {
        for toi in ["0", "7"] {
            for known_mask in 0..16u8 {
                let mut known: Vec<String> = Vec::new();
                if known_mask & 1 != 0 {
                    known.push("fdt".into());
                }
                if known_mask & 2 != 0 {
                    known.push("cenc".into());
                }
                if known_mask & 4 != 0 {
                    known.push(if cp % 2 == 0 { "time".into() } else { "time-hi".into() });
                }
                if known_mask & 8 != 0 {
                    known.push("fti".into());
                }
                // no unknown extension, both orders of the known ones
                let mut base = dec_base(cp);
                base.toi = toi.to_string();
                let mut d0 = base.clone();
                d0.exts = known.clone();
                v.push(d0);
                let mut d1 = base.clone();
                d1.exts = known.iter().rev().cloned().collect();
                v.push(d1);
                for u in &unknowns {
                    for pos in 0..=known.len() {
                        let mut d = base.clone();
                        let mut e = known.clone();
                        e.insert(pos, u.clone());
                        d.exts = e;
                        v.push(d);
                    }
                }
            }
        }
    }
    // (3) FTI boundary values decoded by flute (valid ones)
    let ls: Vec<u64> = vec![0, 1, 65536, (1 << 32) + 1, (1 << 40) - 1, 1 << 40, (1 << 48) - 1];
    for cp in CPS {
        for l in &ls {
            for layout in [false, true] {
                if cp != 1 && layout {
                    continue;
                }
                if (cp == 6 || (cp == 1 && !layout)) && *l >= (1 << 40) {
                    continue;
                }
                for e in [1u16, 4, 1424, 65532] {
                    for (b, parity) in match cp {
                        5 => vec![(1u32, 1u32), (200, 55), (255, 0)],
                        0 => vec![(1, 0), (65536, 0), (u32::MAX, 0)],
                        1 | 6 => vec![(1, 0)],
                        _ => vec![(1, 1), (60000, 5535), (65535, 0)],
                    } {
                        for (z, n, al) in [(1u32, 1u32, 1u8), (255, 255, 4), (3, 1, 2)] {
                            if !(cp == 1 || cp == 6) && z != 1 {
                                continue;
                            }
                            if (cp == 1 || cp == 6) && e % al as u16 != 0 {
                                continue;
                            }
                            let mut d = dec_base(cp);
                            d.exts = vec!["fti".into()];
                            d.l = *l;
                            d.raptor_rfc_layout = layout;
                            d.fti = OtiV { cp, e, b, parity, inst: if cp == 129 { 513 } else { 0 }, m: 8, g: 1, z, n, al, inband_fti: true };
                            v.push(d);
                        }
                    }
                }
            }
        }
    }
    // (4) payload ids and SCT values
    for cp in CPS {
        let (sb, eb): (u32, u32) = match cp {
            0 | 1 => (16, 16),
            5 | 2 => (24, 8),
            6 => (8, 24),
            _ => (32, 16),
        };
        let rng = |bits: u32| -> Vec<u32> {
            let max = if bits == 32 { u32::MAX } else { (1u32 << bits) - 1 };
            vec![0, 1, max / 2 + 1, max]
        };
        for sbn in rng(sb) {
            for esi in rng(eb) {
                for sbl in [0u32, 65535] {
                    let mut d = dec_base(cp);
                    d.exts = vec!["fti".into()];
                    d.sbn = sbn;
                    d.esi = esi;
                    d.sbl = sbl;
                    v.push(d);
                }
            }
        }
    }
    for s in [2_208_988_800u64, 2_208_988_800 + 946_684_800, 2_208_988_800 + EPOCH_2027, u32::MAX as u64] {
        for f in [0u32, 1, 4294, 0x7FFF_FFFF, 0xFFFF_FFFF] {
            for kind in ["time", "time-hi", "time-hi-ert", "time-hi-slc", "time-hi-ert-slc", "time-all"] {
                let mut d = dec_base(0);
                d.toi = "0".into();
                d.exts = vec!["fdt".into(), kind.into(), "fti".into()];
                d.sct_s = s as u32;
                d.sct_f = f;
                v.push(d);
            }
        }
    }
    // (5) walking ones through flute's parser (widest C/S/O/H layout so that every value fits)
    for cp in [0u8, 6, 129] {
        let wide = |cp: u8| {
            let mut d = dec_base(cp);
            d.c = 3;
            d.s = 1;
            d.o = 3;
            d.h = 1;
            d.exts = vec!["fti".into()];
            d
        };
        for bit in 0..128u32 {
            let mut d = wide(cp);
            d.cci = (1u128 << bit).to_string();
            v.push(d);
        }
        for bit in 0..48u32 {
            let mut d = wide(cp);
            d.tsi = 1u64 << bit;
            v.push(d);
        }
        for bit in 0..112u32 {
            let mut d = wide(cp);
            d.toi = (1u128 << bit).to_string();
            v.push(d);
        }
        for bit in 0..(if cp == 6 { 40u32 } else { 48 }) {
            let mut d = wide(cp);
            d.l = 1u64 << bit;
            v.push(d);
        }
        let (sb, eb): (u32, u32) = match cp {
            0 => (16, 16),
            6 => (8, 24),
            _ => (32, 16),
        };
        for bit in 0..sb {
            let mut d = wide(cp);
            d.sbn = 1u32 << bit;
            v.push(d);
        }
        for bit in 0..eb {
            let mut d = wide(cp);
            d.esi = 1u32 << bit;
            v.push(d);
        }
    }
    for bit in 0..20u32 {
        let mut d = dec_base(0);
        d.toi = "0".into();
        d.exts = vec!["fdt".into(), "fti".into()];
        d.fdt_id = 1 << bit;
        v.push(d);
    }
    for bit in 0..32u32 {
        for kind in ["time", "time-hi"] {
            let mut d = dec_base(0);
            d.toi = "0".into();
            d.exts = vec!["fdt".into(), kind.into(), "fti".into()];
            d.sct_s = (2_208_988_800u64 as u32) | (1u32 << bit);
            d.sct_f = 1u32 << bit;
            v.push(d);
        }
    }
    v
}

pub fn replay(v: &serde_json::Value) -> Vec<Violation> {
    if v["check"] == "close" {
        let cci: u128 = v["case"]["cci"].as_str().unwrap().parse().unwrap();
        let tsi = v["case"]["tsi"].as_u64().unwrap();
        return check_close_session(cci, tsi).into_iter().map(|(key, what)| Violation { key, what, case: v.clone() }).collect();
    }
    if v["check"] == "stream" {
        let c: StreamCase = serde_json::from_value(v["case"].clone()).expect("case");
        return check_stream(&c).into_iter().map(|(key, what)| Violation { key, what, case: v.clone() }).collect();
    }
    let r: Vec<(String, String)> = if v["check"] == "encode" {
        check_encode(&serde_json::from_value(v["case"].clone()).expect("case"))
    } else {
        check_decode(&serde_json::from_value(v["case"].clone()).expect("case")).into_iter().collect()
    };
    r.into_iter().map(|(key, what)| Violation { key, what, case: v.clone() }).collect()
}

/// the close-session packet the sender side builds: must carry A, the TSI and the CCI, and parse back
pub fn check_close_session(cci: u128, tsi: u64) -> Option<(String, String)> {
    let bytes = match catch(|| flute::verif::new_alc_pkt_close_session(&cci, tsi)) {
        Ok(b) => b,
        Err(p) => return Some((format!("C06/encode-panic/{}", panic_sig(&p)), format!("new_alc_pkt_close_session panicked: {}", p))),
    };
    let r = match rfc::decode(&bytes) {
        Ok(r) => r,
        Err(e) => return Some(("C06/close-session/undecodable".into(), format!("independent decoder rejects the close-session packet: {} ({})", e, hex(&bytes)))),
    };
    if !r.a || r.tsi != tsi || r.cci != cci || r.version != 1 {
        return Some(("C06/close-session/fields".into(), format!("close-session packet decodes to A={} tsi={} cci={} (built with tsi={} cci={})", r.a, r.tsi, r.cci, tsi, cci)));
    }
    let back = catch(|| flute::core::alc::parse_alc_pkt(&bytes).map(|p| (p.lct.close_session, p.lct.tsi, p.lct.cci, p.lct.toi)).map_err(|e| e.0.to_string()));
    match back {
        Err(p) => Some((format!("C06/roundtrip-panic/{}", panic_sig(&p)), format!("flute panicked parsing its own close-session packet: {}", p))),
        Ok(Err(e)) => Some(("C06/roundtrip/rejected/close-session".into(), format!("flute rejects the close-session packet it builds: {} ({})", e, hex(&bytes)))),
        Ok(Ok((a, t, c, toi))) => {
            if !a || t != tsi || c != cci || toi != 0 {
                Some(("C06/roundtrip/close-session".into(), format!("flute parsed its close-session packet as A={} tsi={} cci={} toi={}", a, t, c, toi)))
            } else {
                None
            }
        }
    }
}


// ------------------------------------------------------------------------------------------------
// Sender streams: every packet a real Sender emits for a short session (three publications, one
// object each) is decoded by the independent codec and by flute's own parser and compared with the
// session's configuration. Reaches fields that only the Sender fills in (FDT instance id across the
// 20-bit wrap and its version nibble, TSI/TOI of the session, SCT of the FDT).

#[derive(Serialize, Deserialize, Clone, Debug)]
pub struct StreamCase {
    pub scheme: crate::sess::Scheme,
    pub toi_bits: u8,
    pub tsi: u64,
    pub rfc3926: bool,
    pub start_id: u32,
    pub sct: bool,
    pub fdt_cenc: u8,
    pub full_fdt: bool,
}

pub fn check_stream(c: &StreamCase) -> Option<(String, String)> {
    use crate::sess::*;
    let r = catch(|| -> Option<(String, String)> {
        let (e, b, parity) = match c.scheme {
            Scheme::NoCode => (8u16, 3u16, 0u16),
            Scheme::Raptor => (4, 4, 1),
            _ => (8, 3, 1),
        };
        let mut s = SessSpec::basic(OtiSpec::new(Scheme::NoCode, 64, 8, 0, true));
        s.toi_bits = c.toi_bits;
        s.toi_init = Some(((1u128 << c.toi_bits.min(112)) - 2).to_string());
        s.tsi = c.tsi;
        s.rfc3926 = c.rfc3926;
        s.fdt_start_id = c.start_id;
        s.sct = c.sct;
        s.fdt_cenc = c.fdt_cenc;
        s.full_fdt = c.full_fdt;
        let mut sender = match s.sender() {
            Ok(x) => x,
            Err(e) => return Some(("C06/stream/harness".into(), e)),
        };
        let mut pkts: Vec<(SystemTime, Vec<u8>, usize)> = Vec::new();
        let mut tois: Vec<u128> = Vec::new();
        for k in 0..3usize {
            let now = time_rel(1500 * k as i64 + 123);
            let mut o = ObjSpec::simple(30 + k, 60 + k as u8);
            o.oti = Some(OtiSpec::new(c.scheme, e, b, parity, true));
            let desc = match o.desc(None) {
                Ok(d) => d,
                Err(e) => return Some(("C06/stream/harness".into(), e)),
            };
            match sender.add_object(0, desc) {
                Ok(t) => tois.push(t),
                Err(e) => return Some(("C06/stream/harness".into(), format!("add_object: {:?}", e.0.to_string()))),
            }
            if sender.publish(now).is_err() {
                return Some(("C06/stream/harness".into(), "publish failed".into()));
            }
            let mut out = Vec::new();
            drain(&mut sender, now, &mut out, 500);
            for (t, p) in out {
                pkts.push((t, p, k));
            }
        }
        let exp_v: u8 = if c.rfc3926 { 1 } else { 2 };
        let mut ids_seen: Vec<u32> = Vec::new();
        let mask = (1u128 << c.toi_bits.min(112)) - 1;
        for (i, (t, bytes, _k)) in pkts.iter().enumerate() {
            let r = match rfc::decode(bytes) {
                Ok(r) => r,
                Err(e) => return Some(("C06/stream/undecodable".into(), format!("packet #{} of the sender is rejected by the independent decoder: {} ({})", i, e, hex(&bytes[..bytes.len().min(48)])))),
            };
            let back = flute::core::alc::parse_alc_pkt(bytes).map(|p| (p.lct.tsi, p.lct.toi, p.lct.cp, p.lct.close_object, p.lct.close_session, p.fdt_info.as_ref().map(|f| (f.version, f.fdt_instance_id)), p.cenc.map(|x| x as u8), p.transfer_length)).map_err(|e| e.0.to_string());
            let back = match back {
                Ok(x) => x,
                Err(e) => return Some(("C06/stream/roundtrip-rejected".into(), format!("flute rejects packet #{} of its own sender: {}", i, e))),
            };
            let mine = (r.tsi, r.toi, r.cp, r.b, r.a, r.fdt().map(|(v, id)| (v as u32, id)), r.cenc(), r.fti(false).and_then(|f| f.ok()).map(|f| f.l));
            if back.0 != mine.0 || back.1 != mine.1 || back.2 != mine.2 || back.3 != mine.3 || back.4 != mine.4 || back.5 != mine.5 || back.6 != mine.6 || (mine.7.is_some() && back.7 != mine.7) {
                return Some(("C06/stream/decoders-disagree".into(), format!("packet #{}: flute parses (tsi, toi, cp, B, A, fdt, cenc, transfer length) = {:?}, the independent decoder {:?}", i, back, mine)));
            }
            if r.version != 1 || r.tsi != c.tsi || r.a {
                return Some(("C06/stream/lct-fields".into(), format!("packet #{}: LCT version {} tsi {} A {} in a session with tsi {}", i, r.version, r.tsi, r.a, c.tsi)));
            }
            if r.toi == 0 {
                let (v, id) = match r.fdt() {
                    Some(x) => x,
                    None => return Some(("C06/stream/fdt-without-ext-fdt".into(), format!("packet #{} has TOI 0 but no EXT_FDT", i))),
                };
                if v != exp_v {
                    return Some(("C06/stream/fdt-version".into(), format!("packet #{}: EXT_FDT version {} (instance id {}), the profile prescribes {}", i, v, id, exp_v)));
                }
                if ids_seen.last() != Some(&id) {
                    ids_seen.push(id);
                }
                if c.sct {
                    let us = t.duration_since(UNIX_EPOCH).unwrap().as_micros() as i128;
                    let got = r.sct().map(|(sec, frac)| (sec as i128 - 2_208_988_800i128).rem_euclid(1i128 << 32) * 1_000_000 + frac.map(|f| ((f as u128 * 1_000_000) >> 32) as i128).unwrap_or(0));
                    let want_mod = us.rem_euclid((1i128 << 32) * 1_000_000);
                    match got {
                        None => return Some(("C06/stream/fdt-sct-missing".into(), format!("FDT packet #{} carries no sender current time although fdt_inband_sct is set", i))),
                        Some(g) => {
                            let frac_known = r.sct().map(|x| x.1.is_some()).unwrap_or(false);
                            let tol = if frac_known { 1 } else { 1_000_000 };
                            if (g - want_mod).abs() > tol {
                                return Some(("C06/stream/fdt-sct".into(), format!("FDT packet #{}: sender current time {} us, sent at {} us", i, g, want_mod)));
                            }
                        }
                    }
                }
                if (c.fdt_cenc != 0 && r.cenc().is_none()) || r.cenc().map(|x| x != c.fdt_cenc).unwrap_or(false) {
                    return Some(("C06/stream/fdt-cenc".into(), format!("FDT packet #{}: EXT_CENC {:?}, configured FDT encoding {}", i, r.cenc(), c.fdt_cenc)));
                }
            } else {
                if r.fdt().is_some() {
                    return Some(("C06/stream/object-with-ext-fdt".into(), format!("packet #{} of TOI {} carries EXT_FDT", i, r.toi)));
                }
                if !tois.contains(&r.toi) || r.toi > mask {
                    return Some(("C06/stream/toi".into(), format!("packet #{} has TOI {} (allocated: {:?}, width {} bits)", i, r.toi, tois, c.toi_bits)));
                }
                if r.cp != c.scheme.cp() {
                    return Some(("C06/stream/codepoint".into(), format!("packet #{} of TOI {}: codepoint {} for scheme {:?}", i, r.toi, r.cp, c.scheme)));
                }
                let k = tois.iter().position(|t| *t == r.toi).unwrap();
                if let Some(f) = r.fti(false) {
                    match f {
                        Ok(f) => {
                            if f.l != 30 + k as u64 || f.e != e {
                                return Some(("C06/stream/object-fti".into(), format!("packet #{} of TOI {}: EXT_FTI says length {} E {}, object has {} / {}", i, r.toi, f.l, f.e, 30 + k, e)));
                            }
                        }
                        Err(e) => return Some(("C06/stream/object-fti".into(), format!("packet #{}: EXT_FTI undecodable: {}", i, e))),
                    }
                }
            }
        }
        let want: Vec<u32> = (0..3u32).map(|k| (c.start_id + k) & 0xFFFFF).collect();
        // ObjectsBeingTransferred publishes once more per started transfer: only the start is pinned then
        let ok = if c.full_fdt { ids_seen == want } else { ids_seen.first() == want.first() && ids_seen.windows(2).all(|w| w[1] == (w[0] + 1) & 0xFFFFF) };
        if !ok {
            return Some(("C06/stream/fdt-instance-ids".into(), format!("FDT instance ids on the wire {:?}, publications from fdt_start_id {} should give {:?}", ids_seen, c.start_id, want)));
        }
        None
    });
    match r {
        Ok(v) => v,
        Err(p) => Some((format!("C06/stream/panic/{}", panic_sig(&p)), format!("panic: {}", p))),
    }
}

pub fn stream_grid(thorough: bool) -> Vec<StreamCase> {
    let mut v = Vec::new();
    for scheme in crate::sess::ALL_SCHEMES {
        for toi_bits in [16u8, 32, 48, 64, 80, 112] {
            for tsi in [1u64, 0xFFFF, 0x1_0000, 0xFFFF_FFFF, 0x1_0000_0000, (1 << 48) - 1] {
                for rfc3926 in [false, true] {
                    for start_id in [0u32, 1, 0xFFFFD, 0xFFFFE, 0xFFFFF] {
                        for sct in [true, false] {
                            for fdt_cenc in [0u8, 1, 2, 3] {
                                for full_fdt in [true, false] {
                                    if !thorough && (toi_bits as u64 / 16 + tsi % 7 + start_id as u64 + fdt_cenc as u64 + sct as u64 + full_fdt as u64 + scheme as u64) % 4 != 0 {
                                        continue;
                                    }
                                    v.push(StreamCase { scheme, toi_bits, tsi, rfc3926, start_id, sct, fdt_cenc, full_fdt });
                                }
                            }
                        }
                    }
                }
            }
        }
    }
    v
}

pub fn run(thorough: bool) -> i32 {
    let mut rep = Report::new("C06", "exploration", if thorough { "thorough" } else { "quick" });
    for cb in [0u32, 4, 8, 12, 16] {
        for tb in [0u32, 2, 4, 6] {
            for cci in class_values(cb) {
                for tsi in class_values(tb) {
                    if let Some((k, w)) = check_close_session(cci, tsi as u64) {
                        rep.add(Violation { key: k, what: w, case: json!({"check": "close", "case": {"cci": cci.to_string(), "tsi": tsi as u64}}) });
                    }
                }
            }
        }
    }
    let enc = enc_grid(thorough);
    let dec = dec_grid(thorough);
    let eres = par_map(&enc, |_, c| check_encode(c));
    let dres = par_map(&dec, |_, c| check_decode(c));
    let mut widths = std::collections::BTreeSet::new();
    for (c, r) in enc.iter().zip(eres) {
        widths.insert((c.oti.cp, c.cci.len().min(3), c.tsi > 0xFFFF, c.toi.len()));
        for (k, w) in r {
            rep.add(Violation { key: k, what: w, case: json!({"check": "encode", "case": serde_json::to_value(c).unwrap()}) });
        }
    }
    let mut unk = 0u64;
    for (c, r) in dec.iter().zip(dres) {
        if c.exts.iter().any(|e| e.starts_with('u') || e.starts_with('x')) {
            unk += 1;
        }
        if let Some((k, w)) = r {
            rep.add(Violation { key: k, what: w, case: json!({"check": "decode", "case": serde_json::to_value(c).unwrap()}) });
        }
    }
    let streams = stream_grid(thorough);
    let sres = par_map(&streams, |_, c| check_stream(c));
    let mut wraps = 0u64;
    for (c, r) in streams.iter().zip(sres) {
        if c.start_id >= 0xFFFFE {
            wraps += 1;
        }
        if let Some((k, w)) = r {
            rep.add(Violation { key: k, what: w, case: json!({"check": "stream", "case": serde_json::to_value(c).unwrap()}) });
        }
    }
    rep.cov("sender_stream_sessions", streams.len() as u64);
    rep.guard("sender_streams_crossing_the_20_bit_instance_id_wrap", wraps);
    rep.cov("evaluations", (enc.len() + dec.len() + streams.len()) as u64);
    rep.cov("distinct_nontrivial", (enc.len() + dec.len() + streams.len()) as u64);
    rep.cov("rule", "encode direction: flute::new_alc_pkt on the full product of CCI/TSI/TOI width classes (min, max, pattern value per class) x close flag x 6 codepoints x 8 extension sets, plus per-scheme EXT_FTI boundary values, payload-id ranges and SCT/FDT-id/version/CENC values, every field decoded by the independent RFC codec and by flute itself; decode direction: packets from the independent RFC encoder over every (C,S,O,H) combination, flags, extension orders with unknown variable (HEL 1..200) and fixed extensions inserted at every position, FTI/payload-id/SCT boundary values, parsed by flute. Every grid point is a distinct packet; all are non-trivial (each exercises at least one field comparison).");
    rep.cov("exhaustive", true);
    rep.cov("encode_cases", enc.len() as u64);
    rep.cov("decode_cases", dec.len() as u64);
    rep.guard("distinct_width_class_combinations", widths.len() as u64);
    rep.guard("decode_cases_with_unknown_extensions", unk);
    rep.sample(serde_json::to_value(&enc[enc.len() / 3]).unwrap());
    rep.sample(serde_json::to_value(&dec[dec.len() / 2]).unwrap());
    rep.assume("rfc.rs is the harness author's reading of RFC 5651/5775/6726/5445/5510/6330/5053 (DESIGN.md appendix A); time compared with |delta| <= 1 us");
    rep.finish()
}
