//! C01 — clean channel: every accepted object arrives byte-exact, once, with its metadata.
//! Engine: exhaustive grids (E4) of real sender -> real receiver sessions.
use crate::monitor::*;
use crate::report::*;
use crate::rfc;
use crate::sess::*;
use crate::util::*;
use flute::receiver::writer::{ObjectCacheControl, ObjectWriterFSBuilder};
use flute::receiver::MultiReceiver;
use serde::{Deserialize, Serialize};
use serde_json::json;
use std::collections::BTreeMap;
use std::rc::Rc;
use std::time::{Duration, SystemTime};

#[derive(Serialize, Deserialize, Clone, Debug)]
pub struct Case {
    pub sess: SessSpec,
    pub objs: Vec<ObjSpec>,
    pub receive_once: bool,
    pub fs: bool,
    /// receiver configuration: 0 = flute's defaults; 1 = failed-object list of 3, session time-out 60 s, no
    /// object time-out, 1 MiB object cache, expiry check off; 2 = tiny failed-object list, 5 s object
    /// time-out, 64 KiB cache (a clean in-order channel must not notice any of it)
    #[serde(default)]
    pub rx_variant: u8,
    /// deliver through the single-session `Receiver::push_data` instead of `MultiReceiver::push`
    #[serde(default)]
    pub direct: bool,
    /// deliver into flute's own ObjectWriterBufferBuilder (its objects are inspected afterwards)
    #[serde(default)]
    pub buf: bool,
}

fn rx_config(case: &Case) -> flute::receiver::Config {
    let mut c = recv_config(case.receive_once);
    match case.rx_variant {
        1 => {
            c.max_objects_error = 3;
            c.session_timeout = Some(Duration::from_secs(60));
            c.object_timeout = None;
            c.object_max_cache_size = Some(1 << 20);
            c.enable_fdt_expiration_check = false;
        }
        2 => {
            c.max_objects_error = 1;
            c.object_timeout = Some(Duration::from_secs(5));
            c.object_max_cache_size = Some(64 * 1024);
        }
        _ => {}
    }
    c
}

#[derive(Default, Clone, Debug)]
pub struct Guards {
    pub unequal_blocks: u64,
    pub short_last_symbol: u64,
    pub concurrent_objects: u64,
    pub restart_sbn0: u64,
    pub refusal: u64,
    pub refused_other: u64,
    pub delivered_by_scheme: [u64; 5],
    pub delivered: u64,
    pub packets: u64,
    pub fs_files: u64,
}
impl Guards {
    fn add(&mut self, o: &Guards) {
        self.unequal_blocks += o.unequal_blocks;
        self.short_last_symbol += o.short_last_symbol;
        self.concurrent_objects += o.concurrent_objects;
        self.restart_sbn0 += o.restart_sbn0;
        self.refusal += o.refusal;
        self.refused_other += o.refused_other;
        for i in 0..5 {
            self.delivered_by_scheme[i] += o.delivered_by_scheme[i];
        }
        self.delivered += o.delivered;
        self.packets += o.packets;
        self.fs_files += o.fs_files;
    }
}

/// the most blocks the scheme's wire format (as flute documents it) can number
fn max_blocks(s: Scheme) -> u128 {
    match s {
        Scheme::NoCode => 65_535,
        Scheme::Rs28 => 255,
        Scheme::Rs28Us => u32::MAX as u128,
        Scheme::RaptorQ => 255,
        Scheme::Raptor => 65_535,
    }
}
fn max_len_field(s: Scheme) -> u128 {
    match s {
        Scheme::RaptorQ => (1u128 << 40) - 1,
        _ => (1u128 << 48) - 1,
    }
}
pub fn max_transfer_length(o: &OtiSpec) -> u128 {
    (o.e as u128 * o.b as u128 * max_blocks(o.scheme)).min(max_len_field(o.scheme))
}

fn class_of(case: &Case, o: &ObjSpec) -> String {
    let oti = o.oti.as_ref().unwrap_or(&case.sess.oti);
    let mut s = format!("{:?}", oti.scheme);
    if o.cenc != 0 {
        s.push_str("/cenc");
    }
    if o.len == 0 {
        s.push_str("/empty");
    }
    if oti.scheme != Scheme::NoCode && oti.parity == 0 {
        s.push_str("/parity0");
    }
    if case.fs {
        s.push_str("/fs");
    }
    s
}

static TMP_SEQ: std::sync::atomic::AtomicU64 = std::sync::atomic::AtomicU64::new(0);
pub fn fresh_tmp(tag: &str) -> std::path::PathBuf {
    let n = TMP_SEQ.fetch_add(1, std::sync::atomic::Ordering::Relaxed);
    let p = std::env::temp_dir().join(format!("fv-{}-{}-{}", tag, std::process::id(), n));
    std::fs::create_dir_all(&p).expect("tmpdir");
    p
}

pub fn expected_cache(c: &Option<Cache>, fdt_expires: SystemTime, publish_at: SystemTime) -> ObjectCacheControl {
    let floor_s = |t: SystemTime| {
        let d = t.duration_since(std::time::UNIX_EPOCH).unwrap();
        std::time::UNIX_EPOCH + Duration::from_secs(d.as_secs())
    };
    match c {
        None => ObjectCacheControl::ExpiresAtHint(fdt_expires),
        Some(Cache::NoCache) => ObjectCacheControl::NoCache,
        Some(Cache::MaxStale) => ObjectCacheControl::MaxStale,
        Some(Cache::ExpiresMs(ms)) => ObjectCacheControl::ExpiresAt(floor_s(publish_at + Duration::from_millis(*ms))),
        Some(Cache::ExpiresAtMs(ms)) => ObjectCacheControl::ExpiresAt(floor_s(at_ms(*ms))),
    }
}

pub fn run_case(case: &Case) -> (Vec<Violation>, Guards) {
    let mut g = Guards::default();
    let mut out = Vec::new();
    let cj = || json!({"check": "clean", "case": serde_json::to_value(case).unwrap()});
    let mut viol = |key: String, what: String| out.push(Violation { key, what, case: cj() });

    let needs_tmp = case.fs || case.objs.iter().any(|o| o.source == Source::File);
    let tmp = if needs_tmp { Some(fresh_tmp("c01")) } else { None };
    let res = catch(|| -> Result<(), (String, String)> {
        let mut sender = case.sess.sender().map_err(|e| ("C01/harness".to_string(), e))?;
        let now = t0();
        // toi -> (spec index, transfer_length)
        let mut accepted: Vec<(u128, usize, u64)> = Vec::new();
        for (i, o) in case.objs.iter().enumerate() {
            let desc = match o.desc(tmp.as_deref()) {
                Ok(d) => d,
                // a content encoding on a source that is read at send time (stream, file not cached in RAM) cannot
                // be honoured: refusing it when the object is created is the legitimate outcome (accepting it and
                // sending the bytes uncompressed under the announced encoding was a defect, fixed 557e5f9)
                Err(_) if o.source != Source::Buffer && o.cenc != 0 => {
                    g.refusal += 1;
                    continue;
                }
                Err(e) => return Err(("C01/harness-desc".to_string(), e)),
            };
            let tl = desc.transfer_length;
            let oti = o.oti.as_ref().unwrap_or(&case.sess.oti);
            let maxl = max_transfer_length(oti);
            match add_tallied(&mut sender, o.prio, desc, &case.sess.oti) {
                Ok(toi) => accepted.push((toi, i, tl)),
                Err(e) => {
                    // a refusal is always allowed by the property (the object is then not "accepted");
                    // acceptance per scheme is watched by the vacuity guards instead
                    let _ = e;
                    if (tl as u128) > maxl {
                        g.refusal += 1;
                    } else {
                        g.refused_other += 1;
                    }
                }
            }
            if accepted.last().map(|a| a.1) == Some(i) && (tl as u128) > maxl {
                return Err((
                    format!("C01/accepted-above-maximum/{}", class_of(case, o)),
                    format!("add_object accepted transfer length {} > scheme maximum {}", tl, maxl),
                ));
            }
        }
        if case.sess.full_fdt {
            sender.publish(now).map_err(|e| ("C01/publish-failed".to_string(), format!("{:?}", e.0.to_string())))?;
        }
        let mut pkts = Vec::new();
        let limit = 400_000;
        if !drain(&mut sender, now, &mut pkts, limit) {
            return Err(("C01/sender-not-quiescent".into(), format!("more than {} packets at one instant", limit)));
        }
        g.packets += pkts.len() as u64;
        // guards from the independent decode of the stream
        let mut last_toi: Option<u128> = None;
        let mut switches: BTreeMap<u128, u32> = BTreeMap::new();
        for (_, p) in &pkts {
            if let Ok(r) = rfc::decode(p) {
                if r.toi != 0 {
                    if last_toi.is_some() && last_toi != Some(r.toi) {
                        *switches.entry(r.toi).or_insert(0) += 1;
                    }
                    last_toi = Some(r.toi);
                }
            }
        }
        if switches.values().any(|v| *v >= 2) {
            g.concurrent_objects += 1;
        }
        for (_, i, tl) in &accepted {
            let o = &case.objs[*i];
            let oti = o.oti.as_ref().unwrap_or(&case.sess.oti);
            if let Some(p) = rfc::partition(oti.b as u128, *tl as u128, oti.e as u128) {
                if p.nb_large > 0 && p.a_large != p.a_small {
                    g.unequal_blocks += 1;
                }
            }
            if *tl % oti.e as u64 != 0 {
                g.short_last_symbol += 1;
            }
            if !case.receive_once && o.count > 1 {
                g.restart_sbn0 += 1;
            }
        }
        // delivery
        let fdt_expires = {
            let unix = now.duration_since(std::time::UNIX_EPOCH).unwrap().as_secs();
            std::time::UNIX_EPOCH + Duration::from_secs(unix + case.sess.fdt_duration_s)
        };
        if case.fs {
            let dest = tmp.as_ref().unwrap().join("dest");
            std::fs::create_dir_all(&dest).unwrap();
            let b = Rc::new(ObjectWriterFSBuilder::new(&dest, true).map_err(|e| ("C01/harness-fs".to_string(), format!("{:?}", e)))?);
            let mut rx = MultiReceiver::new(b, Some(rx_config(case)), false);
            for (t, p) in &pkts {
                if let Err(e) = rx.push(&endpoint(), p, *t) {
                    return Err((format!("C01/push-error/{:?}/fs", case.sess.oti.scheme), format!("push returned {:?}", e.0.to_string())));
                }
            }
            drop(rx);
            for (_toi, i, _) in &accepted {
                let o = &case.objs[*i];
                let u = url::Url::parse(&o.location).unwrap();
                let rel = u.path().trim_start_matches('/');
                let f = dest.join(rel);
                match std::fs::read(&f) {
                    Ok(d) if d == o.content() => g.fs_files += 1,
                    Ok(d) => {
                        return Err((
                            format!("C01/fs-content/{}", class_of(case, o)),
                            format!("file {:?} has {} bytes, expected {} (equal prefix {})", f, d.len(), o.len, d.iter().zip(o.content().iter()).take_while(|(a, b)| a == b).count()),
                        ))
                    }
                    Err(e) => return Err((format!("C01/fs-missing/{}", class_of(case, o)), format!("file {:?}: {}", f, e))),
                }
            }
            g.delivered += accepted.len() as u64;
            return Ok(());
        }
        if case.buf {
            let b = Rc::new(flute::receiver::writer::ObjectWriterBufferBuilder::new(true));
            let mut rx = MultiReceiver::new(b.clone(), Some(rx_config(case)), false);
            for (t, p) in &pkts {
                if let Err(e) = rx.push(&endpoint(), p, *t) {
                    return Err((format!("C01/push-error/{:?}/buffer-writer", case.sess.oti.scheme), format!("push returned {:?}", e.0.to_string())));
                }
            }
            drop(rx);
            let objs = b.objects.borrow();
            for (_toi, i, _) in &accepted {
                let o = &case.objs[*i];
                let loc = url::Url::parse(&o.location).unwrap().to_string();
                let mine: Vec<_> = objs.iter().filter(|x| x.borrow().meta.content_location == loc).collect();
                let good = mine.iter().filter(|x| { let x = x.borrow(); x.complete && !x.error && x.data == o.content() }).count();
                let want = if case.receive_once { 1 } else { o.count.max(1) as usize };
                let nocache_repeat = case.receive_once && o.count > 1 && o.cache == Some(Cache::NoCache);
                if nocache_repeat && good == mine.len() && good >= 1 && good <= o.count as usize {
                    continue;
                }
                if good != want || mine.len() != want {
                    // the known finding of the monitoring-writer path (DESIGN section 9), seen through this writer
                    let obt_repeat = !case.sess.full_fdt && case.receive_once && o.count > 1 && case.objs.len() > 1 && mine.len() > want && good == mine.len();
                    return Err((
                        if obt_repeat { "C01/writer-count/obt-mode-repeated-transfer-after-other-object".to_string() } else { format!("C01/buffer-writer/{}", class_of(case, o)) },
                        format!("flute's ObjectWriterBuffer holds {} object(s) for {} of which {} complete, error-free and byte-exact; expected {}", mine.len(), loc, good, want),
                    ));
                }
            }
            g.delivered += accepted.len() as u64;
            return Ok(());
        }
        let mon = Mon::new(true);
        let (results, panic) = if case.direct { deliver_direct(&mon, rx_config(case), if case.sess.tsi == 0 { TSI } else { case.sess.tsi }, &pkts) } else { deliver(&mon, rx_config(case), &pkts) };
        if let Some(p) = panic {
            return Err((format!("C01/panic/{}", panic_sig(&p)), format!("receiver panicked: {}", p)));
        }
        if let Some((i, Err(e))) = results.iter().enumerate().find(|(_, r)| r.is_err()) {
            return Err((
                format!("C01/push-error/{:?}", case.sess.oti.scheme),
                format!("push of clean packet #{} returned Err {}", i, e),
            ));
        }
        let writers = mon.writers();
        for (toi, i, tl) in &accepted {
            let o = &case.objs[*i];
            let cls = class_of(case, o);
            let ws: Vec<&WriterLog> = writers.iter().filter(|w| w.toi == *toi).collect();
            let content = o.content();
            let expect_n: usize = if case.receive_once { 1 } else { o.count as usize };
            let nocache_repeat = case.receive_once && o.count > 1 && o.cache == Some(Cache::NoCache);
            let n_ok = if nocache_repeat { ws.len() >= 1 && ws.len() <= o.count as usize } else { ws.len() == expect_n };
            if !n_ok {
                let obt_repeat = !case.sess.full_fdt && case.receive_once && o.count > 1 && case.objs.len() > 1 && ws.len() > expect_n && ws.iter().all(|w| w.is_complete() && w.data() == content);
                return Err((
                    if obt_repeat { "C01/writer-count/obt-mode-repeated-transfer-after-other-object".to_string() } else { format!("C01/writer-count/{}", cls) },
                    format!("toi {} len {}: {} writer(s) opened, expected {} [{}]", toi, o.len, ws.len(), expect_n, ws.iter().map(|w| w.short()).collect::<Vec<_>>().join(" | ")),
                ));
            }
            for w in &ws {
                if !w.is_complete() {
                    return Err((
                        format!("C01/not-complete/{}", cls),
                        format!("toi {} len {} tl {}: writer log [{}] has no complete", toi, o.len, tl, w.short()),
                    ));
                }
                let d = w.data();
                if d != content {
                    let eq = d.iter().zip(content.iter()).take_while(|(a, b)| a == b).count();
                    return Err((
                        format!("C01/bytes-differ/{}", cls),
                        format!("toi {} len {}: delivered {} bytes, first difference at {}", toi, o.len, d.len(), eq),
                    ));
                }
                // metadata
                let m = &w.meta;
                let exp_loc = url::Url::parse(&o.location).unwrap().to_string();
                let mut bad: Vec<String> = Vec::new();
                if m.content_location != exp_loc {
                    bad.push(format!("content_location {:?} != {:?}", m.content_location, exp_loc));
                }
                if m.content_type.as_deref() != Some(o.ctype.as_str()) {
                    bad.push(format!("content_type {:?} != {:?}", m.content_type, o.ctype));
                }
                if m.content_length != Some(o.len) {
                    bad.push(format!("content_length {:?} != {}", m.content_length, o.len));
                }
                if m.transfer_length != Some(*tl as usize) {
                    bad.push(format!("transfer_length {:?} != {}", m.transfer_length, tl));
                }
                let exp_md5 = if o.md5 { Some(md5_b64(&content)) } else { None };
                if m.md5 != exp_md5 {
                    bad.push(format!("md5 {:?} != {:?}", m.md5, exp_md5));
                }
                let mut eg: Vec<String> = case.sess.groups.clone().unwrap_or_default();
                eg.extend(o.groups.clone().unwrap_or_default());
                let exp_groups = if eg.is_empty() { None } else { Some(eg) };
                if m.groups != exp_groups {
                    bad.push(format!("groups {:?} != {:?}", m.groups, exp_groups));
                }
                if m.e_tag != o.etag {
                    bad.push(format!("e_tag {:?} != {:?}", m.e_tag, o.etag));
                }
                let exp_cc = expected_cache(&o.cache, fdt_expires, now);
                if m.cache_control != exp_cc {
                    bad.push(format!("cache_control {:?} != {:?}", m.cache_control, exp_cc));
                }
                if let Some(b) = bad.first() {
                    let field = b.split(' ').next().unwrap_or("?");
                    return Err((format!("C01/metadata/{}", field), format!("toi {}: {}", toi, bad.join("; "))));
                }
            }
            g.delivered += 1;
            let sch = o.oti.as_ref().unwrap_or(&case.sess.oti).scheme;
            g.delivered_by_scheme[ALL_SCHEMES.iter().position(|x| *x == sch).unwrap()] += 1;
        }
        // no writer for an unknown TOI
        for w in &writers {
            if !accepted.iter().any(|(t, _, _)| *t == w.toi) {
                return Err(("C01/unknown-toi-writer".into(), format!("writer opened for toi {} which was never accepted", w.toi)));
            }
        }
        Ok(())
    });
    match res {
        Ok(Ok(())) => {}
        Ok(Err((k, w))) => viol(k, w),
        Err(p) => viol(format!("C01/panic/{}", panic_sig(&p)), format!("panic: {}", p)),
    }
    if let Some(t) = tmp {
        std::fs::remove_dir_all(t).ok();
    }
    (out, g)
}

pub fn replay(v: &serde_json::Value) -> Vec<Violation> {
    if v["check"] == "defaults" {
        let a = format!("{:?}", flute::sender::TransferConfig::builder().build());
        let b = format!("{:?}", flute::sender::TransferConfig::default());
        return if a != b { vec![Violation { key: "C01/transfer-config-builder-default-differs".into(), what: format!("{} vs {}", a, b), case: v.clone() }] } else { vec![] };
    }
    let case: Case = serde_json::from_value(v["case"].clone()).expect("case");
    run_case(&case).0
}

fn ebs(scheme: Scheme, thorough: bool) -> Vec<(u16, u16)> {
    let mut v = vec![(1, 1), (2, 1), (3, 2), (4, 2), (4, 3), (8, 4)];
    if scheme == Scheme::Raptor {
        // Raptor needs >= 4 symbols per block: most of the tiny grid is (rightly) refused for it
        v.extend([(1, 4), (2, 5), (3, 8), (4, 7)]);
    }
    if thorough {
        v.extend([(5, 3), (16, 2), (2, 9), (7, 5), (16, 4), (1, 7), (32, 2), (3, 5), (6, 6), (64, 3), (9, 2)]);
    }
    v
}

fn core_grid(thorough: bool) -> Vec<Case> {
    let mut v = Vec::new();
    for scheme in ALL_SCHEMES {
        for (e, b) in ebs(scheme, thorough) {
            let parities: Vec<u16> = if scheme == Scheme::NoCode {
                vec![0]
            } else if thorough {
                vec![0, 1, 2, 3, 4]
            } else {
                vec![1, 2, 3]
            };
            for parity in parities {
                let lmax = (if thorough { 7 } else { 3 }) * e as usize * b as usize + 2;
                for len in 0..=lmax {
                    let cencs: Vec<u8> = if thorough { vec![0, 1, 2, 3] } else if len % 3 == 0 { vec![0, 3, 1] } else { vec![0, 2] };
                    for cenc in cencs {
                        for inband_cenc in [true, false] {
                            for inband_fti in [true, false] {
                                if !thorough && inband_cenc != inband_fti && len % 2 == 1 {
                                    continue;
                                }
                                let oti = OtiSpec::new(scheme, e, b, parity, inband_fti);
                                let mut o = ObjSpec::simple(len, 1);
                                o.cenc = cenc;
                                o.text = cenc != 0;
                                o.inband_cenc = inband_cenc;
                                o.oti = Some(oti.clone());
                                // a third of the grid without Content-MD5: nothing but the receiver's own
                                // bookkeeping then stands between a mis-ordered block and "complete"
                                o.md5 = (len + e as usize + parity as usize) % 3 != 0;
                                let mut s = SessSpec::basic(OtiSpec::new(Scheme::NoCode, 1424, 64, 0, true));
                                // default OTI of the session = the object's scheme half of the time (FDT itself under that scheme)
                                if len % 2 == 0 && e >= 4 {
                                    s.oti = OtiSpec::new(scheme, 64, 8, parity.max(if scheme == Scheme::NoCode { 0 } else { 1 }), true);
                                }
                                v.push(Case { sess: s, objs: vec![o], receive_once: true, fs: false, rx_variant: 0, direct: false, buf: false });
                            }
                        }
                    }
                }
            }
        }
        // Raptor / RaptorQ scheme-specific parameters: symbol alignment Al and number of sub-blocks N
        // (16 bits for RaptorQ, 8 for Raptor), signalled in-band and through the FDT attribute
        if scheme == Scheme::RaptorQ || scheme == Scheme::Raptor {
            let b: u16 = if scheme == Scheme::Raptor { 4 } else { 2 };
            for (e, al, n) in [(8u16, 1u8, 2u16), (8, 4, 2), (64, 8, 8), (1400, 4, 255), (1400, 4, 256), (1400, 4, 257), (1400, 4, 300), (1400, 4, 350)] {
                if scheme == Scheme::Raptor && n > 255 {
                    continue;
                }
                for len in [e as usize * b as usize - 1, e as usize * b as usize, 2 * e as usize * b as usize + 3] {
                    for inband_fti in [true, false] {
                        for md5 in [true, false] {
                            let mut oti = OtiSpec::new(scheme, e, b, 1, inband_fti);
                            oti.al = al;
                            oti.n = n;
                            let mut o = ObjSpec::simple(len, 9);
                            o.oti = Some(oti);
                            o.md5 = md5;
                            let s = SessSpec::basic(OtiSpec::new(Scheme::NoCode, 1424, 64, 0, true));
                            v.push(Case { sess: s, objs: vec![o], receive_once: true, fs: false, rx_variant: 0, direct: false, buf: false });
                        }
                    }
                }
            }
        }
        // Reed-Solomon at the limits of GF(2^8): B + parity = 255, and above (must be refused or work)
        if scheme == Scheme::Rs28 || scheme == Scheme::Rs28Us {
            for (b, parity, len) in [(254u16, 1u16, 254usize), (254, 1, 300), (200, 55, 401), (128, 127, 129), (255, 0, 255), (255, 1, 255), (300, 1, 300), (250, 10, 251)] {
                if scheme == Scheme::Rs28 && b + parity > 255 {
                    continue; // Oti::new_reed_solomon_rs28 refuses it at construction
                }
                for inband_fti in [true, false] {
                    let mut o = ObjSpec::simple(len, 5);
                    o.oti = Some(OtiSpec::new(scheme, 1, b, parity, inband_fti));
                    let s = SessSpec::basic(OtiSpec::new(Scheme::NoCode, 1424, 64, 0, true));
                    v.push(Case { sess: s, objs: vec![o], receive_once: true, fs: false, rx_variant: 0, direct: false, buf: false });
                }
            }
        }
        // objects that INHERIT the session's OTI (no TransferConfig::oti): the FDT then has to describe the FEC
        // parameters at instance level (or per File, for the schemes whose parameters depend on the object)
        {
            let (e, b, parity) = match scheme {
                Scheme::NoCode => (16u16, 3u16, 0u16),
                Scheme::Raptor => (16, 64, 1), // (blocks of 2-3 symbols are refused, for the FDT instance too)
                _ => (16, 3, 2),
            };
            for inband_fti in [true, false] {
                for nobj in [1usize, 2] {
                    for full_fdt in [true, false] {
                        let mut s = SessSpec::basic(OtiSpec::new(scheme, e, b, parity, inband_fti));
                        s.full_fdt = full_fdt;
                        let mut objs = Vec::new();
                        for j in 0..nobj {
                            let mut o = ObjSpec::simple(if scheme == Scheme::Raptor { 64 * (j + 1) + 128 } else { 40 + 57 * j }, 70 + j as u8);
                            o.oti = None;
                            o.md5 = j == 0;
                            o.location = format!("file:///inherit/obj{}.bin", j);
                            objs.push(o);
                        }
                        v.push(Case { sess: s, objs, receive_once: true, fs: false, rx_variant: 0, direct: false, buf: false });
                    }
                }
            }
        }
        // many source blocks (the SBN field is 8, 16, 24 or 32 bits wide depending on the scheme)
        {
            let (e, b, len) = match scheme {
                Scheme::Raptor => (1u16, 4u16, 1100usize),
                Scheme::RaptorQ => (1, 1, 255),
                _ => (1, 1, 300),
            };
            for inband_fti in [true, false] {
                let mut o = ObjSpec::simple(len, 3);
                o.oti = Some(OtiSpec::new(scheme, e, b, if scheme == Scheme::NoCode { 0 } else { 1 }, inband_fti));
                let s = SessSpec::basic(OtiSpec::new(Scheme::NoCode, 1424, 64, 0, true));
                v.push(Case { sess: s, objs: vec![o], receive_once: true, fs: false, rx_variant: 0, direct: false, buf: false });
            }
        }
        // very compressible content (zero-filled, compression ratio in the thousands), every content encoding, with and
        // without MD5, delivered to the monitoring writer and to flute's own buffer writer
        if scheme == Scheme::NoCode || scheme == Scheme::Rs28 {
            for cenc in 1..=3u8 {
                for md5 in [true, false] {
                    let mut o = ObjSpec::simple(300_000, 5);
                    o.oti = Some(OtiSpec::new(scheme, 256, 8, if scheme == Scheme::NoCode { 0 } else { 2 }, true));
                    o.cenc = cenc;
                    o.sparse = true;
                    o.md5 = md5;
                    let s = SessSpec::basic(OtiSpec::new(Scheme::NoCode, 1424, 64, 0, true));
                    v.push(Case { sess: s, objs: vec![o], receive_once: true, fs: false, rx_variant: 0, direct: false, buf: cenc == 2 });
                }
            }
        }
        // around the scheme's maximum transfer length, smallest (E, B)
        let (e, b) = if scheme == Scheme::Raptor { (1u16, 4u16) } else { (1u16, 1u16) };
        let oti = OtiSpec::new(scheme, e, b, if scheme == Scheme::NoCode { 0 } else { 1 }, true);
        let maxl = max_transfer_length(&oti);
        if maxl <= 70_000 || (thorough && maxl <= 300_000) {
            for len in [maxl - 1, maxl, maxl + 1] {
                let mut o = ObjSpec::simple(len as usize, 2);
                o.oti = Some(oti.clone());
                let s = SessSpec::basic(OtiSpec::new(Scheme::NoCode, 1424, 64, 0, true));
                v.push(Case { sess: s, objs: vec![o], receive_once: true, fs: false, rx_variant: 0, direct: false, buf: false });
            }
        }
    }
    v
}

fn session_grid(thorough: bool) -> Vec<Case> {
    let mut v = Vec::new();
    // a refused object (one byte above the scheme maximum, or Reed-Solomon without parity) between two
    // accepted ones: the refusal must leave nothing behind
    for (scheme, e, b) in [(Scheme::RaptorQ, 1u16, 1u16), (Scheme::Rs28, 4, 2)] {
        for full_fdt in [true, false] {
            let mut s = SessSpec::basic(OtiSpec::new(Scheme::NoCode, 1424, 64, 0, true));
            s.full_fdt = full_fdt;
            let mut objs = Vec::new();
            for j in 0..3usize {
                let mut oti = OtiSpec::new(scheme, e, b, 1, j % 2 == 0);
                let mut len = 7 + j;
                if j == 1 {
                    if scheme == Scheme::RaptorQ {
                        len = max_transfer_length(&oti) as usize + 1;
                    } else {
                        oti.parity = 0;
                    }
                }
                let mut o = ObjSpec::simple(len, 60 + j as u8);
                o.oti = Some(oti);
                o.location = format!("file:///refused/obj{}.bin", j);
                objs.push(o);
            }
            v.push(Case { sess: s, objs, receive_once: true, fs: false, rx_variant: 0, direct: false, buf: false });
        }
    }
    // flute's own default sender configuration, untouched
    for nobj in [1usize, 2, 5] {
        let mut s = SessSpec::basic(OtiSpec::new(Scheme::NoCode, 1424, 64, 0, true));
        s.default_config = true;
        let mut objs = Vec::new();
        for j in 0..nobj {
            let mut o = ObjSpec::simple(30 + 9 * j, 80 + j as u8);
            o.oti = if j % 2 == 0 { None } else { Some(pt_of(ALL_SCHEMES[j % 5])) };
            o.location = format!("file:///default/obj{}.bin", j);
            objs.push(o);
        }
        v.push(Case { sess: s, objs, receive_once: true, fs: false, rx_variant: 0, direct: false, buf: false });
    }
    // long sessions: 40 objects (more than the 10 FDT instances the receiver keeps, more than any list it
    // trims), each transferred twice, full FDT: exactly one copy each with receive-once
    for (multiplex, nq, interleave) in [(3u32, 1usize, 1u8), (1, 2, 2), (0, 1, 3)] {
        for once in [true, false] {
            let mut s = SessSpec::basic(OtiSpec::new(Scheme::NoCode, 1424, 64, 0, true));
            s.interleave = interleave;
            s.queues = (0..nq).map(|q| (q as u32, multiplex)).collect();
            let mut objs = Vec::new();
            for j in 0..40usize {
                let mut o = ObjSpec::simple(5 + (j % 7), 100 + j as u8);
                o.oti = Some(pt_of(ALL_SCHEMES[j % 4]));
                o.prio = (j % nq) as u32;
                o.count = 2;
                o.location = format!("file:///long/obj{}.bin", j);
                objs.push(o);
            }
            v.push(Case { sess: s, objs, receive_once: once, fs: false, rx_variant: if once { 0 } else { 1 }, direct: false, buf: false });
        }
    }
    let points: Vec<(OtiSpec, usize)> = vec![
        (OtiSpec::new(Scheme::NoCode, 3, 2, 0, true), 14),
        (OtiSpec::new(Scheme::Rs28, 4, 2, 2, true), 19),
        (OtiSpec::new(Scheme::RaptorQ, 4, 3, 1, true), 26),
    ];
    let points = if thorough { points } else { points[..2].to_vec() };
    for (pi, (oti, len)) in points.iter().enumerate() {
        for full_fdt in [true, false] {
            for interleave in [1u8, 2, 3] {
                for multiplex in [0u32, 1, 3] {
                    for nobj in 1..=3usize {
                        for nq in 1..=2usize {
                            if nq > nobj {
                                continue;
                            }
                            for count in [1u32, 2] {
                                for once in [true, false] {
                                    for (si, source) in [Source::Buffer, Source::Stream(0), Source::File].iter().enumerate() {
                                        for fs in [false, true] {
                                            for fdt_cenc in [0u8, 3] {
                                                if !thorough {
                                                    // quick: a covering subset (every value of every axis, most pairs)
                                                    let k = interleave as usize + multiplex as usize + nobj + nq + count as usize + once as usize + si + fs as usize + (fdt_cenc as usize) + pi + full_fdt as usize;
                                                    if k % 3 != 0 {
                                                        continue;
                                                    }
                                                }
                                                let mut s = SessSpec::basic(OtiSpec::new(Scheme::NoCode, 1424, 64, 0, true));
                                                s.full_fdt = full_fdt;
                                                s.interleave = interleave;
                                                s.queues = (0..nq).map(|q| (q as u32, multiplex)).collect();
                                                s.fdt_cenc = fdt_cenc;
                                                s.groups = if nobj == 2 { Some(vec!["sg".into()]) } else { None };
                                                let mut objs = Vec::new();
                                                for j in 0..nobj {
                                                    // the third object of a three-object session is EMPTY (every writer kind, source kind and
                                                    // content encoding meets an empty object)
                                                    let mut o = ObjSpec::simple(if nobj == 3 && j == 2 { 0 } else { len + j }, 10 + j as u8);
                                                    o.oti = Some(oti.clone());
                                                    o.prio = (j % nq) as u32;
                                                    o.count = count;
                                                    o.source = *source;
                                                    o.location = format!("file:///dir{}/obj{}.bin", j, j);
                                                    o.md5 = (j + interleave as usize) % 2 == 0;
                                                    o.etag = if j == 1 { Some("etag-1".into()) } else { None };
                                                    o.groups = if j == 0 { Some(vec!["g0".into(), "g1".into()]) } else { None };
                                                    o.cache = match j {
                                                        0 => None,
                                                        1 => Some(Cache::MaxStale),
                                                        _ => Some(Cache::ExpiresMs(90_000)),
                                                    };
                                                    // stream / file sources with a content encoding: refused at creation, or delivered
                                                    o.cenc = if *source != Source::Buffer && j != 1 { 0 } else { [0u8, 3, 1, 2][(j + si) % 4] };
                                                    o.text = o.cenc != 0;
                                                    objs.push(o);
                                                }
                                                let rx_variant = (v.len() % 3) as u8;
                                                let direct = !fs && v.len() % 4 == 1;
                                                let buf = !fs && !direct && v.len() % 4 == 3;
                                                v.push(Case { sess: s, objs, receive_once: once, fs, rx_variant, direct, buf });
                                            }
                                        }
                                    }
                                }
                            }
                        }
                    }
                }
            }
        }
    }
    // metadata variety (cache directives, no md5, no-cache with one transfer)
    for (j, cache) in [None, Some(Cache::NoCache), Some(Cache::MaxStale), Some(Cache::ExpiresMs(1500)), Some(Cache::ExpiresAtMs(7_200_000))].into_iter().enumerate() {
        for md5 in [true, false] {
            let mut o = ObjSpec::simple(9, j as u8);
            o.oti = Some(OtiSpec::new(Scheme::NoCode, 4, 2, 0, j % 2 == 0));
            o.cache = cache.clone();
            o.md5 = md5;
            o.ctype = "text/plain; charset=utf-8".into();
            o.etag = Some(format!("\"v{}\"", j));
            let s = SessSpec::basic(OtiSpec::new(Scheme::NoCode, 1424, 64, 0, true));
            v.push(Case { sess: s, objs: vec![o], receive_once: true, fs: false, rx_variant: 0, direct: false, buf: false });
        }
    }
    v
}

/// sessions mixing schemes, content encodings, TOI widths (incl. wrap of a 16-bit space and 112-bit
fn pt_of(s: Scheme) -> OtiSpec {
    match s {
        Scheme::NoCode => OtiSpec::new(s, 3, 2, 0, true),
        Scheme::Raptor => OtiSpec::new(s, 2, 4, 1, true),
        _ => OtiSpec::new(s, 4, 2, 1, true),
    }
}

/// values), profiles and multi-transfer objects
fn mixed_grid(thorough: bool) -> Vec<Case> {
    let mut v = Vec::new();
    // full product of TOI width classes x TSI width classes (the LCT half-word flag is shared by both
    // fields): three objects so that the TOI also steps across a class boundary or wraps inside a session
    for (bits, init) in [
        (112u8, 1u128),
        (112, 0xFFFE),
        (16, 0xFFFE),
        (112, 0x1_0000),
        (32, 0xFFFF_FFFE),
        (112, 0xFFFF_FFFE),
        (48, (1 << 48) - 2),
        (112, (1 << 48) - 2),
        (64, u64::MAX as u128 - 1),
        (112, u64::MAX as u128 - 1),
        (80, (1 << 80) - 2),
        (112, (1 << 80) - 2),
        (112, (1 << 96) - 2),
        (112, (1 << 112) - 2),
    ] {
        for tsi in [1u64, 0xFFFF, 0x1_0000, 0xFFFF_FFFF, 0x1_0000_0000, (1 << 48) - 1] {
            for full_fdt in [true, false] {
                let mut s = SessSpec::basic(OtiSpec::new(Scheme::NoCode, 1424, 64, 0, true));
                s.toi_bits = bits;
                s.toi_init = Some(init.to_string());
                s.tsi = tsi;
                s.full_fdt = full_fdt;
                let mut objs = Vec::new();
                for (j, sch) in [Scheme::NoCode, Scheme::Rs28, Scheme::NoCode].into_iter().enumerate() {
                    let mut o = ObjSpec::simple(9 + 4 * j, 40 + j as u8);
                    let mut oti = pt_of(sch);
                    oti.inband_fti = j % 2 == 0;
                    o.oti = Some(oti);
                    o.location = format!("file:///widths/o{}", j);
                    objs.push(o);
                }
                let rx_variant = (v.len() % 3) as u8;
                let direct = v.len() % 4 == 2;
                                v.push(Case { sess: s, objs, receive_once: true, fs: false, rx_variant, direct, buf: !direct && v.len() % 4 == 0 });
            }
        }
    }
    let pt = |s: Scheme| -> OtiSpec {
        match s {
            Scheme::NoCode => OtiSpec::new(s, 3, 2, 0, true),
            Scheme::Raptor => OtiSpec::new(s, 2, 4, 1, true),
            _ => OtiSpec::new(s, 4, 2, 1, true),
        }
    };
    for a in ALL_SCHEMES {
        for b in ALL_SCHEMES {
            for c in ALL_SCHEMES {
                if !thorough && (a as usize + 2 * b as usize + 3 * c as usize) % 4 != 0 {
                    continue;
                }
                for interleave in [1u8, 2] {
                    for multiplex in [1u32, 3] {
                        for (ti, (bits, init)) in [(112u8, "1".to_string()), (16, "65535".to_string()), (112, ((1u128 << 112) - 2).to_string()), (48, "281474976710655".to_string())].into_iter().enumerate() {
                            for full_fdt in [true, false] {
                                let mut s = SessSpec::basic(OtiSpec::new(Scheme::NoCode, 1424, 64, 0, true));
                                s.interleave = interleave;
                                s.queues = vec![(0, multiplex)];
                                s.toi_bits = bits;
                                s.toi_init = Some(init.clone());
                                s.full_fdt = full_fdt;
                                s.rfc3926 = ti == 1;
                                s.tsi = [1u64, 0xFFFF, 0x1_0000, 0xFFFF_FFFF_FFFF][ti];
                                s.sct = ti != 2;
                                let mut objs = Vec::new();
                                for (j, sch) in [a, b, c].into_iter().enumerate() {
                                    let mut o = ObjSpec::simple(17 + 5 * j, 30 + j as u8);
                                    let mut oti = pt(sch);
                                    oti.inband_fti = (j + ti) % 2 == 0;
                                    o.oti = Some(oti);
                                    o.cenc = [0u8, 3, 1][(j + ti) % 3];
                                    o.text = o.cenc != 0;
                                    o.inband_cenc = j % 2 == 0;
                                    o.count = if full_fdt { 1 + (j as u32 % 2) } else { 1 };
                                    o.location = format!("file:///mixed/{}/o{}", ti, j);
                                    objs.push(o);
                                }
                                let rx_variant = (v.len() % 3) as u8;
                                let direct = v.len() % 4 == 2;
                                v.push(Case { sess: s, objs, receive_once: true, fs: false, rx_variant, direct, buf: !direct && v.len() % 4 == 0 });
                            }
                        }
                    }
                }
            }
        }
    }
    v
}

pub fn run(thorough: bool) -> i32 {
    let mut rep = Report::new("C01", "exploration", if thorough { "thorough" } else { "quick" });
    // the two ways of obtaining a default TransferConfig (typed builder, Default) must agree: the harness
    // fills the struct literally, applications mostly use the builder
    {
        let a = format!("{:?}", flute::sender::TransferConfig::builder().build());
        let b = format!("{:?}", flute::sender::TransferConfig::default());
        if a != b {
            rep.add(Violation { key: "C01/transfer-config-builder-default-differs".into(), what: format!("TransferConfig::builder().build() = {} but TransferConfig::default() = {}", a, b), case: json!({"check": "defaults", "case": {}}) });
        }
    }
    let mut cases = core_grid(thorough);
    let ncore = cases.len();
    cases.extend(session_grid(thorough));
    cases.extend(mixed_grid(thorough));
    let nsess = cases.len() - ncore;
    let cases = std::sync::Arc::new(cases);
    let results = par_map_wd(
        cases.clone(),
        Duration::from_secs(20),
        |_, c| run_case(c),
        |_, c| {
            let o = &c.objs[0];
            (
                vec![Violation {
                    key: format!("C01/hang/{}", class_of(c, o)),
                    what: "session did not finish within 20 s (sender or receiver loops forever)".into(),
                    case: json!({"check": "clean", "case": serde_json::to_value(c).unwrap()}),
                }],
                Guards::default(),
            )
        },
    );
    let mut g = Guards::default();
    let mut distinct = std::collections::HashSet::new();
    for (c, (v, gg)) in cases.iter().zip(results) {
        g.add(&gg);
        if gg.packets > 1 {
            distinct.insert(h64(&serde_json::to_string(c).unwrap()));
        }
        rep.add_all(v);
    }
    rep.cov("evaluations", cases.len() as u64);
    rep.cov("distinct_nontrivial", distinct.len() as u64);
    rep.cov("rule", "two exhaustive grids of real sender->receiver sessions: core grid = scheme x (E,B) x parity x every L in 0..=3EB+2 x cenc x inband_cenc x inband_fti (+ max-1/max/max+1 lengths per scheme at E=B=1); session grid = FDT mode x interleave x multiplex x 1..3 objects over 1..2 queues x transfer count x receive-once x source kind x writer kind x FDT cenc; mixed grid = every ordered triple of schemes in one session x interleave x multiplex x TOI width/initial value (16-bit wrap, 48-bit, 112-bit maximum) x publish mode, with mixed cenc and signalling, both profiles. A case is non-trivial when the sender emitted more than one packet; distinct by serialised case.");
    rep.cov("exhaustive", true);
    rep.cov("core_grid_cases", ncore as u64);
    rep.cov("session_grid_cases", nsess as u64);
    rep.cov("packets_delivered", g.packets);
    rep.cov("objects_delivered", g.delivered);
    rep.cov("fs_files_verified", g.fs_files);
    rep.guard("unequal_block_sizes", g.unequal_blocks);
    rep.guard("short_last_symbol", g.short_last_symbol);
    rep.guard("concurrent_objects_in_flight", g.concurrent_objects);
    rep.guard("restart_on_sbn0_esi0", g.restart_sbn0);
    rep.guard("refusal_above_maximum", g.refusal);
    rep.cov("refused_for_other_reasons", g.refused_other);
    for (i, sch) in ALL_SCHEMES.iter().enumerate() {
        rep.guard(&format!("delivered_{:?}", sch), g.delivered_by_scheme[i]);
    }
    rep.sample(serde_json::to_value(&cases[ncore / 2]).unwrap());
    rep.sample(serde_json::to_value(&cases[ncore + nsess / 2]).unwrap());
    rep.assume("the cross product of the two grids is not claimed; third-party codecs are exercised only at these small parameters");
    rep.assume("no-cache objects transferred more than once are delivered again by design (receiver does not remember them): 'once' is not asserted for them");
    rep.finish()
}
