//! C18 — multi-session demultiplexing, TSI filtering and session listener events.
//!  (1) isolation: all interleavings of 2-3 recorded sessions (E1 full);
//!  (2) filter: explicit-state BFS over add/remove listen operations against a counter reference (E2);
//!  (3) listener: all histories over {data, close-session, tick+cleanup} x one/two clock-read
//!      deviations injected through the virtual Instant (E1 deviation-bounded).
use crate::monitor::*;
use crate::report::*;
use crate::rfc;
use crate::sess::*;
use crate::statex::*;
use crate::util::*;
use flute::core::UDPEndpoint;
use flute::receiver::{MultiReceiver, MultiReceiverListener, ReceiverEndpoint};
use serde::{Deserialize, Serialize};
use serde_json::json;
use std::cell::RefCell;
use std::collections::{BTreeMap, BTreeSet};
use std::rc::Rc;
use std::sync::Arc;
use std::time::Duration;

fn ep(n: u8, src: bool) -> UDPEndpoint {
    UDPEndpoint::new(if src { Some(format!("10.0.0.{}", n)) } else { None }, format!("224.0.0.{}", n), 3400)
}

// ------------------------------------------------------------------------------------------------
// (1) isolation

fn record_session(tsi: u64, salt: u8, len: usize) -> (Vec<Vec<u8>>, Vec<u8>) {
    let mut o = ObjSpec::simple(len, salt);
    o.oti = Some(OtiSpec::new(Scheme::NoCode, 4, 2, 0, true));
    let s = SessSpec::basic(OtiSpec::new(Scheme::NoCode, 1424, 64, 0, true));
    let oti = s.oti.oti().unwrap();
    let mut snd = flute::sender::Sender::new(endpoint(), tsi, &oti, &s.config());
    snd.add_object(0, o.desc(None).unwrap()).unwrap();
    snd.publish(t0()).unwrap();
    let mut pk = Vec::new();
    drain(&mut snd, t0(), &mut pk, 1000);
    (pk.into_iter().map(|p| p.1).collect(), o.content())
}

type SessLog = Vec<(u128, Vec<Call>)>;

fn deliver_interleaved(sessions: &[(UDPEndpoint, u64, Vec<Vec<u8>>)], order: &[usize]) -> Result<BTreeMap<(String, u64), SessLog>, String> {
    let mon = Mon::new(true);
    let mut rx = MultiReceiver::new(mon.builder(), Some(recv_config(true)), false);
    let mut next = vec![0usize; sessions.len()];
    let r = catch(|| {
        for &s in order {
            let (e, _, pk) = &sessions[s];
            let _ = rx.push(e, &pk[next[s]], t0());
            next[s] += 1;
        }
    });
    if let Err(p) = r {
        std::mem::forget(rx);
        return Err(p);
    }
    drop(rx);
    let mut out: BTreeMap<(String, u64), SessLog> = BTreeMap::new();
    for w in mon.writers() {
        out.entry((format!("{:?}", w.endpoint), w.tsi)).or_default().push((w.toi, w.calls.clone()));
    }
    for f in mon.fdts() {
        out.entry((format!("{:?}", f.endpoint), f.tsi)).or_default().push((0, vec![]));
    }
    Ok(out)
}

fn interleavings(counts: &[usize], cur: &mut Vec<usize>, left: &mut Vec<usize>, f: &mut dyn FnMut(&[usize])) {
    if left.iter().all(|l| *l == 0) {
        f(cur);
        return;
    }
    for s in 0..counts.len() {
        if left[s] > 0 {
            left[s] -= 1;
            cur.push(s);
            interleavings(counts, cur, left, f);
            cur.pop();
            left[s] += 1;
        }
    }
}

fn isolation(thorough: bool, rep: &mut Report) -> (u64, u64) {
    let (p1, _) = record_session(1, 1, 7);
    let (p2, _) = record_session(1, 2, 9);
    let (p3, _) = record_session(2, 3, 5);
    let mut setups: Vec<Vec<(UDPEndpoint, u64, Vec<Vec<u8>>)>> = vec![
        // equal TSI on two endpoints
        vec![(ep(1, false), 1, p1.clone()), (ep(2, false), 1, p2.clone())],
        // two TSIs on one endpoint
        vec![(ep(1, false), 1, p1.clone()), (ep(1, false), 2, p3.clone())],
        // same destination, different source address
        vec![(ep(1, false), 1, p1.clone()), (ep(1, true), 1, p2.clone())],
    ];
    if thorough {
        setups.push(vec![(ep(1, false), 1, p1.clone()), (ep(2, false), 1, p2.clone()), (ep(1, false), 2, p3.clone())]);
        // four sessions (all three ways of differing: endpoint, TSI, source address), short streams
        let (p4, _) = record_session(1, 4, 6);
        setups.push(vec![(ep(1, false), 1, p1[..3].to_vec()), (ep(2, false), 1, p2[..3].to_vec()), (ep(1, false), 2, p3[..2].to_vec()), (ep(1, true), 1, p4.clone())]);
        // two long sessions with equal TSI (FDT + 7 object packets each)
        let (q1, _) = record_session(1, 11, 27);
        let (q2, _) = record_session(1, 12, 26);
        setups.push(vec![(ep(1, false), 1, q1), (ep(2, false), 1, q2)]);
    } else {
        setups.push(vec![(ep(1, false), 1, p1[..2].to_vec()), (ep(2, false), 1, p2[..3].to_vec()), (ep(1, false), 2, p3.clone())]);
    }
    let mut n = 0u64;
    let mut distinct = BTreeSet::new();
    for (si, sess) in setups.iter().enumerate() {
        // baselines: each session alone
        let mut base: BTreeMap<(String, u64), SessLog> = BTreeMap::new();
        for (i, s) in sess.iter().enumerate() {
            let order: Vec<usize> = vec![i; s.2.len()];
            match deliver_interleaved(sess, &order) {
                Ok(m) => base.extend(m),
                Err(p) => rep.machinery(format!("baseline panicked: {}", p)),
            }
        }
        if base.len() != sess.len() {
            rep.machinery(format!("isolation setup {}: {} baseline sessions for {} streams", si, base.len(), sess.len()));
        }
        let counts: Vec<usize> = sess.iter().map(|s| s.2.len()).collect();
        let mut orders: Vec<Vec<usize>> = Vec::new();
        interleavings(&counts, &mut vec![], &mut counts.clone(), &mut |o| orders.push(o.to_vec()));
        let res = par_map(&orders, |_, o| deliver_interleaved(sess, o));
        for (o, r) in orders.iter().zip(res) {
            n += 1;
            match r {
                Err(p) => rep.add(Violation { key: format!("C18/panic/{}", panic_sig(&p)), what: format!("panic: {}", p), case: json!({"check": "isolation", "case": {"setup": si, "order": o}}) }),
                Ok(m) => {
                    distinct.insert(h64(&format!("{:?}", m)));
                    if m != base {
                        let diff: Vec<String> = base.keys().filter(|k| m.get(*k) != base.get(*k)).map(|k| format!("{:?}", k)).collect();
                        let extra: Vec<String> = m.keys().filter(|k| !base.contains_key(*k)).map(|k| format!("{:?}", k)).collect();
                        rep.add(Violation {
                            key: "C18/interleaving-changes-a-session".into(),
                            what: format!("setup {}: interleaving {:?} changes what session(s) {:?} deliver (sessions never seen alone: {:?})", si, o, diff, extra),
                            case: json!({"check": "isolation", "case": {"setup": si, "order": o}}),
                        });
                    }
                }
            }
        }
    }
    (n, distinct.len() as u64)
}

/// endpoints of the filter search: `layout` 0 = the two endpoints differ by group address, 1 = by port only,
/// 2 = by the source address of the with-source form only (same group, same port; the sourceless forms are
/// then one and the same endpoint, so layout 2 is only used for probes / entries WITH a source)
fn fep(layout: u8, n: u8, src: bool) -> UDPEndpoint {
    match layout {
        1 => UDPEndpoint::new(if src { Some("10.0.0.1".to_string()) } else { None }, "224.0.0.1".to_string(), 3400 + n as u16),
        _ => ep(n, src),
    }
}

// ------------------------------------------------------------------------------------------------
// (2) TSI filter

#[derive(Serialize, Deserialize, Clone, Debug, PartialEq)]
pub enum FOp {
    /// (endpoint 1|2, with source, tsi)
    Add(u8, bool, u64),
    Remove(u8, bool, u64),
    AddAll(u8, bool),
    RemoveAll(u8, bool),
    /// set_tsi_filtering(on)
    Filtering(bool),
}

fn probe_packet(tsi: u64, id: u32) -> Vec<u8> {
    let exp = unix_to_ntp_secs(EPOCH_2027 + 3600).to_string();
    let xml = crate::fdtxml::FdtX::new(&exp).xml();
    crate::fdtxml::fdt_packets(tsi, id, xml.as_bytes(), 4096, None, None).remove(0)
}

pub struct FSys {
    rx: MultiReceiver,
    mon: Mon,
    cnt: BTreeMap<(u8, bool, u64), u32>,
    bypass: BTreeMap<(u8, bool), u32>,
    probe_id: u32,
    filtering: bool,
    viol: Vec<(String, String)>,
    last_vec: Vec<bool>,
    wildcard_hit: bool,
    bypass_hit: bool,
    layout: u8,
}

impl FSys {
    pub fn new() -> FSys {
        FSys::with_layout(0)
    }
    pub fn with_layout(layout: u8) -> FSys {
        let mon = Mon::new(true);
        let rx = MultiReceiver::new(mon.builder(), Some(recv_config(true)), true);
        let mut s = FSys { rx, mon, cnt: BTreeMap::new(), bypass: BTreeMap::new(), probe_id: 1, filtering: true, viol: vec![], last_vec: vec![], wildcard_hit: false, bypass_hit: false, layout };
        s.probe();
        s
    }
    fn expected(&mut self, e: u8, src: bool, tsi: u64) -> bool {
        if !self.filtering {
            return true;
        }
        let by = *self.bypass.get(&(e, src)).unwrap_or(&0) > 0;
        let exact = *self.cnt.get(&(e, src, tsi)).unwrap_or(&0) > 0;
        let wild = *self.cnt.get(&(e, false, tsi)).unwrap_or(&0) > 0;
        if by {
            self.bypass_hit = true;
        }
        if !exact && wild && src {
            self.wildcard_hit = true;
        }
        by || exact || wild
    }
    fn probe(&mut self) {
        let mut v = Vec::new();
        for e in [1u8, 2] {
            for src in [false, true] {
                for tsi in [1u64, 2] {
                    self.probe_id += 1;
                    let before = self.mon.0.fdts.borrow().len();
                    let pkt = probe_packet(tsi, self.probe_id & 0xFFFFF);
                    let endpoint = fep(self.layout, e, src);
                    let r = catch(std::panic::AssertUnwindSafe(|| self.rx.push(&endpoint, &pkt, t0())));
                    if let Err(p) = r {
                        self.viol.push((format!("C18/panic/{}", panic_sig(&p)), format!("probe panicked: {}", p)));
                        return;
                    }
                    let f = self.mon.0.fdts.borrow();
                    let processed = f.len() > before;
                    if processed {
                        let l = f.last().unwrap();
                        if l.endpoint != endpoint || l.tsi != tsi {
                            self.viol.push(("C18/callback-with-wrong-endpoint-or-tsi".into(), format!("probe ({:?}, tsi {}) reported as ({:?}, tsi {})", endpoint, tsi, l.endpoint, l.tsi)));
                        }
                    }
                    drop(f);
                    let exp = self.expected(e, src, tsi);
                    if processed != exp {
                        self.viol.push((
                            if exp { "C18/filter-drops-accepted-packet".into() } else { "C18/filter-passes-unlisted-packet".into() },
                            format!("packet from endpoint {} ({} source) TSI {}: processed = {}, but reference says {} (counters {:?}, bypass {:?})", e, if src { "with" } else { "no" }, tsi, processed, exp, self.cnt, self.bypass),
                        ));
                    }
                    v.push(processed);
                }
            }
        }
        self.last_vec = v;
    }
}

impl Sys for FSys {
    type Ev = FOp;
    fn enabled(&self) -> Vec<FOp> {
        let mut v = Vec::new();
        for e in [1u8, 2] {
            for src in [false, true] {
                for tsi in [1u64, 2] {
                    v.push(FOp::Add(e, src, tsi));
                    v.push(FOp::Remove(e, src, tsi));
                }
                v.push(FOp::AddAll(e, src));
                v.push(FOp::RemoveAll(e, src));
            }
        }
        v.push(FOp::Filtering(!self.filtering));
        v
    }
    fn apply(&mut self, op: &FOp) {
        match op {
            FOp::Add(e, s, t) => {
                self.rx.add_listen_tsi(fep(self.layout, *e, *s), *t);
                *self.cnt.entry((*e, *s, *t)).or_insert(0) += 1;
            }
            FOp::Remove(e, s, t) => {
                self.rx.remove_listen_tsi(&fep(self.layout, *e, *s), *t);
                if let Some(c) = self.cnt.get_mut(&(*e, *s, *t)) {
                    *c = c.saturating_sub(1);
                }
            }
            FOp::AddAll(e, s) => {
                self.rx.add_listen_all_tsi(fep(self.layout, *e, *s));
                *self.bypass.entry((*e, *s)).or_insert(0) += 1;
            }
            FOp::Filtering(on) => {
                self.rx.set_tsi_filtering(*on);
                self.filtering = *on;
            }
            FOp::RemoveAll(e, s) => {
                self.rx.remove_listen_all_tsi(&fep(self.layout, *e, *s));
                if let Some(c) = self.bypass.get_mut(&(*e, *s)) {
                    *c = c.saturating_sub(1);
                }
            }
        }
        self.cnt.retain(|_, c| *c > 0);
        self.bypass.retain(|_, c| *c > 0);
        self.probe();
    }
    fn fingerprint(&self) -> u64 {
        // the REAL demultiplexing state (hook H6) is part of the key: merging on the reference counters and
        // the probe vector alone merged [add, filtering off] with [filtering off, add], whose futures differ
        // in an implementation that mishandles one of them (seed C18-d went unnoticed that way)
        h64(&(&self.cnt, &self.bypass, &self.last_vec, self.viol.len(), self.filtering, self.rx.verif_state()))
    }
    fn verdicts(&self) -> Vec<(String, String)> {
        self.viol.clone()
    }
    fn witnesses(&self) -> Vec<&'static str> {
        let mut w = Vec::new();
        if self.wildcard_hit {
            w.push("wildcard_source_matched");
        }
        if self.bypass_hit {
            w.push("bypass_matched");
        }
        w
    }
}

// ------------------------------------------------------------------------------------------------
// (3) listener events

#[derive(Serialize, Deserialize, Clone, Debug, PartialEq)]
pub enum LEv {
    Data(u8),
    /// the session's previous packet once more (a carousel repetition the receiver discards): still activity
    Dup(u8),
    Close(u8),
    /// advance the virtual clock by 3 s (session timeout is 5 s), then cleanup
    TickCleanup,
}

struct Lst(Rc<RefCell<Vec<(bool, ReceiverEndpoint)>>>);
impl MultiReceiverListener for Lst {
    fn on_session_open(&self, e: &ReceiverEndpoint) {
        self.0.borrow_mut().push((true, e.clone()));
    }
    fn on_session_closed(&self, e: &ReceiverEndpoint) {
        self.0.borrow_mut().push((false, e.clone()));
    }
}

/// returns (violation, number of clock reads, events seen)
pub fn run_listener(hist: &[LEv], deviations: &[u64]) -> (Option<(String, String)>, u64, usize) {
    let log = Rc::new(RefCell::new(Vec::new()));
    let sessions = [(ep(1, false), 1u64), (ep(2, false), 1u64)];
    let devs: Vec<u64> = deviations.to_vec();
    flute::verif::clock_reset(1_000_000_000);
    flute::verif::clock_set_read_hook(Some(Box::new(move |idx| if devs.contains(&idx) { 6_000_000_000 } else { 0 })));
    let mut viol: Option<(String, String)> = None;
    let l2 = log.clone();
    let r = catch(|| {
        let mon = Mon::new(true);
        let mut cfg = recv_config(true);
        cfg.session_timeout = Some(Duration::from_secs(5));
        let mut rx = MultiReceiver::new(mon.builder(), Some(cfg), false);
        rx.add_listener(Lst(l2.clone()));
        let mut now = t0();
        let mut id = 1u32;
        let mut out: Option<(String, String)> = None;
        // reference model of expiry (only meaningful without clock-read deviations): seconds on the
        // virtual monotonic clock, last packet per session, believed-open flag
        let exact_clock = deviations.is_empty();
        let mut t_s = 0u64;
        let mut last_pkt = [0u64; 2];
        let mut open = [false; 2];
        let mut last_id: [Option<u32>; 2] = [None, None];
        for (step, ev) in hist.iter().enumerate() {
            match ev {
                LEv::Data(s) | LEv::Dup(s) => {
                    last_pkt[*s as usize] = t_s;
                    open[*s as usize] = true;
                    let id = match (ev, last_id[*s as usize]) {
                        (LEv::Dup(_), Some(i)) => i,
                        _ => {
                            id += 1;
                            id
                        }
                    };
                    last_id[*s as usize] = Some(id);
                    let (e, tsi) = &sessions[*s as usize];
                    let _ = rx.push(e, &probe_packet(*tsi, id), now);
                    // the packet was accepted by a session: that session must be open now
                    let w = word(&l2.borrow(), e, *tsi);
                    if out.is_none() && !w.ends_with('o') {
                        out = Some(("C18/data-packet-without-open-session-event".into(), format!("after step {} ({:?}) the event word of session {} is {:?}: the packet created or used a session the listener believes closed", step, ev, s, w)));
                    }
                }
                LEv::Close(s) => {
                    open[*s as usize] = false;
                    let (e, tsi) = &sessions[*s as usize];
                    // the close-session packet of a real Sender of that session (Sender::read_close_session), whose
                    // session OTI rotates over the five FEC schemes with the history (a function of the history only)
                    let scheme = ALL_SCHEMES[(hist.len() + *s as usize * 2) % ALL_SCHEMES.len()];
                    let mut spec = SessSpec::basic(match scheme {
                        Scheme::NoCode => OtiSpec::new(scheme, 1424, 64, 0, true),
                        _ => OtiSpec::new(scheme, 1424, 64, 2, true),
                    });
                    spec.tsi = *tsi;
                    let pkt = match spec.sender() {
                        Ok(mut snd) => snd.read_close_session(now),
                        Err(_) => flute::verif::new_alc_pkt_close_session(&0u128, *tsi),
                    };
                    let _ = rx.push(e, &pkt, now);
                    let w = word(&l2.borrow(), e, *tsi);
                    if out.is_none() && w.ends_with('o') {
                        out = Some(("C18/close-session-packet-without-close-event".into(), format!("after step {} ({:?}) the event word of session {} is {:?}", step, ev, s, w)));
                    }
                }
                LEv::TickCleanup => {
                    flute::verif::clock_advance(Duration::from_secs(3));
                    now += Duration::from_secs(3);
                    rx.cleanup(now);
                    t_s += 3;
                    for si in 0..2 {
                        if !open[si] || !exact_clock {
                            continue;
                        }
                        let (e, tsi) = &sessions[si];
                        let w = word(&l2.borrow(), e, *tsi);
                        let idle = t_s - last_pkt[si];
                        if idle > 5 {
                            open[si] = false;
                            if out.is_none() && w.ends_with('o') {
                                out = Some(("C18/listener/idle-session-not-closed-by-cleanup".into(), format!("after step {} (cleanup): session {} has been idle for {} s with session_timeout 5 s but no close event was delivered (events {:?})", step, si, idle, w)));
                            }
                        } else if out.is_none() && !w.ends_with('o') {
                            out = Some(("C18/listener/session-closed-before-its-timeout".into(), format!("after step {} (cleanup): session {} idle for {} s only (session_timeout 5 s) but its events are {:?}", step, si, idle, w)));
                        }
                    }
                }
            }
        }
        drop(rx);
        out
    });
    let reads = flute::verif::clock_reads();
    flute::verif::clock_set_read_hook(None);
    match r {
        Err(p) => viol = Some((format!("C18/panic/{}", panic_sig(&p)), format!("panic: {}", p))),
        Ok(v) => viol = viol.or(v),
    }
    let lg = log.borrow();
    if viol.is_none() {
        for (e, tsi) in &sessions {
            let w = word(&lg, e, *tsi);
            // (open close)* after the receiver has been dropped
            let mut ok = w.len() % 2 == 0;
            for (i, c) in w.chars().enumerate() {
                if (i % 2 == 0) != (c == 'o') {
                    ok = false;
                }
            }
            if !ok {
                let kind = if w.contains("oo") {
                    "two-opens-without-close"
                } else if w.starts_with('c') || w.contains("cc") {
                    "close-without-open"
                } else {
                    "open-never-closed"
                };
                viol = Some((format!("C18/listener/{}", kind), format!("history {:?} with clock deviations at reads {:?}: session ({:?}, tsi {}) saw events {:?} (o = open, c = close), receiver dropped at the end", hist, deviations, e.destination_group_address, tsi, w)));
                break;
            }
        }
        for (_, re) in lg.iter() {
            if !sessions.iter().any(|(e, t)| *e == re.endpoint && *t == re.tsi) {
                viol = Some(("C18/listener/unknown-session".into(), format!("event for unknown session {:?}", re)));
            }
        }
    }
    (viol, reads, lg.len())
}

fn word(log: &[(bool, ReceiverEndpoint)], e: &UDPEndpoint, tsi: u64) -> String {
    log.iter().filter(|(_, r)| r.endpoint == *e && r.tsi == tsi).map(|(o, _)| if *o { 'o' } else { 'c' }).collect()
}


// ------------------------------------------------------------------------------------------------
// (4) the listener registry: listeners added and removed while sessions open and close. Differential
// oracle: every listener sees exactly the events a permanent listener sees between its registration
// and its removal.

#[derive(Serialize, Deserialize, Clone, Debug, PartialEq)]
pub enum REv {
    Data(u8),
    Close(u8),
    TickCleanup,
    AddListener,
    /// remove the k-th listener added by AddListener (if it is still registered)
    RemoveListener(u8),
}

pub fn run_registry(hist: &[REv]) -> Option<(String, String)> {
    let sessions = [(ep(1, false), 1u64), (ep(2, false), 1u64)];
    flute::verif::clock_reset(1_000_000_000);
    let permanent = Rc::new(RefCell::new(Vec::new()));
    // (log, id, index in the permanent log at registration, at removal)
    let mut extra: Vec<(Rc<RefCell<Vec<(bool, ReceiverEndpoint)>>>, u64, usize, Option<usize>)> = Vec::new();
    let r = catch(|| {
        let mon = Mon::new(true);
        let mut cfg = recv_config(true);
        cfg.session_timeout = Some(Duration::from_secs(5));
        let mut rx = MultiReceiver::new(mon.builder(), Some(cfg), false);
        rx.add_listener(Lst(permanent.clone()));
        let mut now = t0();
        let mut id = 1u32;
        for ev in hist {
            match ev {
                REv::Data(s) => {
                    id += 1;
                    let (e, tsi) = &sessions[*s as usize];
                    let _ = rx.push(e, &probe_packet(*tsi, id), now);
                }
                REv::Close(s) => {
                    let (e, tsi) = &sessions[*s as usize];
                    let _ = rx.push(e, &flute::verif::new_alc_pkt_close_session(&0u128, *tsi), now);
                }
                REv::TickCleanup => {
                    flute::verif::clock_advance(Duration::from_secs(3));
                    now += Duration::from_secs(3);
                    rx.cleanup(now);
                }
                REv::AddListener => {
                    let log = Rc::new(RefCell::new(Vec::new()));
                    let lid = rx.add_listener(Lst(log.clone()));
                    extra.push((log, lid, permanent.borrow().len(), None));
                }
                REv::RemoveListener(k) => {
                    if let Some(x) = extra.get_mut(*k as usize) {
                        if x.3.is_none() {
                            rx.remove_listener(x.1);
                            x.3 = Some(permanent.borrow().len());
                        }
                    }
                }
            }
        }
        drop(rx);
    });
    if let Err(p) = r {
        return Some((format!("C18/panic/{}", panic_sig(&p)), format!("panic: {}", p)));
    }
    let perm = permanent.borrow();
    let fmt = |l: &[(bool, ReceiverEndpoint)]| -> String { l.iter().map(|(o, e)| format!("{}{}", if *o { 'o' } else { 'c' }, if e.endpoint == sessions[0].0 { 0 } else { 1 })).collect::<Vec<_>>().join(" ") };
    for (k, (log, _, from, to)) in extra.iter().enumerate() {
        let want = &perm[*from..to.unwrap_or(perm.len())];
        let got = log.borrow();
        if got[..] != want[..] {
            return Some((
                "C18/listener/registered-listener-misses-or-gains-events".into(),
                format!("history {:?}: listener #{} (registered while the permanent listener had seen {} events, removed at {:?}) saw [{}], the permanent listener saw [{}] in that period", hist, k, from, to, fmt(&got), fmt(want)),
            ));
        }
    }
    None
}

// ------------------------------------------------------------------------------------------------

pub fn replay(v: &serde_json::Value) -> Vec<Violation> {
    match v["check"].as_str().unwrap_or("") {
        "listener" => {
            let hist: Vec<LEv> = serde_json::from_value(v["case"]["history"].clone()).expect("history");
            let devs: Vec<u64> = serde_json::from_value(v["case"]["deviations"].clone()).expect("deviations");
            run_listener(&hist, &devs).0.into_iter().map(|(key, what)| Violation { key, what, case: v.clone() }).collect()
        }
        "registry" => {
            let hist: Vec<REv> = serde_json::from_value(v["case"]["history"].clone()).expect("history");
            run_registry(&hist).into_iter().map(|(key, what)| Violation { key, what, case: v.clone() }).collect()
        }
        "filter" => {
            let hist: Vec<FOp> = serde_json::from_value(v["case"]["history"].clone()).expect("history");
            let mut s = FSys::new();
            for e in &hist {
                s.apply(e);
            }
            s.verdicts().into_iter().map(|(key, what)| Violation { key, what, case: v.clone() }).collect()
        }
        _ => {
            let mut rep = Report::new("C18", "model_checking", "quick");
            isolation(false, &mut rep);
            rep.viol.into_values().map(|(v, _)| v).collect()
        }
    }
}

pub fn run(thorough: bool) -> i32 {
    let mut rep = Report::new("C18", "model_checking", if thorough { "thorough" } else { "quick" });
    // (1)
    let (n_iso, d_iso) = isolation(thorough, &mut rep);
    // (2)
    let depth = if thorough { 7 } else { 4 };
    let (mut st, mut found) = bfs(FSys::new, depth, 4_000_000);
    // the same search with two endpoints that differ by their port only
    {
        let (st1, found1) = bfs(|| FSys::with_layout(1), if thorough { depth - 1 } else { depth }, 4_000_000);
        st.states += st1.states;
        st.transitions += st1.transitions;
        st.capped |= st1.capped;
        for (k, n) in st1.witnesses {
            *st.witnesses.entry(k).or_insert(0) += n;
        }
        for mut f in found1 {
            if !found.iter().any(|x| x.sig == f.sig) {
                f.what = format!("(endpoints differing by port only) {}", f.what);
                found.push(f);
            }
        }
    }
    for f in found {
        rep.add(Violation { key: f.sig, what: f.what, case: json!({"check": "filter", "case": {"history": f.history}}) });
    }
    // (3)
    let len = if thorough { 7 } else { 5 };
    let alphabet = [LEv::Data(0), LEv::Data(1), LEv::Dup(0), LEv::Close(0), LEv::Close(1), LEv::TickCleanup];
    let mut hists: Vec<Vec<LEv>> = vec![vec![]];
    let mut all: Vec<Vec<LEv>> = Vec::new();
    for _ in 0..len {
        let mut next = Vec::new();
        for h in &hists {
            for a in &alphabet {
                let mut h2 = h.clone();
                h2.push(a.clone());
                next.push(h2);
            }
        }
        all.extend(next.iter().cloned());
        hists = next;
    }
    let two = thorough;
    let res = par_map(&all, |_, h| {
        let mut found: Vec<(String, String, Vec<u64>)> = Vec::new();
        let (v0, reads, _) = run_listener(h, &[]);
        let mut runs = 1u64;
        let mut evs = 0usize;
        if let Some((k, w)) = v0 {
            found.push((k, w, vec![]));
        }
        for i in 0..reads {
            let (v, _, e) = run_listener(h, &[i]);
            runs += 1;
            evs += e;
            if let Some((k, w)) = v {
                if !found.iter().any(|f| f.0 == k) {
                    found.push((k, w, vec![i]));
                }
            }
            if two && h.len() <= 4 {
                for j in (i + 1)..reads {
                    let (v, _, _) = run_listener(h, &[i, j]);
                    runs += 1;
                    if let Some((k, w)) = v {
                        if !found.iter().any(|f| f.0 == k) {
                            found.push((k, w, vec![i, j]));
                        }
                    }
                }
            }
        }
        (found, runs, reads, evs)
    });
    let mut lruns = 0u64;
    let mut lreads = 0u64;
    let mut levs = 0u64;
    for (h, (found, runs, reads, evs)) in all.iter().zip(res) {
        lruns += runs;
        lreads += reads;
        levs += evs as u64;
        for (key, what, devs) in found {
            rep.add(Violation { key, what, case: json!({"check": "listener", "case": {"history": h, "deviations": devs}}) });
        }
    }
    // (4) listener registry
    let ralpha = [REv::Data(0), REv::Data(1), REv::Close(0), REv::TickCleanup, REv::AddListener, REv::RemoveListener(0), REv::RemoveListener(1)];
    let rlen = if thorough { 7 } else { 6 };
    let mut rh: Vec<Vec<REv>> = vec![vec![]];
    let mut rall: Vec<Vec<REv>> = Vec::new();
    for _ in 0..rlen {
        let mut next = Vec::new();
        for h in &rh {
            // at most three AddListener per history, removals only of listeners that exist
            let adds = h.iter().filter(|e| **e == REv::AddListener).count();
            for a in &ralpha {
                match a {
                    REv::AddListener if adds >= 3 => continue,
                    REv::RemoveListener(k) if (*k as usize) >= adds => continue,
                    _ => {}
                }
                let mut h2 = h.clone();
                h2.push(a.clone());
                next.push(h2);
            }
        }
        rall.extend(next.iter().filter(|h| h.iter().any(|e| *e == REv::AddListener)).cloned());
        rh = next;
    }
    let rres = par_map(&rall, |_, h| run_registry(h));
    let mut rfound: BTreeSet<String> = BTreeSet::new();
    for (h, r) in rall.iter().zip(rres) {
        if let Some((key, what)) = r {
            if rfound.insert(key.clone()) {
                rep.add(Violation { key, what, case: json!({"check": "registry", "case": {"history": h}}) });
            }
        }
    }
    rep.cov("listener_registry_histories", rall.len() as u64);
    rep.guard("listener_registry_histories", rall.len() as u64);
    // determinism self-check of the clock hook
    let a = run_listener(&[LEv::Data(0), LEv::TickCleanup, LEv::TickCleanup], &[2]);
    let b = run_listener(&[LEv::Data(0), LEv::TickCleanup, LEv::TickCleanup], &[2]);
    if a.1 != b.1 || a.2 != b.2 {
        rep.machinery("replaying one listener schedule twice gave different observations".into());
    }
    rep.cov("states", st.states + d_iso);
    rep.cov("transitions", st.transitions + n_iso + lruns);
    rep.cov("traces_validated_against_impl", st.transitions + n_iso + lruns);
    rep.cov("evaluations", st.transitions + n_iso + lruns);
    rep.cov("distinct_nontrivial", st.states + d_iso);
    rep.cov("explanation", "isolation: every interleaving of 2-3 recorded sessions pushed into one real MultiReceiver and compared per (endpoint, TSI) with the session run alone; filter: BFS over the 24 listen operations and set_tsi_filtering on the real MultiReceiver, 8 probes after every operation compared with a counter reference; listener: every history over {data s, close s, tick+cleanup} with a 6 s clock jump injected before every single Instant read (and every pair, thorough), event word per session checked");
    rep.cov("exhaustive", !st.capped);
    rep.cov("isolation_interleavings", n_iso);
    rep.cov("filter_states", st.states);
    rep.cov("filter_transitions", st.transitions);
    rep.cov("filter_depth", depth as u64);
    rep.cov("listener_histories", all.len() as u64);
    rep.cov("listener_executions", lruns);
    rep.cov("listener_clock_reads_deviated", lreads);
    rep.guard("wildcard_source_matched", *st.witnesses.get("wildcard_source_matched").unwrap_or(&0));
    rep.guard("bypass_matched", *st.witnesses.get("bypass_matched").unwrap_or(&0));
    rep.guard("listener_events_observed", levs);
    rep.guard("isolation_interleavings", n_iso);
    rep.sample(json!({"check": "filter", "history": [FOp::Add(1, false, 1), FOp::AddAll(2, true), FOp::Remove(1, false, 1)]}));
    rep.sample(json!({"check": "listener", "history": [LEv::Data(0), LEv::TickCleanup, LEv::TickCleanup], "deviations": [3]}));
    let _ = Arc::new(0);
    rep.finish()
}
