//! A real `Sender` wrapped as a transition system for E2 (statex): small serialisable events,
//! complete observation log (packets decoded by the independent codec, Subscriber events, API
//! results), canonical fingerprint of the real object (`{:#?}` through canon.rs).
#![allow(dead_code)]
use crate::rfc;
use crate::sess::*;
use crate::util::*;
use flute::sender::{Event, Sender, Subscriber};
use serde::{Deserialize, Serialize};
use std::collections::{BTreeMap, BTreeSet};
use std::sync::{Arc, Mutex};

#[derive(Clone, Debug, Serialize, Deserialize, PartialEq)]
pub enum Ev {
    /// add catalogue object k
    Add(usize),
    Publish,
    /// remove catalogue object k
    Remove(usize),
    Read1,
    Drain,
    Tick(u64),
    SetComplete,
    /// trigger_transfer_at(object k, absolute time in ms or None)
    Trigger(usize, Option<i64>),
    /// the read-only calls of the public API (fdt_xml_data, is_added, nb_objects, nb_transfers,
    /// get_objects_in_fdt): they must not change what the sender does next
    Query,
    /// add_object of a copy of catalogue object 0 that the sender must refuse: 0 = priority without a queue,
    /// 1 = an OTI the block encoder cannot encode (Reed-Solomon without parity symbols). A refusal leaves no trace
    AddRefused(u8),
}

#[derive(Clone, Debug, PartialEq)]
pub struct PktSum {
    pub t_ms: u64,
    pub toi: u128,
    pub sbn: u32,
    pub esi: u32,
    pub b: bool,
    pub fdt_id: Option<u32>,
    /// (transfer length, E, B) from EXT_FTI when present
    pub fti: Option<(u64, u16, u32)>,
    pub cenc: Option<u8>,
    pub payload: Vec<u8>,
    pub sct: Option<(u32, Option<u32>)>,
}

#[derive(Clone, Debug, PartialEq)]
pub enum Item {
    Api(Ev, String),
    Pkt(PktSum),
    /// read() returned None
    Idle(u64),
    Start(u128, u64),
    Stop(u128, u64),
}

struct Sub(Mutex<Vec<(bool, u128)>>);
impl Subscriber for Sub {
    fn on_sender_event(&self, evt: &Event, _now: std::time::SystemTime) {
        let mut l = self.0.lock().unwrap();
        match evt {
            Event::StartTransfer(f) => l.push((true, f.toi)),
            Event::StopTransfer(f) => l.push((false, f.toi)),
        }
    }
}

pub struct SendSys {
    pub spec: SessSpec,
    pub catalog: Arc<Vec<ObjSpec>>,
    /// never dropped after a subject panic (poisoned locks: dropping it could panic again outside any guard)
    pub sender: std::mem::ManuallyDrop<Sender>,
    pub now_ms: u64,
    /// TOI given to catalogue object k (None = never added / refused)
    pub toi_of: Vec<Option<u128>>,
    pub removed: Vec<bool>,
    pub log: Vec<Item>,
    sub: Arc<Sub>,
    pub panicked: Option<String>,
}

impl Drop for SendSys {
    fn drop(&mut self) {
        if self.panicked.is_none() {
            let s = unsafe { std::mem::ManuallyDrop::take(&mut self.sender) };
            let _ = catch(std::panic::AssertUnwindSafe(move || drop(s)));
        }
    }
}

pub fn summarize(p: &[u8], t_ms: u64) -> Option<PktSum> {
    let r = rfc::decode(p).ok()?;
    let (sbn, esi, _, _) = r.payload_id(8).ok()?;
    let fti = match r.fti(false) {
        // Raptor / RaptorQ carry Z instead of B: any B' with ceil(Kt / B') = Z gives the sender's partition
        Some(Ok(f)) if f.b == 0 && f.z > 0 && f.e > 0 => Some((f.l, f.e, f.l.div_ceil(f.e as u64).div_ceil(f.z as u64) as u32)),
        Some(Ok(f)) => Some((f.l, f.e, f.b)),
        _ => None,
    };
    Some(PktSum { t_ms, toi: r.toi, sbn, esi, b: r.b, fdt_id: r.fdt().map(|f| f.1), fti, cenc: r.cenc(), payload: r.payload().to_vec(), sct: r.sct() })
}

impl SendSys {
    pub fn new(spec: &SessSpec, catalog: Arc<Vec<ObjSpec>>) -> SendSys {
        let mut sender = spec.sender().expect("sender");
        let sub = Arc::new(Sub(Mutex::new(Vec::new())));
        sender.subscribe(sub.clone());
        let n = catalog.len();
        SendSys { spec: spec.clone(), catalog, sender: std::mem::ManuallyDrop::new(sender), now_ms: 0, toi_of: vec![None; n], removed: vec![false; n], log: Vec::new(), sub, panicked: None }
    }
    fn flush_events(&mut self) {
        let evs: Vec<(bool, u128)> = std::mem::take(&mut *self.sub.0.lock().unwrap());
        for (start, toi) in evs {
            self.log.push(if start { Item::Start(toi, self.now_ms) } else { Item::Stop(toi, self.now_ms) });
        }
    }
    fn read_once(&mut self) -> bool {
        let now = at_ms(self.now_ms);
        let r = self.sender.read(now);
        self.flush_events();
        match r {
            Some(p) => {
                match summarize(&p, self.now_ms) {
                    Some(s) => self.log.push(Item::Pkt(s)),
                    None => self.log.push(Item::Api(Ev::Read1, format!("UNDECODABLE {}", hex(&p[..p.len().min(32)])))),
                }
                true
            }
            None => {
                self.log.push(Item::Idle(self.now_ms));
                false
            }
        }
    }
    pub fn apply(&mut self, ev: &Ev) {
        if self.panicked.is_some() {
            return;
        }
        let r = catch(std::panic::AssertUnwindSafe(|| self.apply_inner(ev)));
        if let Err(p) = r {
            self.panicked = Some(p);
        }
    }
    fn apply_inner(&mut self, ev: &Ev) {
        let now = at_ms(self.now_ms);
        match ev {
            Ev::Add(k) => {
                let o = &self.catalog[*k];
                let res = match o.desc(None) {
                    Ok(d) => match add_tallied(&mut self.sender, o.prio, d, &self.spec.oti) {
                        Ok(t) => {
                            self.toi_of[*k] = Some(t);
                            format!("toi={}", t)
                        }
                        Err(e) => format!("err={}", e.0),
                    },
                    Err(e) => format!("desc-err={}", e),
                };
                self.log.push(Item::Api(ev.clone(), res));
            }
            Ev::Publish => {
                let r = self.sender.publish(now);
                self.log.push(Item::Api(ev.clone(), format!("{}", r.is_ok())));
            }
            Ev::Remove(k) => {
                let r = match self.toi_of[*k] {
                    Some(t) => {
                        let r = self.sender.remove_object(t);
                        if r {
                            self.removed[*k] = true;
                        }
                        r
                    }
                    None => false,
                };
                self.log.push(Item::Api(ev.clone(), format!("{}", r)));
            }
            Ev::Read1 => {
                self.read_once();
            }
            Ev::Drain => {
                let mut n = 0;
                while self.read_once() {
                    n += 1;
                    if n > 500 {
                        self.log.push(Item::Api(ev.clone(), "NOT-QUIESCENT".into()));
                        break;
                    }
                }
            }
            Ev::Tick(ms) => {
                self.now_ms += ms;
                self.log.push(Item::Api(ev.clone(), String::new()));
            }
            Ev::SetComplete => {
                self.sender.set_complete();
                self.log.push(Item::Api(ev.clone(), String::new()));
            }
            Ev::Query => {
                let now = at_ms(self.now_ms);
                let xml = self.sender.fdt_xml_data(now).map(|x| x.len()).unwrap_or(0);
                let n = self.sender.nb_objects();
                let inf = self.sender.get_objects_in_fdt().len();
                let mut added = 0;
                for t in self.toi_of.clone().into_iter().flatten() {
                    if self.sender.is_added(t) {
                        added += 1;
                    }
                    let _ = self.sender.nb_transfers(t);
                }
                self.log.push(Item::Api(ev.clone(), format!("xml={} n={} in_fdt={} added={}", xml > 0, n, inf, added)));
            }
            Ev::AddRefused(kind) => {
                let mut o = self.catalog[0].clone();
                o.location = format!("{}.refused{}", o.location, kind);
                if *kind == 0 {
                    o.prio = 7777;
                } else {
                    o.oti = Some(OtiSpec::new(Scheme::Rs28, 8, 2, 0, true));
                }
                let res = match o.desc(None) {
                    Ok(d) => match self.sender.add_object(o.prio, d) {
                        Ok(t) => format!("ACCEPTED toi={}", t),
                        Err(e) => format!("err={}", e.0),
                    },
                    Err(e) => format!("desc-err={}", e),
                };
                self.log.push(Item::Api(ev.clone(), res));
            }
            Ev::Trigger(k, t) => {
                let r = match self.toi_of[*k] {
                    Some(toi) => self.sender.trigger_transfer_at(toi, t.map(time_rel)),
                    None => false,
                };
                self.log.push(Item::Api(ev.clone(), format!("{}", r)));
            }
        }
        self.flush_events();
    }
    /// canonical fingerprint of the real sender (every field of every nested struct). The compact
    /// derived Debug is total on the sender's types; the only container with a per-instance random
    /// iteration order left (the object registry is a BTreeMap under the verif hook) is the
    /// allocator's `toi_reserved` HashSet, whose elements are sorted here. `sender_fp_slow` is the
    /// general canonicaliser (pretty Debug, every bare-brace block sorted); both must induce the
    /// same partition of states, which `fp_self_check` verifies on every run.
    pub fn sender_fp(&self) -> u64 {
        h64(canon_compact(&format!("{:?}", self.sender)).as_str())
    }
    pub fn sender_fp_slow(&self) -> u64 {
        crate::canon::canon_hash(&format!("{:#?}", self.sender))
    }
    pub fn k_of_toi(&self, toi: u128) -> Option<usize> {
        self.toi_of.iter().position(|t| *t == Some(toi))
    }
}

// ------------------------------------------------------------------------------------------------
// FDT reassembly from the observation log (independent of flute's receiver)

#[derive(Clone, Debug, Default, PartialEq)]
pub struct FdtAsm {
    pub id: u32,
    pub l: u64,
    pub e: u16,
    pub b: u32,
    pub cenc: u8,
    pub symbols: BTreeMap<(u32, u32), Vec<u8>>,
    pub first_pkt_index: usize,
    pub done_at_index: Option<usize>,
    pub first_t_ms: u64,
}

impl FdtAsm {
    pub fn nsym(&self) -> u64 {
        if self.e == 0 {
            return 0;
        }
        self.l.div_ceil(self.e as u64)
    }
    pub fn complete(&self) -> bool {
        self.symbols.len() as u64 >= self.nsym().max(1)
    }
    /// is (sbn, esi) a source symbol of this instance? (repair symbols of an FEC-protected FDT are not used by
    /// the reassembly: the clean stream carries every source symbol)
    pub fn is_source(&self, sbn: u32, esi: u32) -> bool {
        match rfc::partition(self.b as u128, self.l as u128, self.e as u128) {
            Some(p) => (sbn as u128) < p.n.max(1) && (esi as u128) < p.symbols_of(sbn as u128).max(1),
            None => true,
        }
    }
    /// reassembled (and inflated) XML
    pub fn xml(&self) -> Option<Vec<u8>> {
        let p = rfc::partition(self.b as u128, self.l as u128, self.e as u128)?;
        let mut out = Vec::new();
        for sbn in 0..p.n {
            for esi in 0..p.symbols_of(sbn) {
                out.extend_from_slice(self.symbols.get(&(sbn as u32, esi as u32))?);
            }
        }
        out.truncate(self.l as usize);
        crate::sess::inflate(self.cenc, &out).ok()
    }
    /// TOIs listed (textual scan of TOI="...")
    pub fn tois(&self) -> BTreeSet<u128> {
        let mut s = BTreeSet::new();
        if let Some(x) = self.xml() {
            let txt = String::from_utf8_lossy(&x).to_string();
            let mut rest = &txt[..];
            while let Some(i) = rest.find(" TOI=\"") {
                let r = &rest[i + 6..];
                if let Some(j) = r.find('"') {
                    if let Ok(t) = r[..j].parse::<u128>() {
                        s.insert(t);
                    }
                    rest = &r[j..];
                } else {
                    break;
                }
            }
        }
        s
    }
}

/// walk the log and reassemble every emission of every FDT instance; a new emission of an id that
/// was already complete (carousel repetition) restarts the assembly under a fresh record
pub fn fdt_emissions(log: &[Item]) -> Vec<FdtAsm> {
    let mut out: Vec<FdtAsm> = Vec::new();
    let mut cur: BTreeMap<u32, usize> = BTreeMap::new();
    for (idx, it) in log.iter().enumerate() {
        if let Item::Pkt(p) = it {
            if p.toi != 0 {
                continue;
            }
            let id = match p.fdt_id {
                Some(i) => i,
                None => continue,
            };
            let need_new = match cur.get(&id) {
                None => true,
                Some(i) => out[*i].done_at_index.is_some() && out[*i].is_source(p.sbn, p.esi),
            };
            if need_new {
                let (l, e, b) = p.fti.unwrap_or((0, 0, 0));
                out.push(FdtAsm { id, l, e, b, cenc: p.cenc.unwrap_or(0), symbols: BTreeMap::new(), first_pkt_index: idx, done_at_index: None, first_t_ms: p.t_ms });
                cur.insert(id, out.len() - 1);
            }
            let a = &mut out[cur[&id]];
            if !a.is_source(p.sbn, p.esi) {
                continue;
            }
            a.symbols.insert((p.sbn, p.esi), p.payload.clone());
            if a.complete() {
                a.done_at_index = Some(idx);
            }
        }
    }
    out
}

/// sort the elements of every `toi_reserved: {..}` set in a compact Debug string
pub fn canon_compact(txt: &str) -> String {
    const KEY: &str = "toi_reserved: {";
    let mut out = String::with_capacity(txt.len());
    let mut rest = txt;
    while let Some(i) = rest.find(KEY) {
        out.push_str(&rest[..i + KEY.len()]);
        let after = &rest[i + KEY.len()..];
        let j = after.find('}').unwrap_or(after.len());
        let mut items: Vec<&str> = after[..j].split(", ").filter(|x| !x.is_empty()).collect();
        items.sort();
        out.push_str(&items.join(", "));
        rest = &after[j..];
    }
    out.push_str(rest);
    out
}
