//! Independent LCT/ALC/FLUTE wire codec written from the RFC texts (5651, 5775, 6726, 5445, 5510,
//! 6330, 5053, 5052). Shares no code with flute: it is the oracle of C06/C08 and the packet
//! crafter of C04/C17/C19.
#![allow(dead_code)]

pub const EXT_NOP: u8 = 0;
pub const EXT_AUTH: u8 = 1;
pub const EXT_TIME: u8 = 2;
pub const EXT_FTI: u8 = 64;
pub const EXT_FDT: u8 = 192;
pub const EXT_CENC: u8 = 193;

pub const FEC_NOCODE: u8 = 0;
pub const FEC_RAPTOR: u8 = 1;
pub const FEC_RS2M: u8 = 2;
pub const FEC_RS28: u8 = 5;
pub const FEC_RAPTORQ: u8 = 6;
pub const FEC_SBS: u8 = 129; // small block systematic ("RS28 under-specified" in flute)

#[derive(Clone, Debug, PartialEq)]
pub struct Ext {
    pub het: u8,
    /// the whole extension, HET (and HEL) included
    pub bytes: Vec<u8>,
}

#[derive(Clone, Debug, PartialEq)]
pub struct RPkt {
    pub version: u8,
    pub c: u8,
    pub psi: u8,
    pub s: u8,
    pub o: u8,
    pub h: u8,
    pub res: u8,
    pub a: bool,
    pub b: bool,
    pub hdr_len_words: u8,
    pub cp: u8,
    pub cci: u128,
    pub tsi: u64,
    pub toi: u128,
    pub exts: Vec<Ext>,
    /// everything after the LCT header (FEC payload id + encoding symbol)
    pub rest: Vec<u8>,
}

fn be(b: &[u8]) -> u128 {
    let mut v = 0u128;
    for x in b {
        v = (v << 8) | *x as u128;
    }
    v
}

pub fn decode(d: &[u8]) -> Result<RPkt, String> {
    if d.len() < 4 {
        return Err("shorter than the fixed LCT word".into());
    }
    let version = d[0] >> 4;
    let c = (d[0] >> 2) & 3;
    let psi = d[0] & 3;
    let s = d[1] >> 7;
    let o = (d[1] >> 5) & 3;
    let h = (d[1] >> 4) & 1;
    let res = (d[1] >> 2) & 3;
    let a = (d[1] >> 1) & 1 == 1;
    let b = d[1] & 1 == 1;
    let hdr_len_words = d[2];
    let cp = d[3];
    let hdr_len = hdr_len_words as usize * 4;
    if hdr_len > d.len() {
        return Err("HDR_LEN beyond packet".into());
    }
    let cci_len = 4 * (c as usize + 1);
    let tsi_len = 4 * s as usize + 2 * h as usize;
    let toi_len = 4 * o as usize + 2 * h as usize;
    let mut p = 4;
    if p + cci_len + tsi_len + toi_len > hdr_len {
        return Err("CCI/TSI/TOI beyond HDR_LEN".into());
    }
    let cci = be(&d[p..p + cci_len]);
    p += cci_len;
    let tsi = be(&d[p..p + tsi_len]) as u64;
    p += tsi_len;
    let toi = be(&d[p..p + toi_len]);
    p += toi_len;
    let mut exts = Vec::new();
    while p < hdr_len {
        if hdr_len - p < 4 {
            return Err("trailing bytes in header".into());
        }
        let het = d[p];
        let len = if het >= 128 {
            4
        } else {
            let hel = d[p + 1] as usize;
            if hel == 0 {
                return Err("HEL 0".into());
            }
            hel * 4
        };
        if p + len > hdr_len {
            return Err("extension beyond HDR_LEN".into());
        }
        exts.push(Ext { het, bytes: d[p..p + len].to_vec() });
        p += len;
    }
    Ok(RPkt {
        version,
        c,
        psi,
        s,
        o,
        h,
        res,
        a,
        b,
        hdr_len_words,
        cp,
        cci,
        tsi,
        toi,
        exts,
        rest: d[hdr_len..].to_vec(),
    })
}

#[derive(Clone, Debug, PartialEq, Default)]
pub struct Fti {
    pub l: u64,
    pub e: u16,
    pub b: u32,
    pub max_n: u32,
    pub instance_id: u16,
    pub m: u8,
    pub g: u8,
    pub z: u32,
    pub n: u32,
    pub al: u8,
}

impl RPkt {
    pub fn ext(&self, het: u8) -> Option<&Ext> {
        self.exts.iter().find(|e| e.het == het)
    }
    /// (version, instance id)
    pub fn fdt(&self) -> Option<(u8, u32)> {
        self.ext(EXT_FDT).map(|e| {
            let w = be(&e.bytes) as u32;
            (((w >> 20) & 0xF) as u8, w & 0xFFFFF)
        })
    }
    pub fn cenc(&self) -> Option<u8> {
        self.ext(EXT_CENC).map(|e| e.bytes[1])
    }
    /// Sender Current Time as (NTP seconds, Option<fraction>) — RFC 5651 §5.2.2 "Use" bits
    pub fn sct(&self) -> Option<(u32, Option<u32>)> {
        let e = self.ext(EXT_TIME)?;
        if e.bytes.len() < 4 {
            return None;
        }
        let usef = ((e.bytes[2] as u16) << 8) | e.bytes[3] as u16;
        let hi = usef & 0x8000 != 0;
        let lo = usef & 0x4000 != 0;
        if !hi {
            return None;
        }
        if e.bytes.len() < 8 {
            return None;
        }
        let secs = be(&e.bytes[4..8]) as u32;
        let frac = if lo && e.bytes.len() >= 12 { Some(be(&e.bytes[8..12]) as u32) } else { None };
        Some((secs, frac))
    }
    /// EXT_FTI decoded for the packet's codepoint per the scheme RFC (`raptor_as_rfc5053` selects
    /// RFC 5053's layout for FEC ID 1; false = the RaptorQ-like layout flute emits)
    pub fn fti(&self, raptor_as_rfc5053: bool) -> Option<Result<Fti, String>> {
        let e = self.ext(EXT_FTI)?;
        Some(decode_fti(self.cp, &e.bytes, raptor_as_rfc5053))
    }
    /// (sbn, esi, source block length, bytes of payload id)
    pub fn payload_id(&self, m: u8) -> Result<(u32, u32, Option<u32>, usize), String> {
        let need = if self.cp == FEC_SBS { 8 } else { 4 };
        if self.rest.len() < need {
            return Err("no room for FEC payload id".into());
        }
        let w = be(&self.rest[..4]) as u32;
        Ok(match self.cp {
            FEC_NOCODE | FEC_RAPTOR => (w >> 16, w & 0xFFFF, None, 4),
            FEC_RS28 => (w >> 8, w & 0xFF, None, 4),
            FEC_RAPTORQ => (w >> 24, w & 0xFF_FFFF, None, 4),
            FEC_RS2M => {
                let m = m as u32;
                if m == 0 || m >= 32 {
                    return Err("bad m".into());
                }
                (w >> m, w & ((1u32 << m) - 1), None, 4)
            }
            FEC_SBS => {
                let w2 = be(&self.rest[4..8]) as u32;
                (w, w2 & 0xFFFF, Some(w2 >> 16), 8)
            }
            _ => return Err("unknown codepoint".into()),
        })
    }
    pub fn payload(&self) -> &[u8] {
        let n = if self.cp == FEC_SBS { 8 } else { 4 };
        if self.rest.len() >= n {
            &self.rest[n..]
        } else {
            &[]
        }
    }
}

pub fn decode_fti(cp: u8, x: &[u8], raptor_as_rfc5053: bool) -> Result<Fti, String> {
    let mut f = Fti::default();
    match cp {
        FEC_NOCODE => {
            if x.len() != 16 {
                return Err("len".into());
            }
            f.l = be(&x[2..8]) as u64;
            f.e = be(&x[10..12]) as u16;
            f.b = be(&x[12..16]) as u32;
        }
        FEC_SBS => {
            if x.len() != 16 {
                return Err("len".into());
            }
            f.l = be(&x[2..8]) as u64;
            f.instance_id = be(&x[8..10]) as u16;
            f.e = be(&x[10..12]) as u16;
            f.b = be(&x[12..14]) as u32;
            f.max_n = be(&x[14..16]) as u32;
        }
        FEC_RS28 => {
            if x.len() != 12 {
                return Err("len".into());
            }
            f.l = be(&x[2..8]) as u64;
            f.e = be(&x[8..10]) as u16;
            f.b = x[10] as u32;
            f.max_n = x[11] as u32;
        }
        FEC_RS2M => {
            if x.len() != 16 {
                return Err("len".into());
            }
            f.l = be(&x[2..8]) as u64;
            f.m = x[8];
            f.g = x[9];
            f.e = be(&x[10..12]) as u16;
            f.b = be(&x[12..14]) as u32;
            f.max_n = be(&x[14..16]) as u32;
        }
        FEC_RAPTORQ => {
            if x.len() != 16 {
                return Err("len".into());
            }
            f.l = be(&x[2..7]) as u64;
            f.e = be(&x[8..10]) as u16;
            f.z = x[10] as u32;
            f.n = be(&x[11..13]) as u32;
            f.al = x[13];
        }
        FEC_RAPTOR => {
            if x.len() != 16 {
                return Err("len".into());
            }
            if raptor_as_rfc5053 {
                f.l = be(&x[2..8]) as u64;
                f.e = be(&x[10..12]) as u16;
                f.z = be(&x[12..14]) as u32;
                f.n = x[14] as u32;
                f.al = x[15];
            } else {
                f.l = be(&x[2..7]) as u64;
                f.e = be(&x[8..10]) as u16;
                f.z = be(&x[10..12]) as u32;
                f.n = x[12] as u32;
                f.al = x[13];
            }
        }
        _ => return Err("unknown codepoint".into()),
    }
    Ok(f)
}

// ------------------------------------------------------------------------------------------------
// encoder

#[derive(Clone, Debug)]
pub struct Spec {
    pub version: u8,
    /// C flag: CCI is 32*(c+1) bits
    pub c: u8,
    pub psi: u8,
    pub s: u8,
    pub o: u8,
    pub h: u8,
    pub res: u8,
    pub a: bool,
    pub b: bool,
    pub cp: u8,
    pub cci: u128,
    pub tsi: u64,
    pub toi: u128,
    pub exts: Vec<Vec<u8>>,
    pub payload_id: Vec<u8>,
    pub payload: Vec<u8>,
    /// None = correct value
    pub hdr_len_override: Option<u8>,
}

impl Spec {
    /// smallest widths able to carry tsi and toi, C=0
    pub fn minimal(cp: u8, tsi: u64, toi: u128) -> Spec {
        let (s, o, h) = min_widths(tsi, toi);
        Spec {
            version: 1,
            c: 0,
            psi: 0,
            s,
            o,
            h,
            res: 0,
            a: false,
            b: false,
            cp,
            cci: 0,
            tsi,
            toi,
            exts: vec![],
            payload_id: vec![0, 0, 0, 0],
            payload: vec![],
            hdr_len_override: None,
        }
    }
}

fn bytes_needed(v: u128) -> usize {
    ((128 - v.leading_zeros() as usize) + 7) / 8
}

/// widths (S, O, H) such that TSI fits in 32S+16H bits and TOI in 32O+16H bits, smallest total
pub fn min_widths(tsi: u64, toi: u128) -> (u8, u8, u8) {
    let mut best: Option<(usize, (u8, u8, u8))> = None;
    for h in 0..2u8 {
        for s in 0..2u8 {
            for o in 0..4u8 {
                let tl = 4 * s as usize + 2 * h as usize;
                let ol = 4 * o as usize + 2 * h as usize;
                if bytes_needed(tsi as u128) <= tl && bytes_needed(toi) <= ol && ol >= 1 && tl >= 1 {
                    let tot = tl + ol;
                    if best.map(|b| tot < b.0).unwrap_or(true) {
                        best = Some((tot, (s, o, h)));
                    }
                }
            }
        }
    }
    best.map(|b| b.1).unwrap_or((1, 3, 1))
}

pub fn encode(sp: &Spec) -> Vec<u8> {
    let cci_len = 4 * (sp.c as usize + 1);
    let tsi_len = 4 * sp.s as usize + 2 * sp.h as usize;
    let toi_len = 4 * sp.o as usize + 2 * sp.h as usize;
    let ext_len: usize = sp.exts.iter().map(|e| e.len()).sum();
    let hdr = 4 + cci_len + tsi_len + toi_len + ext_len;
    let mut d = Vec::with_capacity(hdr + sp.payload_id.len() + sp.payload.len());
    d.push((sp.version << 4) | ((sp.c & 3) << 2) | (sp.psi & 3));
    d.push(((sp.s & 1) << 7) | ((sp.o & 3) << 5) | ((sp.h & 1) << 4) | ((sp.res & 3) << 2) | ((sp.a as u8) << 1) | sp.b as u8);
    d.push(sp.hdr_len_override.unwrap_or((hdr / 4) as u8));
    d.push(sp.cp);
    d.extend_from_slice(&sp.cci.to_be_bytes()[16 - cci_len..]);
    d.extend_from_slice(&sp.tsi.to_be_bytes()[8 - tsi_len..]);
    d.extend_from_slice(&sp.toi.to_be_bytes()[16 - toi_len..]);
    for e in &sp.exts {
        d.extend_from_slice(e);
    }
    d.extend_from_slice(&sp.payload_id);
    d.extend_from_slice(&sp.payload);
    d
}

pub fn ext_fdt(version: u8, id: u32) -> Vec<u8> {
    (((EXT_FDT as u32) << 24) | ((version as u32 & 0xF) << 20) | (id & 0xFFFFF)).to_be_bytes().to_vec()
}
pub fn ext_cenc(c: u8) -> Vec<u8> {
    vec![EXT_CENC, c, 0, 0]
}
/// EXT_TIME with SCT-High (and SCT-Low when `frac` is Some)
pub fn ext_time(secs: u32, frac: Option<u32>) -> Vec<u8> {
    let mut usef: u16 = 0x8000;
    let mut hel = 2u8;
    if frac.is_some() {
        usef |= 0x4000;
        hel = 3;
    }
    let mut v = vec![EXT_TIME, hel, (usef >> 8) as u8, usef as u8];
    v.extend_from_slice(&secs.to_be_bytes());
    if let Some(f) = frac {
        v.extend_from_slice(&f.to_be_bytes());
    }
    v
}
/// EXT_TIME in full (RFC 5651 5.2.2): SCT-High, then optionally SCT-Low, ERT, SLC, in that order
pub fn ext_time_full(secs: u32, frac: Option<u32>, ert: Option<u32>, slc: Option<u32>) -> Vec<u8> {
    let mut usef: u16 = 0x8000;
    let mut words: Vec<u32> = vec![secs];
    if let Some(f) = frac {
        usef |= 0x4000;
        words.push(f);
    }
    if let Some(e) = ert {
        usef |= 0x2000;
        words.push(e);
    }
    if let Some(c) = slc {
        usef |= 0x1000;
        words.push(c);
    }
    let mut v = vec![EXT_TIME, 1 + words.len() as u8, (usef >> 8) as u8, usef as u8];
    for w in words {
        v.extend_from_slice(&w.to_be_bytes());
    }
    v
}
/// unknown variable-length extension of `hel` words (hel >= 1)
pub fn ext_unknown_var(het: u8, hel: u8, fill: u8) -> Vec<u8> {
    assert!(het < 128 && hel >= 1);
    let mut v = vec![het, hel];
    v.resize(hel as usize * 4, fill);
    v
}
pub fn ext_unknown_fixed(het: u8, fill: u8) -> Vec<u8> {
    assert!(het >= 128);
    vec![het, fill, fill, fill]
}

fn u48(v: u64) -> [u8; 6] {
    let b = v.to_be_bytes();
    [b[2], b[3], b[4], b[5], b[6], b[7]]
}

pub fn fti_nocode(l: u64, e: u16, b: u32) -> Vec<u8> {
    let mut v = vec![EXT_FTI, 4];
    v.extend_from_slice(&u48(l));
    v.extend_from_slice(&[0, 0]);
    v.extend_from_slice(&e.to_be_bytes());
    v.extend_from_slice(&b.to_be_bytes());
    v
}
pub fn fti_sbs(l: u64, inst: u16, e: u16, b: u16, max_n: u16) -> Vec<u8> {
    let mut v = vec![EXT_FTI, 4];
    v.extend_from_slice(&u48(l));
    v.extend_from_slice(&inst.to_be_bytes());
    v.extend_from_slice(&e.to_be_bytes());
    v.extend_from_slice(&b.to_be_bytes());
    v.extend_from_slice(&max_n.to_be_bytes());
    v
}
pub fn fti_rs28(l: u64, e: u16, b: u8, max_n: u8) -> Vec<u8> {
    let mut v = vec![EXT_FTI, 3];
    v.extend_from_slice(&u48(l));
    v.extend_from_slice(&e.to_be_bytes());
    v.push(b);
    v.push(max_n);
    v
}
pub fn fti_rs2m(l: u64, m: u8, g: u8, e: u16, b: u16, max_n: u16) -> Vec<u8> {
    let mut v = vec![EXT_FTI, 4];
    v.extend_from_slice(&u48(l));
    v.push(m);
    v.push(g);
    v.extend_from_slice(&e.to_be_bytes());
    v.extend_from_slice(&b.to_be_bytes());
    v.extend_from_slice(&max_n.to_be_bytes());
    v
}
pub fn fti_raptorq(f: u64, t: u16, z: u8, n: u16, al: u8) -> Vec<u8> {
    let mut v = vec![EXT_FTI, 4];
    v.extend_from_slice(&f.to_be_bytes()[3..8]);
    v.push(0);
    v.extend_from_slice(&t.to_be_bytes());
    v.push(z);
    v.extend_from_slice(&n.to_be_bytes());
    v.push(al);
    v.extend_from_slice(&[0, 0]);
    v
}
/// the layout flute uses for FEC ID 1 (RaptorQ-like, 40-bit F)
pub fn fti_raptor_flute(f: u64, t: u16, z: u16, n: u8, al: u8) -> Vec<u8> {
    let mut v = vec![EXT_FTI, 4];
    v.extend_from_slice(&f.to_be_bytes()[3..8]);
    v.push(0);
    v.extend_from_slice(&t.to_be_bytes());
    v.extend_from_slice(&z.to_be_bytes());
    v.push(n);
    v.push(al);
    v.extend_from_slice(&[0, 0]);
    v
}
/// RFC 5053 §3.2.2/3.2.3 layout for FEC ID 1
pub fn fti_raptor_rfc(f: u64, t: u16, z: u16, n: u8, al: u8) -> Vec<u8> {
    let mut v = vec![EXT_FTI, 4];
    v.extend_from_slice(&u48(f));
    v.extend_from_slice(&[0, 0]);
    v.extend_from_slice(&t.to_be_bytes());
    v.extend_from_slice(&z.to_be_bytes());
    v.push(n);
    v.push(al);
    v
}

pub fn pid(cp: u8, sbn: u32, esi: u32, sbl: u32, m: u8) -> Vec<u8> {
    match cp {
        FEC_NOCODE | FEC_RAPTOR => (((sbn & 0xFFFF) << 16) | (esi & 0xFFFF)).to_be_bytes().to_vec(),
        FEC_RS28 => (((sbn & 0xFF_FFFF) << 8) | (esi & 0xFF)).to_be_bytes().to_vec(),
        FEC_RAPTORQ => (((sbn & 0xFF) << 24) | (esi & 0xFF_FFFF)).to_be_bytes().to_vec(),
        FEC_RS2M => {
            let m = (m as u32).clamp(1, 31);
            ((sbn << m) | (esi & ((1u32 << m) - 1))).to_be_bytes().to_vec()
        }
        FEC_SBS => {
            let mut v = sbn.to_be_bytes().to_vec();
            v.extend_from_slice(&(((sbl & 0xFFFF) << 16) | (esi & 0xFFFF)).to_be_bytes());
            v
        }
        _ => vec![0, 0, 0, 0],
    }
}

// ------------------------------------------------------------------------------------------------
// RFC 5052 §9.1 block partitioning, 128-bit reference

#[derive(Clone, Copy, Debug, PartialEq)]
pub struct Partition {
    pub t: u128,
    pub n: u128,
    pub a_large: u128,
    pub a_small: u128,
    pub nb_large: u128,
}
pub fn partition(b: u128, l: u128, e: u128) -> Option<Partition> {
    if b == 0 || e == 0 {
        return None;
    }
    let t = l.div_ceil(e);
    let n = t.div_ceil(b);
    if n == 0 {
        return Some(Partition { t, n, a_large: 0, a_small: 0, nb_large: 0 });
    }
    let a_large = t.div_ceil(n);
    let a_small = t / n;
    let nb_large = t - a_small * n;
    Some(Partition { t, n, a_large, a_small, nb_large })
}
impl Partition {
    pub fn symbols_of(&self, sbn: u128) -> u128 {
        if sbn < self.nb_large {
            self.a_large
        } else {
            self.a_small
        }
    }
    /// number of symbols before block sbn
    pub fn symbols_before(&self, sbn: u128) -> u128 {
        if sbn <= self.nb_large {
            sbn * self.a_large
        } else {
            self.nb_large * self.a_large + (sbn - self.nb_large) * self.a_small
        }
    }
    /// byte length of block sbn for transfer length l, symbol size e
    pub fn block_bytes(&self, sbn: u128, l: u128, e: u128) -> u128 {
        let start = self.symbols_before(sbn) * e;
        let end = (self.symbols_before(sbn + 1) * e).min(l);
        end.saturating_sub(start)
    }
}

/// NTP <-> unix helpers (era 0)
pub fn ntp_secs_to_unix(secs: u32) -> i64 {
    secs as i64 - 2_208_988_800
}
pub fn sct_to_unix_micros(secs: u32, frac: Option<u32>) -> i128 {
    let us = frac.map(|f| (f as u128 * 1_000_000u128) >> 32).unwrap_or(0);
    ntp_secs_to_unix(secs) as i128 * 1_000_000 + us as i128
}
