//! C07 — block partitioning equals RFC 5052 §9.1 for all (L, E, B); both ends agree; no overflow.
//! Engine: exhaustive grid (E4) over the real partition functions against a 128-bit reference.
use crate::report::*;
use crate::rfc;
use crate::sess::*;
use crate::util::*;
use flute::verif::{block_length, block_partitioning};
use serde_json::json;
use std::time::Duration;

/// returns Some((signature, description)) for the first disagreement on this triple
pub fn check_triple(b: u64, e: u64, l: u64, all_sbn: bool) -> Option<(String, String)> {
    let r = match catch(|| block_partitioning(b, l, e)) {
        Ok(r) => r,
        Err(p) => return Some((format!("C07/panic/{}", panic_sig(&p)), format!("block_partitioning({},{},{}) panicked: {}", b, l, e, p))),
    };
    let refp = rfc::partition(b as u128, l as u128, e as u128).unwrap();
    let (a_large, a_small, nb_a_large, nb_blocks) = r;
    let bad = |what: &str| Some((format!("C07/partition/{}", what), format!("B={} E={} L={}: flute (a_large,a_small,nb_large,n)={:?}, RFC 5052 gives ({},{},{},{})", b, e, l, r, refp.a_large, refp.a_small, refp.nb_large, refp.n)));
    if nb_blocks as u128 != refp.n {
        return bad("nb_blocks");
    }
    if refp.n == 0 {
        return None;
    }
    if a_large as u128 != refp.a_large {
        return bad("a_large");
    }
    if a_small as u128 != refp.a_small {
        return bad("a_small");
    }
    // number of large blocks: when T % N == 0 every block has a_large == a_small symbols, so any
    // split is the same partition; otherwise it must be T - N*a_small
    if refp.a_large != refp.a_small && nb_a_large as u128 != refp.nb_large {
        return bad("nb_a_large");
    }
    // covering: sum of symbols == T, no block above B
    let total = nb_a_large as u128 * a_large as u128 + (nb_blocks as u128 - nb_a_large as u128) * a_small as u128;
    if total != refp.t {
        return bad("symbols-do-not-sum-to-T");
    }
    if a_large > b {
        return bad("block-above-B");
    }
    // byte lengths: every sbn (or the first/last 2048 of them for huge N)
    let n = nb_blocks;
    let sbns: Vec<u64> = if all_sbn || n <= 8192 {
        (0..n).collect()
    } else {
        // first and last 2048 blocks and the blocks around the large/small boundary
        let mid = nb_a_large.clamp(2048 + 3, n - 2048 - 3);
        (0..2048).chain(mid - 3..mid + 3).chain(n - 2048..n).collect()
    };
    let mut sum: u128 = 0;
    for sbn in &sbns {
        if *sbn > u32::MAX as u64 {
            break;
        }
        let got = match catch(|| block_length(a_large, a_small, nb_a_large, l, e, *sbn as u32)) {
            Ok(g) => g,
            Err(p) => return Some((format!("C07/panic/{}", panic_sig(&p)), format!("block_length(B={},E={},L={},sbn={}) panicked: {}", b, e, l, sbn, p))),
        };
        let exp = refp.block_bytes(*sbn as u128, l as u128, e as u128);
        if got as u128 != exp {
            return Some((
                "C07/block_length".into(),
                format!("B={} E={} L={} sbn={}: block_length {} but the RFC partition gives {} bytes (only the last block may be short)", b, e, l, sbn, got, exp),
            ));
        }
        sum += got as u128;
    }
    if sbns.len() as u64 == n && sum != l as u128 {
        return Some(("C07/block-lengths-do-not-sum-to-L".into(), format!("B={} E={} L={}: sum of block lengths {}", b, e, l, sum)));
    }
    None
}

pub fn run(thorough: bool) -> i32 {
    let mut rep = Report::new("C07", "exploration", if thorough { "thorough" } else { "quick" });
    let (bm, em, lm) = if thorough { (200u64, 48u64, 12000u64) } else { (32, 12, 1500) };
    // small grid: one work item per (B, E)
    let mut items: Vec<(u64, u64)> = Vec::new();
    for b in 1..=bm {
        for e in 1..=em {
            items.push((b, e));
        }
    }
    let items = std::sync::Arc::new(items);
    let res = par_map_wd(
        items.clone(),
        Duration::from_secs(120),
        move |_, (b, e)| {
            let mut first: Option<(String, String, (u64, u64, u64))> = None;
            let mut n = 0u64;
            let mut multi = 0u64;
            let mut rq = 0u64;
            for l in 0..=lm {
                n += 1;
                if let Some((k, w)) = check_triple(*b, *e, l, true) {
                    if first.is_none() {
                        first = Some((k, w, (*b, *e, l)));
                    }
                }
                let p = rfc::partition(*b as u128, l as u128, *e as u128).unwrap();
                if p.n > 1 && p.a_large != p.a_small {
                    multi += 1;
                }
                if l % 4 == 1 || l < 64 {
                    for cp in [0u8, 5, 129] {
                        if let Some((k, w)) = plain_fti_roundtrip(cp, *b, *e, l) {
                            if first.is_none() {
                                first = Some((k, w, (*b, *e, l)));
                            }
                        }
                    }
                }
                for q in [true, false] {
                    if let Some((k, w, did)) = raptor_roundtrip(*b, *e, l, q) {
                        if did {
                            rq += 1;
                        }
                        if let Some(k) = k {
                            if first.is_none() {
                                first = Some((k, w, (*b, *e, l)));
                            }
                        }
                    }
                }
            }
            (n, multi, rq, first)
        },
        |_, (b, e)| (0, 0, 0, Some(("C07/hang".into(), "partition sweep did not finish".into(), (*b, *e, 0)))),
    );
    let mut evals = 0u64;
    let mut multi = 0u64;
    let mut rq = 0u64;
    for (n, m, r, first) in res {
        evals += n;
        multi += m;
        rq += r;
        if let Some((k, w, (b, e, l))) = first {
            rep.add(Violation { key: k, what: w, case: json!({"check": "triple", "case": {"b": b, "e": e, "l": l}}) });
        }
    }
    // boundary grid in full
    let bs: [u64; 10] = [1, 2, 3, 254, 255, 256, 65535, 65536, 1 << 31, (1 << 32) - 1];
    let es: [u64; 7] = [1, 2, 3, 1423, 1424, 65534, 65535];
    let mut ls: Vec<u64> = vec![0, 1, (1 << 48) - 1];
    for k in [8u32, 16, 24, 32, 40, 47] {
        ls.extend([(1u64 << k) - 1, 1u64 << k, (1u64 << k) + 1]);
    }
    let mut bcases = Vec::new();
    for b in bs {
        for e in es {
            for l in &ls {
                bcases.push((b, e, *l));
            }
        }
    }
    // structured mid-range grid: T = ceil(L/E) around the multiples of B (where a_large / a_small and the
    // number of large blocks change), with L at, just below and just above a symbol boundary
    for b in [1u64, 2, 3, 5, 8, 13, 64, 255, 256, 1000, 8192, 65535, 65536, 1 << 20] {
        for e in [1u64, 2, 7, 16, 512, 1424, 1500, 8192, 65535] {
            let mut ts: Vec<u64> = Vec::new();
            if b <= 64 && thorough {
                ts.extend(0..=(5 * b + 3));
            } else {
                for m in [1u64, 2, 3, 7, 255, 256, 257, 4095, 4096, 4097, 65535, 65536] {
                    for d in [-2i64, -1, 0, 1, 2] {
                        let t = (b as i128 * m as i128 + d as i128).max(0) as u128;
                        if t * (e as u128) < (1u128 << 48) {
                            ts.push(t as u64);
                        }
                    }
                }
            }
            for t in ts {
                for r in [0u64, 1, e - 1, e / 2] {
                    // L with ceil(L/E) == t: (t-1)*E + r', r' in 1..=E
                    if t == 0 {
                        bcases.push((b, e, 0));
                        break;
                    }
                    let l = (t - 1) * e + (r % e) + 1;
                    if l < (1u64 << 48) {
                        bcases.push((b, e, l));
                    }
                }
            }
        }
    }
    bcases.sort();
    bcases.dedup();
    let nb = bcases.len() as u64;
    let bres = par_map(&bcases, |_, (b, e, l)| {
        let mut v = check_triple(*b, *e, *l, false);
        if v.is_none() {
            for q in [true, false] {
                if let Some((Some(k), w, _)) = raptor_roundtrip(*b, *e, *l, q) {
                    v = Some((k, w));
                }
            }
        }
        if v.is_none() {
            for cp in [0u8, 5, 129] {
                if let Some(x) = plain_fti_roundtrip(cp, *b, *e, *l) {
                    v = Some(x);
                }
            }
        }
        v
    });
    for ((b, e, l), r) in bcases.iter().zip(bres) {
        if let Some((k, w)) = r {
            rep.add(Violation { key: format!("{}/boundary", k), what: w, case: json!({"check": "triple", "case": {"b": b, "e": e, "l": l}}) });
        }
    }
    // sender packet structure on a small grid (real Sender, independent decode)
    let mut scases = Vec::new();
    for b in 1..=5u16 {
        for e in 1..=4u16 {
            for l in 0..=(if thorough { 200 } else { 45 }) {
                scases.push((b, e, l as usize));
            }
        }
    }
    let ns = scases.len() as u64;
    let sres = par_map(&scases, |_, (b, e, l)| sender_structure(*b, *e, *l));
    for ((b, e, l), r) in scases.iter().zip(sres) {
        if let Some((k, w)) = r {
            rep.add(Violation { key: k, what: w, case: json!({"check": "sender", "case": {"b": b, "e": e, "l": l}}) });
        }
    }
    // both ends on real sessions with object-level Raptor(Q) OTIs
    let mut acases = Vec::new();
    for scheme in [Scheme::RaptorQ, Scheme::Raptor] {
        for sess_kind in 0..3u8 {
            for (b, e) in [(2u16, 4u16), (3, 2), (4, 4), (5, 2), (8, 1)] {
                if scheme == Scheme::Raptor && b < 4 {
                    continue;
                }
                for l in 1..=(if thorough { 9 } else { 5 }) * b as usize * e as usize + 1 {
                    acases.push((scheme, sess_kind, b, e, l, 0u8));
                }
            }
        }
    }
    // content-encoded objects: the transfer length (not the content length) is what is partitioned and
    // signalled; compressible text of 1..600 bytes, so that the two lengths give different partitions
    for scheme in [Scheme::NoCode, Scheme::RaptorQ, Scheme::Raptor, Scheme::Rs28] {
        for cenc in 1..=3u8 {
            for (b, e) in [(4u16, 8u16), (5, 4), (16, 4)] {
                for l in (1..=600usize).step_by(if thorough { 7 } else { 37 }) {
                    acases.push((scheme, (l % 3) as u8, b, e, l, cenc));
                }
            }
        }
    }
    // interleaved blocks of two different lengths, every scheme (FEC 129 announces the length of each block in its
    // payload ids; the others derive it from the partition)
    for scheme in [Scheme::NoCode, Scheme::Rs28, Scheme::Rs28Us, Scheme::RaptorQ, Scheme::Raptor] {
        for sess_kind in [3u8, 4] {
            for (b, e) in [(5u16, 4u16), (4, 2), (7, 1)] {
                for l in 1..=(if thorough { 6 } else { 4 }) * b as usize * e as usize + 1 {
                    acases.push((scheme, sess_kind, b, e, l, 0u8));
                }
            }
        }
    }
    // stream sources handed over at a non-zero position, no MD5
    for scheme in [Scheme::NoCode, Scheme::Rs28, Scheme::Rs28Us, Scheme::RaptorQ, Scheme::Raptor] {
        for (b, e) in [(5u16, 4u16), (4, 2)] {
            for l in 2..=3 * b as usize * e as usize + 1 {
                acases.push((scheme, 5u8, b, e, l, 0u8));
            }
        }
    }
    // many-block objects: block counts around the receiver's pre-allocation limits (2048 and 2 x 2048 blocks),
    // the sender cuts N blocks and the receiver must believe in N as well
    for scheme in [Scheme::NoCode, Scheme::Rs28, Scheme::Rs28Us, Scheme::RaptorQ, Scheme::Raptor] {
        let (b, e) = if scheme == Scheme::Raptor { (4u16, 1u16) } else { (1, 1) };
        let counts: &[usize] = if thorough { &[2047, 2048, 2049, 2050, 3000, 4095, 4096, 4097, 4098, 6145, 8193] } else { &[2048, 2049, 4097] };
        for &n in counts {
            acases.push((scheme, 0u8, b, e, n * b as usize, 0u8));
            if thorough {
                acases.push((scheme, 0u8, b, e, n * b as usize - 1, 0u8));
            }
        }
    }
    let na = acases.len() as u64;
    let ares = par_map(&acases, |_, (sc, sk, b, e, l, ce)| sender_receiver_agree(*sc, *sk, *b, *e, *l, *ce));
    for ((sc, sk, b, e, l, ce), r) in acases.iter().zip(ares) {
        if let Some((k, w)) = r {
            rep.add(Violation { key: k, what: w, case: json!({"check": "agree", "case": {"scheme": sc, "sess_kind": sk, "b": b, "e": e, "l": l, "cenc": ce}}) });
        }
    }
    rep.cov("sender_receiver_agreement_sessions", na);
    rep.cov("evaluations", evals + nb + ns + na);
    rep.cov("distinct_nontrivial", multi);
    rep.cov("rule", format!("every (B,E,L) with B<={} E<={} L<={} plus the full boundary grid (B up to 2^32-1, E up to 65535, L up to 2^48-1) evaluated on the real block_partitioning/block_length against a u128 RFC 5052 reference, every sbn of every triple; RaptorQ/Raptor B reconstructed by the real EXT_FTI builder+parser; sender packet structure on B<=5,E<=4. Non-trivial = more than one block with unequal sizes; all triples distinct by construction", bm, em, lm));
    rep.cov("exhaustive", true);
    rep.cov("small_grid_triples", evals);
    rep.cov("boundary_grid_triples", nb);
    rep.cov("sender_structure_sessions", ns);
    rep.guard("unequal_multiblock_triples", multi);
    rep.guard("raptor_fti_roundtrips", rq);
    rep.sample(json!({"b": 3, "e": 4, "l": 37, "reference": format!("{:?}", rfc::partition(3, 37, 4))}));
    rep.sample(json!({"b": 4294967295u64, "e": 65535, "l": 281474976710655u64}));
    rep.finish()
}

/// (violation key?, description, performed?) — builds a real RaptorQ/Raptor packet carrying (F,Z,T)
/// with flute's builder, parses it with flute's parser and partitions with the B it reconstructs
fn raptor_roundtrip(b: u64, e: u64, l: u64, raptorq: bool) -> Option<(Option<String>, String, bool)> {
    if e == 0 || e > 65535 || b == 0 || b > 65535 || l == 0 {
        return None;
    }
    let refp = rfc::partition(b as u128, l as u128, e as u128)?;
    let zmax: u128 = if raptorq { 255 } else { 65535 };
    if refp.n == 0 || refp.n > zmax || l as u128 > (1u128 << 40) - 1 {
        return None;
    }
    // build the EXT_FTI with the harness codec in flute's layout, Z = N
    let fti = if raptorq { rfc::fti_raptorq(l, e as u16, refp.n as u8, 1, 1) } else { rfc::fti_raptor_flute(l, e as u16, refp.n as u16, 1, 1) };
    let mut sp = rfc::Spec::minimal(if raptorq { 6 } else { 1 }, 1, 1);
    sp.exts = vec![fti];
    sp.payload = vec![0; 1];
    let bytes = rfc::encode(&sp);
    let r = catch(|| {
        let pkt = flute::core::alc::parse_alc_pkt(&bytes).map_err(|e| e.0.to_string())?;
        let oti = pkt.oti.clone().ok_or("no oti".to_string())?;
        Ok::<_, String>((oti.maximum_source_block_length as u64, pkt.transfer_length))
    });
    let name = if raptorq { "RaptorQ" } else { "Raptor" };
    match r {
        Err(p) => Some((Some(format!("C07/panic/{}", panic_sig(&p))), format!("{} FTI (F={},Z={},T={}) panicked: {}", name, l, refp.n, e, p), true)),
        Ok(Err(er)) => Some((Some(format!("C07/raptor-fti-rejected/{}", name)), format!("{} FTI (F={},Z={},T={}) rejected: {}", name, l, refp.n, e, er), true)),
        Ok(Ok((b2, tl))) => {
            if tl != Some(l) {
                return Some((Some(format!("C07/raptor-fti-length/{}", name)), format!("F={} parsed as {:?}", l, tl), true));
            }
            let got = block_partitioning(b2, l, e);
            let same = got.3 as u128 == refp.n && got.0 as u128 == refp.a_large && got.1 as u128 == refp.a_small && (refp.a_large == refp.a_small || got.2 as u128 == refp.nb_large);
            if !same {
                Some((
                    Some(format!("C07/receiver-partition-differs/{}", name)),
                    format!("{} B={} E={} L={}: receiver reconstructs B'={} from (F,Z={},T) and partitions {:?}; sender has ({},{},{},{})", name, b, e, l, b2, refp.n, got, refp.a_large, refp.a_small, refp.nb_large, refp.n),
                    true,
                ))
            } else {
                Some((None, String::new(), true))
            }
        }
    }
}

/// the receiver's side for the schemes that carry B itself: EXT_FTI built by the independent codec,
/// parsed by flute, partition computed from what flute parsed (B up to 2^32-1 for No-Code)
fn plain_fti_roundtrip(cp: u8, b: u64, e: u64, l: u64) -> Option<(String, String)> {
    let bmax: u64 = match cp {
        0 => u32::MAX as u64,
        5 => 255,
        _ => 65535,
    };
    if e == 0 || e > 65535 || b == 0 || b > bmax || l == 0 || l >= (1u64 << 48) {
        return None;
    }
    let refp = rfc::partition(b as u128, l as u128, e as u128)?;
    let fti = match cp {
        0 => rfc::fti_nocode(l, e as u16, b as u32),
        5 => rfc::fti_rs28(l, e as u16, b as u8, 255),
        _ => rfc::fti_sbs(l, 0, e as u16, b as u16, 65535),
    };
    let mut sp = rfc::Spec::minimal(cp, 1, 1);
    sp.exts = vec![fti];
    sp.payload = vec![0; 1];
    if cp == 129 {
        sp.payload_id = vec![0, 0, 0, 0, 0, 1, 0, 0]; // 32-bit SBN, 16-bit source block length, 16-bit ESI
    }
    let bytes = rfc::encode(&sp);
    let r = catch(|| {
        let pkt = flute::core::alc::parse_alc_pkt(&bytes).map_err(|e| e.0.to_string())?;
        let oti = pkt.oti.clone().ok_or("no oti".to_string())?;
        Ok::<_, String>((oti.maximum_source_block_length as u64, oti.encoding_symbol_length as u64, pkt.transfer_length))
    });
    let name = match cp {
        0 => "NoCode",
        5 => "RS28",
        _ => "RS28-underspecified",
    };
    match r {
        Err(p) => Some((format!("C07/panic/{}", panic_sig(&p)), format!("{} FTI (L={},E={},B={}) panicked: {}", name, l, e, b, p))),
        Ok(Err(er)) => Some((format!("C07/fti-rejected/{}", name), format!("{} FTI (L={},E={},B={}) rejected: {}", name, l, e, b, er))),
        Ok(Ok((b2, e2, tl))) => {
            if tl != Some(l) || e2 != e {
                return Some((format!("C07/fti-fields/{}", name), format!("{} FTI (L={},E={},B={}) parsed as L={:?} E={}", name, l, e, b, tl, e2)));
            }
            if b2 == 0 {
                return Some((format!("C07/receiver-partition-differs/{}", name), format!("{} B={} E={} L={}: receiver takes B'=0 from the EXT_FTI", name, b, e, l)));
            }
            let got = block_partitioning(b2, l, e);
            let same = got.3 as u128 == refp.n && got.0 as u128 == refp.a_large && got.1 as u128 == refp.a_small && (refp.a_large == refp.a_small || got.2 as u128 == refp.nb_large);
            if !same {
                Some((format!("C07/receiver-partition-differs/{}", name), format!("{} B={} E={} L={}: receiver takes B'={} from the EXT_FTI and partitions {:?}; sender has ({},{},{},{})", name, b, e, l, b2, got, refp.a_large, refp.a_small, refp.nb_large, refp.n)))
            } else {
                None
            }
        }
    }
}

/// the (SBN, ESI) structure and payload sizes of a real No-Code sender match the reference
fn sender_structure(b: u16, e: u16, l: usize) -> Option<(String, String)> {
    let mut o = ObjSpec::simple(l, 4);
    o.oti = Some(OtiSpec::new(Scheme::NoCode, e, b, 0, true));
    let spec = crate::chan::RecSpec { sess: SessSpec::basic(OtiSpec::new(Scheme::NoCode, 1424, 64, 0, true)), objs: vec![o], polls_ms: vec![0] };
    let rec = match catch(|| crate::chan::record(&spec)) {
        Ok(Ok(r)) => r,
        Ok(Err(er)) => {
            // refusal is legitimate only above the scheme maximum
            if (l as u128) <= e as u128 * b as u128 * 65535 {
                return Some(("C07/sender-refused".into(), format!("B={} E={} L={}: {}", b, e, l, er)));
            }
            return None;
        }
        Err(p) => return Some((format!("C07/panic/{}", panic_sig(&p)), format!("sender B={} E={} L={} panicked: {}", b, e, l, p))),
    };
    let refp = rfc::partition(b as u128, l as u128, e as u128).unwrap();
    let toi = rec.objs[0].0;
    let mut per: std::collections::BTreeMap<u32, Vec<(u32, usize)>> = Default::default();
    for i in rec.obj_idx(toi) {
        per.entry(rec.info[i].sbn).or_default().push((rec.info[i].esi, rec.info[i].payload_len));
    }
    if l == 0 {
        return None;
    }
    if per.len() as u128 != refp.n {
        return Some(("C07/sender-block-count".into(), format!("B={} E={} L={}: {} blocks on the wire, reference {}", b, e, l, per.len(), refp.n)));
    }
    for (sbn, syms) in &per {
        let k = refp.symbols_of(*sbn as u128) as usize;
        if syms.len() != k {
            return Some(("C07/sender-block-size".into(), format!("B={} E={} L={}: block {} has {} symbols on the wire, reference {}", b, e, l, sbn, syms.len(), k)));
        }
        let bytes: usize = syms.iter().map(|s| s.1).sum();
        if bytes as u128 != refp.block_bytes(*sbn as u128, l as u128, e as u128) {
            return Some(("C07/sender-block-bytes".into(), format!("B={} E={} L={}: block {} carries {} bytes", b, e, l, sbn, bytes)));
        }
    }
    None
}


/// Both ends on a real session: an object with its OWN Raptor(Q) OTI in a session whose default OTI is
/// another one. The block structure on the wire must be the reference partition of the object's
/// (B, E, L), and the partition the receiver derives from the in-band EXT_FTI of the object's packets
/// (parsed by flute's own parser) must be the same.
fn sender_receiver_agree(scheme: Scheme, sess_kind: u8, b: u16, e: u16, l: usize, cenc: u8) -> Option<(String, String)> {
    let mut o = ObjSpec::simple(l, 4);
    o.oti = Some(OtiSpec::new(scheme, e, b, if scheme == Scheme::NoCode { 0 } else { 1 }, true));
    o.cenc = cenc;
    o.text = cenc != 0;
    o.inband_cenc = true;
    // session kind 5: the object comes from a stream handed over in the middle, without MD5 pass (the length that is
    // announced and partitioned is the whole stream's)
    if sess_kind == 5 {
        o.source = Source::Stream(3);
        o.stream_start = 2;
        o.md5 = false;
    }
    let default = match sess_kind {
        0 | 3 | 4 | 5 => OtiSpec::new(Scheme::NoCode, 1424, 64, 0, true),
        1 => OtiSpec::new(scheme, e, b * 3 + 1, 1, true),
        _ => OtiSpec::new(scheme, e * 2, b, 1, true),
    };
    let mut sess = SessSpec::basic(default);
    // session kinds 3 and 4: two / three source blocks open at once (the packets of one block are emitted while a
    // later block is already loaded)
    sess.interleave = match sess_kind {
        3 => 2,
        4 => 3,
        _ => 1,
    };
    let spec = crate::chan::RecSpec { sess, objs: vec![o], polls_ms: vec![0] };
    let rec = match catch(|| crate::chan::record(&spec)) {
        Ok(Ok(r)) => r,
        Ok(Err(_)) => return None, // refusals (Raptor blocks of 2-3 symbols ...) are C01's business
        Err(p) => return Some((format!("C07/panic/{}", panic_sig(&p)), format!("sender {:?} B={} E={} L={} panicked: {}", scheme, b, e, l, p))),
    };
    if l == 0 {
        return None;
    }
    // the object on the wire is the transfer-encoded one: its length is what both ends partition
    let content_len = l;
    let l = rec.objs[0].2 as usize;
    let _ = content_len;
    let refp = rfc::partition(b as u128, l as u128, e as u128).unwrap();
    let toi = rec.objs[0].0;
    let mut per: std::collections::BTreeMap<u32, std::collections::BTreeSet<u32>> = Default::default();
    for i in rec.obj_idx(toi) {
        let k = refp.symbols_of(rec.info[i].sbn as u128) as u32;
        if rec.info[i].esi < k.max(1) || refp.n <= rec.info[i].sbn as u128 {
            per.entry(rec.info[i].sbn).or_default().insert(rec.info[i].esi);
        }
    }
    let name = format!("{:?}", scheme);
    // FEC 129 carries the source block length in every payload id: it is the reference size of THAT block
    if scheme == Scheme::Rs28Us {
        for i in rec.obj_idx(toi) {
            if let Ok(r) = rfc::decode(&rec.pkts[i].1) {
                if let Ok((sbn, _, Some(sbl), _)) = r.payload_id(8) {
                    let k = refp.symbols_of(sbn as u128) as u32;
                    if sbl != k {
                        return Some((format!("C07/sender-source-block-length-field/{}", name), format!("{} B={} E={} L={} (session kind {}): a packet of block {} announces a source block length of {}, the block has {} source symbols", name, b, e, l, sess_kind, sbn, sbl, k)));
                    }
                }
            }
        }
    }
    if per.len() as u128 != refp.n {
        return Some((format!("C07/sender-block-count/{}", name), format!("{} B={} E={} L={} (session default kind {}): {} blocks on the wire, reference {}", name, b, e, l, sess_kind, per.len(), refp.n)));
    }
    for (sbn, syms) in &per {
        let k = refp.symbols_of(*sbn as u128) as usize;
        if syms.len() != k {
            return Some((format!("C07/sender-block-size/{}", name), format!("{} B={} E={} L={}: block {} has {} source symbols on the wire, reference {}", name, b, e, l, sbn, syms.len(), k)));
        }
    }
    // the receiver itself: its own partition (block sizes it allocates as blocks come and go) must let it
    // rebuild the object from the sender's stream
    {
        let seq: Vec<(std::time::SystemTime, &[u8])> = rec.pkts.iter().map(|p| (p.0, &p.1[..])).collect();
        let out = crate::chan::deliver_seq(&seq, recv_config(true), true);
        if let Some(pm) = out.panic {
            return Some((format!("C07/panic/{}", panic_sig(&pm)), format!("receiver panicked: {}", pm)));
        }
        let content = spec.objs[0].content();
        if !out.writers.iter().any(|w| w.toi == toi && w.is_complete() && w.data() == content) {
            return Some((
                format!("C07/receiver-cannot-rebuild/{}", name),
                format!("{} B={} E={} L={} (session default kind {}, cenc {}): the sender's clean stream ({} blocks) is not delivered by the receiver; writers {:?}", name, b, e, l, sess_kind, cenc, refp.n, out.writers.iter().map(|w| w.short()).collect::<Vec<_>>()),
            ));
        }
    }
    // the receiver's side, from the object's own packets
    for i in rec.obj_idx(toi) {
        let bytes = &rec.pkts[i].1;
        let r = catch(|| {
            let pkt = flute::core::alc::parse_alc_pkt(bytes).map_err(|e| e.0.to_string())?;
            Ok::<_, String>(pkt.oti.clone().map(|o| (o.maximum_source_block_length as u64, o.encoding_symbol_length as u64, pkt.transfer_length)))
        });
        match r {
            Err(p) => return Some((format!("C07/panic/{}", panic_sig(&p)), format!("parsing the sender's own packet panicked: {}", p))),
            Ok(Err(er)) => return Some((format!("C07/sender-packet-rejected/{}", name), format!("{} B={} E={} L={}: flute rejects its sender's packet: {}", name, b, e, l, er))),
            Ok(Ok(None)) => {}
            Ok(Ok(Some((b2, e2, tl)))) => {
                if tl != Some(l as u64) || e2 != e as u64 || b2 == 0 {
                    return Some((format!("C07/sender-fti-fields/{}", name), format!("{} B={} E={} L={}: in-band FTI parsed as L={:?} E={} B'={}", name, b, e, l, tl, e2, b2)));
                }
                let got = block_partitioning(b2, l as u64, e as u64);
                let same = got.3 as u128 == refp.n && got.0 as u128 == refp.a_large && got.1 as u128 == refp.a_small && (refp.a_large == refp.a_small || got.2 as u128 == refp.nb_large);
                if !same {
                    return Some((
                        format!("C07/receiver-partition-differs-from-sender/{}", name),
                        format!("{} B={} E={} L={} (session default kind {}): the sender cuts ({},{},{},{}) but its in-band FTI makes the receiver reconstruct B'={} and partition {:?}", name, b, e, l, sess_kind, refp.a_large, refp.a_small, refp.nb_large, refp.n, b2, got),
                    ));
                }
            }
        }
    }
    None
}

pub fn replay(v: &serde_json::Value) -> Vec<Violation> {
    if v["check"] == "agree" {
        let c = &v["case"];
        let scheme: Scheme = serde_json::from_value(c["scheme"].clone()).expect("scheme");
        return sender_receiver_agree(scheme, c["sess_kind"].as_u64().unwrap() as u8, c["b"].as_u64().unwrap() as u16, c["e"].as_u64().unwrap() as u16, c["l"].as_u64().unwrap() as usize, c["cenc"].as_u64().unwrap_or(0) as u8).into_iter().map(|(key, what)| Violation { key, what, case: v.clone() }).collect();
    }
    let c = &v["case"];
    let (b, e, l) = (c["b"].as_u64().unwrap(), c["e"].as_u64().unwrap(), c["l"].as_u64().unwrap());
    let mut out = Vec::new();
    let r = if v["check"] == "sender" {
        sender_structure(b as u16, e as u16, l as usize)
    } else {
        let mut r = check_triple(b, e, l, l <= 100_000);
        if r.is_none() {
            for q in [true, false] {
                if let Some((Some(k), w, _)) = raptor_roundtrip(b, e, l, q) {
                    r = Some((k, w));
                }
            }
        }
        r
    };
    if let Some((key, what)) = r {
        out.push(Violation { key, what, case: v.clone() });
    }
    out
}
