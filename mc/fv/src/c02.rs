//! C02 — any loss/duplication pattern leaving k symbols per block (and an FDT copy) still delivers.
//! Engine: exhaustive enumeration of all 2^n loss subsets (and 3^n multiplicities for small n) of
//! recorded real sessions, each pattern pushed into a fresh real receiver. Level: fault_enumeration.
use crate::chan::*;
use crate::report::*;
use crate::sess::*;
use crate::util::*;
use serde::{Deserialize, Serialize};
use serde_json::json;
use std::collections::{BTreeMap, BTreeSet};
use std::time::Duration;

#[derive(Serialize, Deserialize, Clone, Debug)]
pub struct Cfg {
    pub scheme: Scheme,
    pub k: u16,
    pub parity: u16,
    /// 0: one block, 1: two equal, 2: two unequal (k, k-1), 3: three blocks, 4: five blocks,
    /// 5: seven blocks of unequal size (large sessions: bounded number of losses instead of all subsets),
    /// 6: one block of exactly k symbols (used with k + parity = 255 / 256: every single loss),
    /// 7: 2100 blocks of k symbols, two transfers (beyond the receiver's block-table limits): losses at boundary blocks
    pub shape: u8,
    pub interleave: u8,
    pub inband_fti: bool,
    pub count: u32,
    /// the content encoding is signalled the other way round than the FTI (EXT_CENC iff the FTI is NOT in-band)
    #[serde(default)]
    pub split_sig: bool,
    /// the object comes from a stream (no content encoding) instead of a buffer: every transfer re-reads it
    #[serde(default)]
    pub stream: bool,
    /// gzip content encoding (compressible text): losses x content encoding
    #[serde(default)]
    pub cenc: bool,
}

impl Cfg {
    fn e(&self) -> u16 {
        2
    }
    fn len(&self) -> usize {
        let e = self.e() as usize;
        let k = self.k as usize;
        match self.shape {
            0 => k * e - 1,
            1 => 2 * k * e - 1,
            2 => (2 * k - 1) * e - 1,
            3 => 3 * k * e - 1,
            4 => 5 * k * e - 1,
            6 => k * e - 1,
            7 => 2100 * k * e - 1,
            _ => (7 * k - 3) * e - 1,
        }
    }
    pub fn rec_spec(&self) -> RecSpec {
        let oti = OtiSpec::new(self.scheme, self.e(), self.k, self.parity, self.inband_fti);
        let mut o = ObjSpec::simple(self.len(), 3);
        o.oti = Some(oti);
        o.count = self.count;
        o.inband_cenc = self.inband_fti != self.split_sig;
        if self.stream {
            o.source = Source::Stream(3);
        }
        if self.cenc {
            o.cenc = 3;
            o.text = true;
        }
        // half of the sessions without Content-MD5 (the receiver then has no second line of defence)
        o.md5 = (self.shape as u32 + self.interleave as u32 + self.k as u32) % 2 == 0;
        let mut s = SessSpec::basic(OtiSpec::new(Scheme::NoCode, 1424, 64, 0, true));
        s.interleave = self.interleave;
        RecSpec { sess: s, objs: vec![o], polls_ms: vec![0] }
    }
}

/// how the FDT reaches the receiver
#[derive(Serialize, Deserialize, Clone, Copy, Debug, PartialEq)]
pub enum FdtMode {
    First,
    /// only a later repetition of the same instance, after the object's last packet
    Late,
    Never,
}

#[derive(Serialize, Deserialize, Clone, Debug)]
pub struct Case {
    pub cfg: Cfg,
    pub fdt: FdtMode,
    /// multiplicity (0,1,2) of each object packet in emission order
    pub mult: Vec<u8>,
}

pub struct Prepared {
    pub cfg: Cfg,
    pub rec: Rec,
    pub obj: Vec<usize>,
    pub fdt: Vec<usize>,
    pub content: Vec<u8>,
    /// source symbols per block (from the independent partition reference)
    pub k_of: Vec<u32>,
}

pub fn prepare(cfg: &Cfg) -> Result<Prepared, String> {
    let spec = cfg.rec_spec();
    let rec = record(&spec)?;
    let (toi, _, tl) = rec.objs[0];
    let obj = rec.obj_idx(toi);
    let fdt = rec.fdt_idx();
    let p = crate::rfc::partition(cfg.k as u128, tl as u128, cfg.e() as u128).ok_or("partition")?;
    let k_of = (0..p.n).map(|b| p.symbols_of(b) as u32).collect();
    Ok(Prepared { cfg: cfg.clone(), rec, obj, fdt, content: spec.objs[0].content(), k_of })
}

#[derive(Default, Clone)]
pub struct G {
    pub execs: u64,
    pub recoverable: u64,
    pub at_threshold: u64,
    pub last_lost: u64,
    pub flag_before_needed: u64,
    pub used_repair: u64,
}

fn recoverable(p: &Prepared, fdt: FdtMode, mult: &[u8], g: &mut G) -> bool {
    if fdt == FdtMode::Never {
        return false;
    }
    let mut got: BTreeMap<u32, BTreeSet<u32>> = BTreeMap::new();
    for (j, &i) in p.obj.iter().enumerate() {
        if mult[j] > 0 {
            got.entry(p.rec.info[i].sbn).or_default().insert(p.rec.info[i].esi);
        }
    }
    let mut ok = true;
    let mut thr = false;
    let mut rep = false;
    for (b, k) in p.k_of.iter().enumerate() {
        let s = got.get(&(b as u32)).cloned().unwrap_or_default();
        let src = s.iter().filter(|e| **e < *k).count() as u32;
        let good = match p.cfg.scheme {
            Scheme::Rs28 | Scheme::Rs28Us => s.len() as u32 >= *k,
            _ => src == *k,
        };
        if !good {
            ok = false;
        }
        if s.len() as u32 == *k {
            thr = true;
        }
        if src < *k {
            rep = true;
        }
    }
    if ok {
        g.recoverable += 1;
        if thr {
            g.at_threshold += 1;
        }
        if rep {
            g.used_repair += 1;
        }
        if mult.last() == Some(&0) {
            g.last_lost += 1;
        }
    }
    ok
}

pub fn run_pattern(p: &Prepared, fdt: FdtMode, mult: &[u8], g: &mut G) -> Option<(String, String)> {
    g.execs += 1;
    let rec_ok = recoverable(p, fdt, mult, g);
    let mut seq: Vec<(std::time::SystemTime, &[u8])> = Vec::new();
    let t = p.rec.pkts[0].0;
    if fdt == FdtMode::First {
        for &i in &p.fdt {
            seq.push((t, &p.rec.pkts[i].1));
        }
    }
    let mut flag_seen_before_more = false;
    let mut flag_seen = false;
    for (j, &i) in p.obj.iter().enumerate() {
        for _ in 0..mult[j] {
            if flag_seen {
                flag_seen_before_more = true;
            }
            seq.push((t + Duration::from_millis(1), &p.rec.pkts[i].1));
        }
        if mult[j] > 0 && p.rec.info[i].b {
            flag_seen = true;
        }
    }
    if fdt == FdtMode::Late {
        for &i in &p.fdt {
            seq.push((t + Duration::from_millis(2), &p.rec.pkts[i].1));
        }
    }
    if rec_ok && flag_seen_before_more {
        g.flag_before_needed += 1;
    }
    let out = deliver_seq(&seq, recv_config(true), true);
    let feat = format!(
        "{}/{}",
        match fdt {
            FdtMode::First => "fdt-first",
            FdtMode::Late => "fdt-late",
            FdtMode::Never => "fdt-never",
        },
        if flag_seen_before_more { "flag-before-later-packets" } else { "flag-last" }
    );
    if let Some(pm) = out.panic {
        return Some((format!("C02/panic/{}", panic_sig(&pm)), format!("panic: {}", pm)));
    }
    let complete: Vec<_> = out.writers.iter().filter(|w| w.is_complete()).collect();
    // C03's oracle is evaluated too but only byte-exactness of completes is reported here
    for w in &complete {
        if w.data() != p.content {
            return Some((format!("C02/complete-with-wrong-bytes/{:?}", p.cfg.scheme), format!("writer [{}] completed with {} bytes != object", w.short(), w.data().len())));
        }
    }
    if rec_ok && complete.len() != 1 {
        let logs: Vec<String> = out.writers.iter().map(|w| w.short()).collect();
        let inb = if p.cfg.inband_fti { "inband-fti" } else { "fdt-only-oti" };
        return Some((
            format!("C02/recoverable-not-delivered/{}/{}{}", feat, inb, if complete.len() > 1 { "/multiple-completes" } else { "" }),
            format!("{:?} k={} parity={} blocks={:?} interleave={} count={}: pattern {:?} leaves enough symbols but {} complete deliveries; writers [{}]; push errors {:?}", p.cfg.scheme, p.cfg.k, p.cfg.parity, p.k_of, p.cfg.interleave, p.cfg.count, mult, complete.len(), logs.join(" | "), out.errs.iter().take(2).collect::<Vec<_>>()),
        ));
    }
    None
}


// ------------------------------------------------------------------------------------------------
// Multi-object sessions: two objects (one and two blocks), multiplexed or sequential, both FDT publish
// modes; every loss subset over ALL packets of the session, FDT packets included. Premise per
// object: a complete FDT instance listing it arrived and every block keeps enough symbols.

#[derive(Serialize, Deserialize, Clone, Debug)]
pub struct MultiCfg {
    pub scheme: Scheme,
    pub k: u16,
    pub parity: u16,
    pub full_fdt: bool,
    pub multiplex: u32,
    pub inband_fti: bool,
    /// second object in a lower-priority queue
    pub two_queues: bool,
    /// max_transfer_count of the first object (0 = 1). With 2 under per-transfer FDT instances the stream is
    /// FDT{A} A FDT{B} B FDT{A} A: a receiver that first meets A in its second transfer must still find the older
    /// instance that lists it. "Delivered" is then "at least once" (exactly-once is C01's clause)
    #[serde(default)]
    pub count_a: u32,
}

pub struct MultiPrepared {
    pub rec: Rec,
    /// per object: (toi, content, k per block)
    pub objs: Vec<(u128, Vec<u8>, Vec<u32>)>,
    /// FDT instance id -> TOIs listed
    pub listing: BTreeMap<u32, BTreeSet<u128>>,
    /// FDT instance id -> number of packets the instance needs
    pub fdt_pkts: BTreeMap<u32, usize>,
}

pub fn prepare_multi(c: &MultiCfg) -> Result<MultiPrepared, String> {
    let e = 2u16;
    let mut objs = Vec::new();
    let shape: [usize; 2] = if c.scheme == Scheme::Raptor { [1, 1] } else { [1, 2] };
    for (j, blocks) in shape.iter().enumerate() {
        let mut o = ObjSpec::simple(blocks * c.k as usize * e as usize - 1, 30 + j as u8);
        o.oti = Some(OtiSpec::new(c.scheme, e, c.k, c.parity, c.inband_fti));
        o.inband_cenc = c.inband_fti;
        o.prio = if c.two_queues && j == 1 { 1 } else { 0 };
        if j == 0 {
            o.count = c.count_a.max(1);
        }
        objs.push(o);
    }
    let mut s = SessSpec::basic(OtiSpec::new(Scheme::NoCode, 1424, 64, 0, true));
    s.full_fdt = c.full_fdt;
    s.queues = if c.two_queues { vec![(0, c.multiplex), (1, c.multiplex)] } else { vec![(0, c.multiplex)] };
    let spec = RecSpec { sess: s, objs: objs.clone(), polls_ms: vec![0] };
    let rec = record(&spec)?;
    let mut out = Vec::new();
    for (toi, i, tl) in &rec.objs {
        let p = crate::rfc::partition(c.k as u128, *tl as u128, e as u128).ok_or("partition")?;
        out.push((*toi, objs[*i].content(), (0..p.n).map(|b| p.symbols_of(b) as u32).collect()));
    }
    // FDT instances: reassemble each instance's XML from its (No-Code) packets and read the TOIs it lists
    let mut xml: BTreeMap<u32, BTreeMap<(u32, u32), Vec<u8>>> = BTreeMap::new();
    for (i, inf) in rec.info.iter().enumerate() {
        if inf.toi == 0 {
            let r = crate::rfc::decode(&rec.pkts[i].1).map_err(|e| e.to_string())?;
            xml.entry(inf.fdt_id.ok_or("FDT packet without EXT_FDT")?).or_default().insert((inf.sbn, inf.esi), r.payload().to_vec());
        }
    }
    let mut listing = BTreeMap::new();
    let mut fdt_pkts = BTreeMap::new();
    for (id, parts) in xml {
        let doc: Vec<u8> = parts.values().flatten().cloned().collect();
        let txt = String::from_utf8_lossy(&doc).to_string();
        let mut set = BTreeSet::new();
        for seg in txt.split("TOI=\"").skip(1) {
            if let Some(v) = seg.split('"').next().and_then(|x| x.parse::<u128>().ok()) {
                set.insert(v);
            }
        }
        fdt_pkts.insert(id, parts.len());
        listing.insert(id, set);
    }
    Ok(MultiPrepared { rec, objs: out, listing, fdt_pkts })
}

#[derive(Default, Clone)]
pub struct MG {
    pub execs: u64,
    pub premises: u64,
    pub both_recoverable_with_loss: u64,
    pub one_only: u64,
    pub fdt_instances_max: u64,
}

pub fn run_multi(c: &MultiCfg, p: &MultiPrepared, lost: u32, g: &mut MG) -> Option<(String, String)> {
    g.execs += 1;
    let n = p.rec.pkts.len();
    let kept: Vec<usize> = (0..n).filter(|i| lost >> i & 1 == 0).collect();
    // complete FDT instances received
    let mut got_fdt: BTreeMap<u32, BTreeSet<(u32, u32)>> = BTreeMap::new();
    for &i in &kept {
        let inf = &p.rec.info[i];
        if inf.toi == 0 {
            got_fdt.entry(inf.fdt_id.unwrap()).or_default().insert((inf.sbn, inf.esi));
        }
    }
    let complete_fdts: Vec<u32> = got_fdt.iter().filter(|(id, s)| s.len() == p.fdt_pkts[*id]).map(|(id, _)| *id).collect();
    let mut expect = Vec::new();
    for (toi, _, k_of) in &p.objs {
        let announced = complete_fdts.iter().any(|id| p.listing[id].contains(toi));
        let mut got: BTreeMap<u32, BTreeSet<u32>> = BTreeMap::new();
        for &i in &kept {
            let inf = &p.rec.info[i];
            if inf.toi == *toi {
                got.entry(inf.sbn).or_default().insert(inf.esi);
            }
        }
        let blocks_ok = k_of.iter().enumerate().all(|(b, k)| {
            let s = got.get(&(b as u32)).cloned().unwrap_or_default();
            match c.scheme {
                Scheme::Rs28 | Scheme::Rs28Us => s.len() as u32 >= *k,
                _ => s.iter().filter(|e| **e < *k).count() as u32 == *k,
            }
        });
        expect.push(announced && blocks_ok);
    }
    let nrec = expect.iter().filter(|x| **x).count();
    g.premises += nrec as u64;
    if nrec == 2 && lost != 0 {
        g.both_recoverable_with_loss += 1;
    }
    if nrec == 1 {
        g.one_only += 1;
    }
    let seq: Vec<(std::time::SystemTime, &[u8])> = kept.iter().map(|i| (p.rec.pkts[*i].0, &p.rec.pkts[*i].1[..])).collect();
    let out = deliver_seq(&seq, recv_config(true), true);
    if let Some(pm) = out.panic {
        return Some((format!("C02/panic/{}", panic_sig(&pm)), format!("panic: {}", pm)));
    }
    for (j, (toi, content, _)) in p.objs.iter().enumerate() {
        let completes: Vec<_> = out.writers.iter().filter(|w| w.toi == *toi && w.is_complete()).collect();
        for w in &completes {
            if &w.data() != content {
                return Some((format!("C02/multi/complete-with-wrong-bytes/{:?}", c.scheme), format!("TOI {}: writer [{}] completed with other bytes", toi, w.short())));
            }
        }
        if expect[j] && (completes.len() != 1 && !(c.count_a >= 2 && j == 0 && !completes.is_empty())) {
            let logs: Vec<String> = out.writers.iter().map(|w| format!("toi {}: {}", w.toi, w.short())).collect();
            let lost_desc: Vec<String> = (0..n).filter(|i| lost >> i & 1 == 1).map(|i| { let f = &p.rec.info[i]; if f.toi == 0 { format!("FDT#{}", f.fdt_id.unwrap()) } else { format!("{}:{}.{}", f.toi, f.sbn, f.esi) } }).collect();
            return Some((
                format!("C02/multi/recoverable-not-delivered/{}{}{}", if c.full_fdt { "full-fdt" } else { "obt" }, if c.inband_fti { "/inband-fti" } else { "/fdt-only-oti" }, if completes.len() > 1 { "/multiple-completes" } else { "" }),
                format!("{:?} k={} parity={} multiplex={} two_queues={}: losing [{}] of {} packets leaves object TOI {} announced (complete instances {:?}, listings {:?}) with enough symbols, but it has {} complete deliveries; writers [{}]", c.scheme, c.k, c.parity, c.multiplex, c.two_queues, lost_desc.join(" "), n, toi, complete_fdts, p.listing, completes.len(), logs.join(" | ")),
            ));
        }
    }
    None
}

pub fn multi_configs(thorough: bool) -> Vec<MultiCfg> {
    let mut v = Vec::new();
    for scheme in ALL_SCHEMES {
        let (k, parity) = match scheme {
            Scheme::NoCode => (2u16, 0u16),
            Scheme::Raptor => (4, 1),
            _ => (2, 1),
        };
        for full_fdt in [true, false] {
            for multiplex in [1u32, 2] {
                for inband_fti in [true, false] {
                    for two_queues in [false, true] {
                        if two_queues && multiplex == 2 && !thorough {
                            continue;
                        }
                        v.push(MultiCfg { scheme, k, parity, full_fdt, multiplex, inband_fti, two_queues, count_a: 0 });
                        if !full_fdt && multiplex == 1 && !two_queues && (thorough || matches!(scheme, Scheme::NoCode | Scheme::Rs28)) && scheme != Scheme::Raptor {
                            v.push(MultiCfg { scheme, k, parity, full_fdt, multiplex, inband_fti, two_queues, count_a: 2 });
                        }
                    }
                }
            }
        }
    }
    v
}

pub fn replay(v: &serde_json::Value) -> Vec<Violation> {
    if v["check"] == "multi" {
        let c: MultiCfg = serde_json::from_value(v["case"]["cfg"].clone()).expect("cfg");
        let lost = v["case"]["lost"].as_u64().unwrap() as u32;
        let p = prepare_multi(&c).expect("prepare");
        let mut g = MG::default();
        return run_multi(&c, &p, lost, &mut g).into_iter().map(|(key, what)| Violation { key, what, case: v.clone() }).collect();
    }
    let case: Case = serde_json::from_value(v["case"].clone()).expect("case");
    let p = prepare(&case.cfg).expect("prepare");
    let mut g = G::default();
    match run_pattern(&p, case.fdt, &case.mult, &mut g) {
        Some((key, what)) => vec![Violation { key, what, case: v.clone() }],
        None => vec![],
    }
}

fn configs(thorough: bool) -> Vec<Cfg> {
    let mut v = Vec::new();
    let nmax = if thorough { 16 } else { 11 };
    for scheme in ALL_SCHEMES {
        let kps: Vec<(u16, u16)> = match scheme {
            Scheme::NoCode => vec![(2, 0), (3, 0)],
            Scheme::Raptor => vec![(4, 1), (4, 2)],
            _ => vec![(2, 1), (2, 2), (3, 2)],
        };
        for (k, parity) in kps {
            for shape in 0..4u8 {
                if scheme == Scheme::Raptor && shape == 2 {
                    continue; // (k, k-1) would give a 3-symbol block, refused by add_object
                }
                for interleave in [1u8, 2, 3] {
                    for inband_fti in [true, false] {
                        for count in [1u32, 2] {
                            let nb = match shape {
                                0 => 1,
                                1 | 2 => 2,
                                _ => 3,
                            };
                            let n = (nb * (k + parity) as usize - if shape == 2 { 1 } else { 0 }) * count as usize;
                            if n > nmax {
                                continue;
                            }
                            v.push(Cfg { scheme, k, parity, shape, interleave, inband_fti, count, split_sig: false, stream: false, cenc: false });
                            if count == 1 && interleave <= 2 && shape == 0 && scheme != Scheme::Raptor {
                                v.push(Cfg { scheme, k, parity, shape, interleave, inband_fti, count, split_sig: false, stream: false, cenc: true });
                            }
                            if count == 2 && interleave <= 2 && shape <= 1 {
                                v.push(Cfg { scheme, k, parity, shape, interleave, inband_fti, count, split_sig: false, stream: true, cenc: false });
                            }
                            if count == 1 && interleave <= 2 && shape <= 1 {
                                v.push(Cfg { scheme, k, parity, shape, interleave, inband_fti, count, split_sig: true, stream: false, cenc: false });
                            }
                        }
                    }
                }
            }
        }
    }
    // large sessions (30-50 packets): every pattern with a bounded number of lost packets
    for scheme in ALL_SCHEMES {
        let (k, parity) = match scheme {
            Scheme::NoCode => (3u16, 0u16),
            Scheme::Raptor => (4, 1),
            _ => (3, 2),
        };
        for shape in [4u8, 5] {
            if scheme == Scheme::Raptor && shape == 5 {
                continue;
            }
            for interleave in [1u8, 3] {
                for inband_fti in [true, false] {
                    v.push(Cfg { scheme, k, parity, shape, interleave, inband_fti, count: 1, split_sig: interleave == 3, stream: false, cenc: false });
                }
            }
        }
    }
    // Reed-Solomon blocks at the limit of GF(2^8): 255 and 256 encoding symbols, every single loss
    for (scheme, k, parity) in [(Scheme::Rs28, 250u16, 5u16), (Scheme::Rs28Us, 250, 5), (Scheme::Rs28Us, 250, 6), (Scheme::Rs28Us, 255, 1)] {
        if !thorough && !(scheme == Scheme::Rs28Us && parity == 6) && scheme != Scheme::Rs28 {
            continue;
        }
        v.push(Cfg { scheme, k, parity, shape: 6, interleave: 1, inband_fti: k % 2 == 0, count: 1, split_sig: false, stream: false, cenc: false });
    }
    // objects of 2100 source blocks, transferred twice: the receiver's block table has to grow past its
    // pre-allocation (2048) while an early block is still incomplete
    // (RS GF(2^8) of RFC 5510 cannot carry that many blocks: its object size limit refuses the object)
    for (scheme, parity) in [(Scheme::NoCode, 0u16), (Scheme::Rs28Us, 1)] {
        v.push(Cfg { scheme, k: 1, parity, shape: 7, interleave: 1, inband_fti: true, count: 2, split_sig: false, stream: false, cenc: false });
        if thorough {
            v.push(Cfg { scheme, k: 1, parity, shape: 7, interleave: 3, inband_fti: false, count: 2, split_sig: false, stream: false, cenc: false });
        }
    }
    v
}

static STRIDE: std::sync::atomic::AtomicBool = std::sync::atomic::AtomicBool::new(false);

pub fn run(thorough: bool) -> i32 {
    STRIDE.store(!thorough, std::sync::atomic::Ordering::Relaxed);
    let mut rep = Report::new("C02", "fault_enumeration", if thorough { "thorough" } else { "quick" });
    let cfgs = configs(thorough);
    let dup_nmax = if thorough { 10 } else { 7 };
    // work items: (config index, fdt mode, mode: 0 = subsets / 1 = multiplicities)
    let mut items = Vec::new();
    for (ci, _) in cfgs.iter().enumerate() {
        for fdt in [FdtMode::First, FdtMode::Late, FdtMode::Never] {
            if cfgs[ci].shape == 6 && fdt != FdtMode::First && !thorough {
                continue;
            }
            items.push((ci, fdt, 0u8));
            items.push((ci, fdt, 1u8));
        }
    }
    let cfgs = std::sync::Arc::new(cfgs);
    let cfgs2 = cfgs.clone();
    let items = std::sync::Arc::new(items);
    let results = par_map_wd(
        items.clone(),
        Duration::from_secs(120),
        move |_, (ci, fdt, mode)| {
            let cfg = &cfgs2[*ci];
            let mut g = G::default();
            let mut viol: BTreeMap<String, (String, Case, u64)> = BTreeMap::new();
            let p = match prepare(cfg) {
                Ok(p) => p,
                Err(e) => return (g, viol, Some(format!("{:?}: {}", cfg, e)), 0usize),
            };
            let n = p.obj.len();
            let mut push = |key: String, what: String, mult: &[u8]| {
                viol.entry(key).and_modify(|e| e.2 += 1).or_insert((what, Case { cfg: cfg.clone(), fdt: *fdt, mult: mult.to_vec() }, 1));
            };
            if cfg.shape == 7 {
                // many-block session, two transfers: nothing lost, every single loss and every pair (one loss per
                // transfer) among the source symbols of the boundary blocks {0, 1, 2047, 2048, 2049, last}
                if *mode == 1 {
                    return (g, viol, None, n);
                }
                let last = p.k_of.len() as u32 - 1;
                let mut pos: [Vec<usize>; 2] = [Vec::new(), Vec::new()];
                for b in [0u32, 1, 2047, 2048, 2049, last] {
                    let occ: Vec<usize> = (0..n).filter(|j| p.rec.info[p.obj[*j]].sbn == b && p.rec.info[p.obj[*j]].esi == 0).collect();
                    for (t, j) in occ.iter().enumerate().take(2) {
                        pos[t].push(*j);
                    }
                }
                let mut pats: Vec<Vec<usize>> = vec![vec![]];
                for t in 0..2 {
                    for a in &pos[t] {
                        pats.push(vec![*a]);
                    }
                }
                for a in &pos[0] {
                    for b in &pos[1] {
                        pats.push(vec![*a, *b]);
                    }
                }
                for lost in pats {
                    let mut mult = vec![1u8; n];
                    for l in &lost {
                        mult[*l] = 0;
                    }
                    if let Some((k, w)) = run_pattern(&p, *fdt, &mult, &mut g) {
                        push(k, w, &mult);
                    }
                }
                return (g, viol, None, n);
            }
            if n > 16 {
                // large session: all patterns with at most `maxl` losses (mode 0), or with one loss
                // and one duplicate (mode 1)
                let maxl = if n > 100 { 1 } else if thorough { 3 } else { 2 };
                if *mode == 1 && n > 100 {
                    return (g, viol, None, n);
                }
                if *mode == 0 {
                    let mut mult = vec![1u8; n];
                    fn rec(p: &Prepared, fdt: FdtMode, mult: &mut Vec<u8>, from: usize, left: usize, g: &mut G, push: &mut dyn FnMut(String, String, &[u8])) {
                        if let Some((k, w)) = run_pattern(p, fdt, mult, g) {
                            push(k, w, mult);
                        }
                        if left == 0 {
                            return;
                        }
                        let n = mult.len();
                        // blocks of 255 / 256 symbols: a reconstruction costs ~50 ms, the quick tier takes every 16th
                        // single loss (plus the first and last source symbol and every repair symbol)
                        let stride = if n > 100 && STRIDE.load(std::sync::atomic::Ordering::Relaxed) { 16 } else { 1 };
                        for i in from..n {
                            if stride > 1 && i % stride != 0 && i + 8 < n {
                                continue;
                            }
                            mult[i] = 0;
                            rec(p, fdt, mult, i + 1, left - 1, g, push);
                            mult[i] = 1;
                        }
                    }
                    rec(&p, *fdt, &mut mult, 0, maxl, &mut g, &mut push);
                } else {
                    for l in 0..n {
                        for d in 0..n {
                            if l != d {
                                let mut mult = vec![1u8; n];
                                mult[l] = 0;
                                mult[d] = 2;
                                if let Some((k, w)) = run_pattern(&p, *fdt, &mult, &mut g) {
                                    push(k, w, &mult);
                                }
                            }
                        }
                    }
                }
            } else if *mode == 0 {
                // all 2^n subsets, fewest losses first within a mask order that starts from "nothing lost"
                let full = (1u32 << n) - 1;
                for lost in 0..=full {
                    let mult: Vec<u8> = (0..n).map(|j| if lost >> j & 1 == 1 { 0 } else { 1 }).collect();
                    if let Some((k, w)) = run_pattern(&p, *fdt, &mult, &mut g) {
                        push(k, w, &mult);
                    }
                }
            } else if n <= dup_nmax {
                let total = 3u32.pow(n as u32);
                for code in 0..total {
                    let mut c = code;
                    let mult: Vec<u8> = (0..n)
                        .map(|_| {
                            let d = (c % 3) as u8;
                            c /= 3;
                            // 0 -> delivered once, 1 -> lost, 2 -> duplicated (simplest first)
                            match d {
                                0 => 1,
                                1 => 0,
                                _ => 2,
                            }
                        })
                        .collect();
                    if !mult.contains(&2) {
                        continue; // pure loss patterns are covered by mode 0
                    }
                    if let Some((k, w)) = run_pattern(&p, *fdt, &mult, &mut g) {
                        push(k, w, &mult);
                    }
                }
            }
            (g, viol, None, n)
        },
        |_, (ci, fdt, _)| {
            let mut viol = BTreeMap::new();
            viol.insert("C02/hang".to_string(), ("pattern sweep did not finish in 120 s".to_string(), Case { cfg: cfgs[*ci].clone(), fdt: *fdt, mult: vec![] }, 1));
            (G::default(), viol, None, 0)
        },
    );
    let mut g = G::default();
    let mut nmax_seen = 0;
    for (gg, viol, err, n) in results {
        g.execs += gg.execs;
        g.recoverable += gg.recoverable;
        g.at_threshold += gg.at_threshold;
        g.last_lost += gg.last_lost;
        g.flag_before_needed += gg.flag_before_needed;
        g.used_repair += gg.used_repair;
        nmax_seen = nmax_seen.max(n);
        if let Some(e) = err {
            rep.machinery(format!("cannot record session: {}", e));
        }
        for (key, (what, case, cnt)) in viol {
            let v = Violation { key, what, case: json!({"check": "loss", "case": serde_json::to_value(&case).unwrap()}) };
            for _ in 0..cnt.min(1) {
                rep.add(v.clone());
            }
        }
    }
    // ---- multi-object sessions ----
    let mcfgs = multi_configs(thorough);
    let mres = par_map(&mcfgs, |_, c| {
        let mut g = MG::default();
        let mut viol: BTreeMap<String, (String, u32)> = BTreeMap::new();
        let p = match prepare_multi(c) {
            Ok(p) => p,
            Err(e) => return (g, viol, Some(e)),
        };
        let n = p.rec.pkts.len();
        g.fdt_instances_max = p.listing.len() as u64;
        if n > 18 {
            return (g, viol, Some(format!("session has {} packets", n)));
        }
        for lost in 0..(1u32 << n) {
            if let Some((k, w)) = run_multi(c, &p, lost, &mut g) {
                viol.entry(k).or_insert((w, lost));
            }
        }
        (g, viol, None)
    });
    let mut mg = MG::default();
    for (c, (gg, viol, err)) in mcfgs.iter().zip(mres) {
        mg.execs += gg.execs;
        mg.premises += gg.premises;
        mg.both_recoverable_with_loss += gg.both_recoverable_with_loss;
        mg.one_only += gg.one_only;
        mg.fdt_instances_max = mg.fdt_instances_max.max(gg.fdt_instances_max);
        if let Some(e) = err {
            rep.machinery(format!("multi-object session {:?}: {}", c, e));
        }
        for (key, (what, lost)) in viol {
            rep.add(Violation { key, what, case: json!({"check": "multi", "case": {"cfg": c, "lost": lost}}) });
        }
    }
    g.execs += mg.execs;
    g.recoverable += mg.premises;
    rep.cov("multi_object_sessions", mcfgs.len() as u64);
    rep.cov("multi_object_patterns", mg.execs);
    rep.cov("multi_object_max_fdt_instances", mg.fdt_instances_max);
    rep.guard("multi_object_patterns_with_loss_and_both_recoverable", mg.both_recoverable_with_loss);
    rep.guard("multi_object_patterns_with_exactly_one_recoverable", mg.one_only);
    rep.cov("evaluations", g.execs);
    rep.cov("distinct_nontrivial", g.recoverable);
    rep.cov("rule", "for each recorded real session (scheme x (k,parity) x block shape x interleave x in-band/FDT-only OTI x transfer count): every one of the 2^n loss subsets of the n object packets, and every 3^n multiplicity vector (lost/once/twice, n <= dup bound); for the large sessions (5 and 7 blocks, 30-50 packets) every pattern with at most 2 (quick) / 3 (thorough) lost packets and every (one lost, one duplicated) pair; all crossed with FDT delivered first / only after the object / never; a pattern is non-trivial when the harness's own RFC decode says every block keeps enough symbols and an FDT copy arrives (the property's premise); all patterns are distinct by construction");
    rep.cov("exhaustive", true);
    rep.cov("configs", cfgs.len() as u64);
    rep.cov("max_object_packets", nmax_seen as u64);
    rep.cov("dup_bound_packets", dup_nmax as u64);
    rep.guard("recoverable_patterns", g.recoverable);
    rep.guard("patterns_exactly_at_threshold", g.at_threshold);
    rep.guard("recoverable_with_last_packet_lost", g.last_lost);
    rep.guard("recoverable_needing_repair_symbols", g.used_repair);
    rep.cov("recoverable_with_packets_after_flag", g.flag_before_needed);
    rep.sample(json!({"cfg": cfgs[0], "fdt": "First", "mult": [1, 0, 1], "meaning": "object packet multiplicities in emission order"}));
    rep.sample(json!({"cfg": cfgs[cfgs.len() / 2], "fdt": "Late", "mult": [2, 1, 0, 1, 1]}));
    rep.assume("'FDT late' is modelled by re-delivering the recorded FDT packets after the object's last packet (a carousel repetition of the same instance carries the same bytes)");
    rep.assume("recoverability is computed from the harness's independent RFC decode of the packets and the 128-bit partition reference, not from flute");
    rep.finish()
}
