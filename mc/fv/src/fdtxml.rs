//! Harness-side FDT XML writer (correct escaping, arbitrary attribute values — including ones
//! flute's own sender can never produce) and FDT packet crafting with the independent codec.
#![allow(dead_code)]
use crate::rfc;

pub fn esc(s: &str) -> String {
    let mut o = String::new();
    for c in s.chars() {
        match c {
            '&' => o.push_str("&amp;"),
            '<' => o.push_str("&lt;"),
            '>' => o.push_str("&gt;"),
            '"' => o.push_str("&quot;"),
            '\'' => o.push_str("&apos;"),
            '\t' => o.push_str("&#9;"),
            '\n' => o.push_str("&#10;"),
            '\r' => o.push_str("&#13;"),
            c => o.push(c),
        }
    }
    o
}

#[derive(Clone, Debug, Default)]
pub struct FileX {
    /// attribute name -> raw (unescaped) value, in order
    pub attrs: Vec<(String, String)>,
    /// inner XML (already well-formed), e.g. Cache-Control / Group children
    pub inner: String,
}

impl FileX {
    pub fn new(toi: &str, location: &str) -> FileX {
        FileX { attrs: vec![("TOI".into(), toi.into()), ("Content-Location".into(), location.into())], inner: String::new() }
    }
    pub fn attr(mut self, k: &str, v: &str) -> FileX {
        self.attrs.push((k.into(), v.into()));
        self
    }
    pub fn attr_opt(self, k: &str, v: Option<String>) -> FileX {
        match v {
            Some(v) => self.attr(k, &v),
            None => self,
        }
    }
}

#[derive(Clone, Debug, Default)]
pub struct FdtX {
    pub attrs: Vec<(String, String)>,
    pub files: Vec<FileX>,
    pub inner: String,
}

impl FdtX {
    pub fn new(expires_ntp: &str) -> FdtX {
        FdtX { attrs: vec![("Expires".into(), expires_ntp.into())], files: vec![], inner: String::new() }
    }
    pub fn attr(mut self, k: &str, v: &str) -> FdtX {
        self.attrs.push((k.into(), v.into()));
        self
    }
    pub fn attr_opt(self, k: &str, v: Option<String>) -> FdtX {
        match v {
            Some(v) => self.attr(k, &v),
            None => self,
        }
    }
    pub fn file(mut self, f: FileX) -> FdtX {
        self.files.push(f);
        self
    }
    pub fn xml(&self) -> String {
        let mut s = String::from("<?xml version=\"1.0\" encoding=\"UTF-8\"?>\n<FDT-Instance xmlns=\"urn:IETF:metadata:2005:FLUTE:FDT\" xmlns:mbms2005=\"urn:3GPP:metadata:2005:MBMS:FLUTE:FDT\" xmlns:mbms2007=\"urn:3GPP:metadata:2007:MBMS:FLUTE:FDT\" xmlns:mbms2008=\"urn:3GPP:metadata:2008:MBMS:FLUTE:FDT_ext\" xmlns:mbms2012=\"urn:3GPP:metadata:2012:MBMS:FLUTE:FDT\"");
        for (k, v) in &self.attrs {
            s.push_str(&format!(" {}=\"{}\"", k, esc(v)));
        }
        s.push_str(">\n");
        for f in &self.files {
            s.push_str("  <File");
            for (k, v) in &f.attrs {
                s.push_str(&format!(" {}=\"{}\"", k, esc(v)));
            }
            if f.inner.is_empty() {
                s.push_str("/>\n");
            } else {
                s.push_str(">");
                s.push_str(&f.inner);
                s.push_str("</File>\n");
            }
        }
        s.push_str(&self.inner);
        s.push_str("</FDT-Instance>\n");
        s
    }
}

/// One or more ALC packets (Compact No-Code, symbol size `e`) carrying `xml` as FDT instance `id`.
/// `sct` = Some((ntp seconds, fraction)) adds EXT_TIME to every packet.
thread_local! {
    /// form of the EXT_TIME extension `fdt_packets` writes: 0 = SCT-High + SCT-Low, 1 = SCT-High only,
    /// 2 = SCT-High + SCT-Low + ERT, 3 = SCT-High + SLC (RFC 5651 5.2.2: all valid ways to carry the sender time)
    pub static SCT_FORM: std::cell::Cell<u8> = const { std::cell::Cell::new(0) };
}

thread_local! {
    /// maximum source block length of the FDT instance `fdt_packets` cuts (default 64 symbols)
    pub static FDT_B: std::cell::Cell<u32> = const { std::cell::Cell::new(64) };
}
thread_local! {
    /// FLUTE version announced by EXT_FDT in the packets `fdt_packets` writes (2 = RFC 6726, 1 = RFC 3926)
    pub static FDT_VERSION: std::cell::Cell<u8> = const { std::cell::Cell::new(2) };
}

pub fn fdt_packets(tsi: u64, id: u32, xml: &[u8], e: usize, sct: Option<(u32, u32)>, cenc: Option<u8>) -> Vec<Vec<u8>> {
    let e = e.max(1);
    let nsym = xml.len().div_ceil(e).max(1);
    let b: u32 = FDT_B.with(|c| c.get());
    let p = rfc::partition(b as u128, xml.len() as u128, e as u128).unwrap();
    let mut out = Vec::new();
    for j in 0..nsym {
        let mut sp = rfc::Spec::minimal(rfc::FEC_NOCODE, tsi, 0);
        sp.exts.push(rfc::ext_fdt(FDT_VERSION.with(|c| c.get()), id));
        if let Some(c) = cenc {
            sp.exts.push(rfc::ext_cenc(c));
        }
        if let Some((s, f)) = sct {
            sp.exts.push(match SCT_FORM.with(|c| c.get()) {
                1 => rfc::ext_time(s, None),
                2 => rfc::ext_time_full(s, Some(f), Some(3600), None),
                3 => rfc::ext_time_full(s, None, None, Some(s.wrapping_sub(5))),
                _ => rfc::ext_time(s, Some(f)),
            });
        }
        sp.exts.push(rfc::fti_nocode(xml.len() as u64, e as u16, b));
        // locate symbol j in the partition
        let mut sbn = 0u128;
        let mut before = 0u128;
        while sbn < p.n && before + p.symbols_of(sbn) <= j as u128 {
            before += p.symbols_of(sbn);
            sbn += 1;
        }
        let esi = j as u128 - before;
        sp.payload_id = rfc::pid(rfc::FEC_NOCODE, sbn as u32, esi as u32, 0, 8);
        let a = j * e;
        let z = ((j + 1) * e).min(xml.len());
        sp.payload = xml[a.min(xml.len())..z].to_vec();
        sp.b = j + 1 == nsym;
        out.push(rfc::encode(&sp));
    }
    out
}
