//! C03 — "complete" always means the sender's exact bytes: all orderings, repetitions, sub-multisets
//! and payload corruptions of small recorded sessions, pushed into the real receiver.
use crate::chan::*;
use crate::monitor::*;
use crate::report::*;
use crate::sess::*;
use crate::util::*;
use serde::{Deserialize, Serialize};
use serde_json::json;
use std::collections::BTreeMap;
use std::time::{Duration, SystemTime};

#[derive(Serialize, Deserialize, Clone, Debug)]
pub struct Cfg {
    pub scheme: Scheme,
    pub e: u16,
    pub b: u16,
    pub parity: u16,
    pub len: usize,
    pub cenc: u8,
    pub inband_fti: bool,
    pub count: u32,
    pub carousel: bool,
    pub interleave: u8,
    /// EXT_CENC in the object's packets (independent of the FTI signalling)
    pub inband_cenc: bool,
    /// Content-MD5 announced and checked
    pub md5: bool,
    /// object bytes that do not compress (the transfer length then follows the object length)
    #[serde(default)]
    pub incompressible: bool,
    /// zero-filled content: inflates to hundreds of times its transfer length (the inflater is drained many times per block)
    #[serde(default)]
    pub sparse: bool,
    /// session default OTI of the object's own FEC scheme and E but another block length and parity
    /// count (the FDT then carries FEC attributes at instance level AND, different, at file level)
    #[serde(default)]
    pub sess_like: bool,
    /// the session's FDT instances are gzip-compressed and cut into source blocks of two 64-byte symbols (several
    /// FDT packets in several blocks take part in the orderings)
    #[serde(default)]
    pub fdt_blocks: bool,
    /// 0 = one object; 1 = a second object (other bytes, 3 bytes longer), both multiplexed, full FDT;
    /// 2 = a second object sent after the first, FDT listing only the objects being transferred
    #[serde(default)]
    pub second: u8,
    /// Raptor/RaptorQ symbol alignment and number of sub-blocks (0 = default 1)
    #[serde(default)]
    pub al: u8,
    #[serde(default)]
    pub n: u16,
    /// 0 = buffer source; 1..3 = stream source handed over after one byte / in the middle / at its end
    /// (4 = at its start), without the MD5 pass when md5 is off
    #[serde(default)]
    pub stream: u8,
}

impl Cfg {
    pub fn rec_spec(&self) -> RecSpec {
        let mut o = ObjSpec::simple(self.len, 5);
        let mut oti = OtiSpec::new(self.scheme, self.e, self.b, self.parity, self.inband_fti);
        oti.al = self.al.max(1);
        oti.n = self.n.max(1);
        o.oti = Some(oti);
        o.count = self.count;
        o.cenc = self.cenc;
        o.text = self.cenc != 0 && !self.incompressible;
        o.sparse = self.sparse;
        o.inband_cenc = self.inband_cenc;
        o.md5 = self.md5;
        if self.stream != 0 {
            o.source = Source::Stream(3);
            o.stream_start = self.stream % 4;
        }
        if self.carousel {
            o.carousel = Some(Carousel::Delay(500));
        }
        let mut s = SessSpec::basic(if self.fdt_blocks { OtiSpec::new(Scheme::NoCode, 64, 2, 0, true) } else if self.sess_like { OtiSpec::new(self.scheme, self.e, self.b * 2, if self.scheme == Scheme::NoCode { 0 } else { self.parity + 1 }, true) } else { OtiSpec::new(Scheme::NoCode, 1424, 64, 0, true) });
        s.interleave = self.interleave;
        if self.fdt_blocks {
            s.fdt_cenc = 3;
        }
        let mut objs = vec![o];
        if self.second != 0 {
            let mut o2 = objs[0].clone();
            o2.len += 3;
            o2.salt = 77;
            o2.location = "file:///second".into();
            objs.push(o2);
            s.queues = vec![(0, if self.second == 1 { 2 } else { 1 })];
            s.full_fdt = self.second == 1;
        }
        RecSpec { sess: s, objs, polls_ms: if self.carousel { vec![0, 2000] } else { vec![0] } }
    }
}

#[derive(Serialize, Deserialize, Clone, Debug)]
pub struct Corrupt {
    /// index into the distinct-packet list
    pub pkt: usize,
    /// byte offset inside the payload
    pub pos: usize,
    pub mask: u8,
    /// truncate the payload by this many bytes (0 = none); when > 0, pos/mask are ignored
    pub trunc: usize,
}

#[derive(Serialize, Deserialize, Clone, Debug)]
pub struct Case {
    pub cfg: Cfg,
    /// delivery sequence as indices into the distinct-packet list (emission order of first occurrence)
    pub seq: Vec<usize>,
    pub corrupt: Option<Corrupt>,
}

pub struct Prepared {
    pub cfg: Cfg,
    pub rec: Rec,
    /// distinct packets (bytes) in order of first emission
    pub distinct: Vec<usize>,
    pub content: Vec<u8>,
    pub toi: u128,
    pub tl: u64,
    pub contents: std::collections::BTreeMap<u128, Vec<u8>>,
}

pub fn prepare(cfg: &Cfg) -> Result<Prepared, String> {
    let spec = cfg.rec_spec();
    let rec = record(&spec)?;
    let mut distinct: Vec<usize> = Vec::new();
    for i in 0..rec.pkts.len() {
        if !distinct.iter().any(|j| rec.pkts[*j].1 == rec.pkts[i].1) {
            distinct.push(i);
        }
    }
    let (toi, _, tl) = rec.objs[0];
    let contents = rec.objs.iter().map(|(t, i, _)| (*t, spec.objs[*i].content())).collect();
    Ok(Prepared { cfg: cfg.clone(), rec, distinct, content: spec.objs[0].content(), toi, tl, contents })
}

#[derive(Default, Clone)]
pub struct G {
    pub execs: u64,
    pub completes: u64,
    pub fdt_last: u64,
    pub flag_first: u64,
    pub corrupt_detected: u64,
    pub corrupt_harmless: u64,
    pub outcomes: std::collections::BTreeSet<u64>,
}
impl G {
    fn merge(&mut self, o: &G) {
        self.execs += o.execs;
        self.completes += o.completes;
        self.fdt_last += o.fdt_last;
        self.flag_first += o.flag_first;
        self.corrupt_detected += o.corrupt_detected;
        self.corrupt_harmless += o.corrupt_harmless;
        self.outcomes.extend(o.outcomes.iter());
    }
}

fn apply_corruption(p: &Prepared, c: &Corrupt) -> Vec<u8> {
    let i = p.distinct[c.pkt];
    let mut d = p.rec.pkts[i].1.clone();
    let h = p.rec.info[i].hdr_len;
    if c.trunc > 0 {
        let nl = d.len().saturating_sub(c.trunc).max(h);
        d.truncate(nl);
    } else if h + c.pos < d.len() {
        d[h + c.pos] ^= c.mask;
    }
    d
}

/// returns Some((signature, description)) on a violation
pub fn run_seq(p: &Prepared, seq: &[usize], corrupt: Option<&Corrupt>, g: &mut G) -> Option<(String, String)> {
    g.execs += 1;
    let cbytes = corrupt.map(|c| apply_corruption(p, c));
    let mut pk: Vec<(SystemTime, &[u8])> = Vec::with_capacity(seq.len());
    for (n, &d) in seq.iter().enumerate() {
        let i = p.distinct[d];
        let bytes: &[u8] = match (corrupt, &cbytes) {
            (Some(c), Some(cb)) if c.pkt == d => cb,
            _ => &p.rec.pkts[i].1,
        };
        pk.push((p.rec.pkts[0].0 + Duration::from_millis(n as u64), bytes));
    }
    if let Some(&last) = seq.last() {
        if p.rec.info[p.distinct[last]].toi == 0 {
            g.fdt_last += 1;
        }
    }
    if let Some(&first) = seq.first() {
        if p.rec.info[p.distinct[first]].b {
            g.flag_first += 1;
        }
    }
    let out = deliver_seq(&pk, recv_config(true), p.cfg.md5);
    let sch = format!("{:?}{}", p.cfg.scheme, if p.cfg.md5 { "" } else { "/no-md5" });
    if let Some(pm) = out.panic {
        return Some((format!("C03/panic/{}", panic_sig(&pm)), format!("panic: {}", pm)));
    }
    let mut oh: Vec<String> = Vec::new();
    if std::env::var("VERIF_DEBUG").is_ok() {
        for w in &out.writers {
            eprintln!("  writer toi {} [{}] data {:?} (content {:?}) errs {:?}", w.toi, w.short(), w.data(), p.contents.get(&w.toi), out.errs);
        }
    }
    for w in &out.writers {
        oh.push(format!("{}:{}", w.toi, w.short()));
        if w.is_complete() {
            g.completes += 1;
            let content = match p.contents.get(&w.toi) {
                Some(c) => c,
                None => return Some((format!("C03/complete-for-unknown-toi/{}", sch), format!("writer [{}] completed for TOI {} which the sender never used", w.short(), w.toi))),
            };
            if &w.data() != content {
                let d = w.data();
                let eq = d.iter().zip(content.iter()).take_while(|(a, b)| a == b).count();
                return Some((
                    format!("C03/complete-with-wrong-bytes/{}{}", sch, if corrupt.is_some() { "/corrupted" } else { "" }),
                    format!("writer [{}] of TOI {} reported complete with {} bytes (object has {}), first difference at byte {}", w.short(), w.toi, d.len(), content.len(), eq),
                ));
            }
        }
        let mut term = 0;
        for c in &w.calls {
            if matches!(c, Call::Complete | Call::Error | Call::Interrupted) {
                term += 1;
            }
        }
        if term > 1 {
            return Some((format!("C03/complete-and-failed/{}", sch), format!("writer [{}] received more than one terminal call", w.short())));
        }
    }
    g.outcomes.insert(h64(&oh));
    None
}

pub fn replay(v: &serde_json::Value) -> Vec<Violation> {
    let case: Case = serde_json::from_value(v["case"].clone()).expect("case");
    let p = prepare(&case.cfg).expect("prepare");
    let mut g = G::default();
    let r = if v["check"] == "corrupt-must-error" {
        run_corrupt_expect(&p, &case.seq, case.corrupt.as_ref().unwrap(), &mut g)
    } else {
        run_seq(&p, &case.seq, case.corrupt.as_ref(), &mut g)
    };
    match r {
        Some((key, what)) => vec![Violation { key, what, case: v.clone() }],
        None => vec![],
    }
}

/// corruption of a source symbol inside the object's real bytes, all packets delivered in emission
/// order: the writer must end in error (never complete, never left open)
fn run_corrupt_expect(p: &Prepared, seq: &[usize], c: &Corrupt, g: &mut G) -> Option<(String, String)> {
    if let Some(v) = run_seq(p, seq, Some(c), g) {
        return Some(v);
    }
    // re-run to look at the terminal call (cheap; keeps run_seq's oracle single-purpose)
    let cb = apply_corruption(p, c);
    let mut pk: Vec<(SystemTime, &[u8])> = Vec::new();
    for (n, &d) in seq.iter().enumerate() {
        let i = p.distinct[d];
        pk.push((p.rec.pkts[0].0 + Duration::from_millis(n as u64), if d == c.pkt { &cb[..] } else { &p.rec.pkts[i].1[..] }));
    }
    let out = deliver_seq(&pk, recv_config(true), p.cfg.md5);
    let ws: Vec<&WriterLog> = out.writers.iter().filter(|w| w.toi == p.toi).collect();
    let any_error = ws.iter().any(|w| matches!(w.terminal(), Terminal::Error | Terminal::Interrupted));
    let any_complete = ws.iter().any(|w| w.is_complete());
    if any_complete {
        // bytes were exact (run_seq passed): the altered byte was not needed (e.g. first copy wins)
        g.corrupt_harmless += 1;
        None
    } else if any_error || ws.is_empty() {
        g.corrupt_detected += 1;
        None
    } else {
        Some((
            format!("C03/corrupted-object-left-open/{:?}", p.cfg.scheme),
            format!("payload altered ({:?}) but writer(s) [{}] got no terminal call even after the receiver was dropped", c, ws.iter().map(|w| w.short()).collect::<Vec<_>>().join(" | ")),
        ))
    }
}

fn configs(thorough: bool) -> Vec<Cfg> {
    let c = |scheme, e, b, parity, len, cenc, inband_fti, count, carousel, interleave| Cfg { scheme, e, b, parity, len, cenc, inband_fti, count, carousel, interleave, inband_cenc: inband_fti, md5: true, incompressible: false, sparse: false, sess_like: false, fdt_blocks: false, second: 0, al: 0, n: 0, stream: 0 };
    let mut v = vec![
        c(Scheme::NoCode, 4, 2, 0, 11, 0, true, 1, false, 1),
        c(Scheme::NoCode, 4, 2, 0, 11, 0, false, 1, false, 1),
        c(Scheme::NoCode, 4, 2, 0, 11, 0, true, 2, false, 1),
        c(Scheme::NoCode, 4, 2, 0, 7, 0, true, 1, true, 1),
        c(Scheme::NoCode, 4, 2, 0, 7, 0, false, 1, true, 1),
        c(Scheme::NoCode, 16, 2, 0, 10, 3, true, 1, false, 1),
        c(Scheme::NoCode, 16, 2, 0, 10, 1, false, 1, false, 1),
        c(Scheme::Rs28, 4, 2, 1, 7, 0, true, 1, false, 1),
        c(Scheme::Rs28, 4, 2, 1, 7, 0, false, 2, false, 1),
        c(Scheme::Rs28, 4, 2, 1, 11, 0, true, 1, false, 2),
        c(Scheme::Rs28Us, 4, 2, 1, 11, 0, false, 1, false, 1),
        c(Scheme::Rs28Us, 4, 2, 2, 7, 0, true, 1, false, 1),
        c(Scheme::RaptorQ, 4, 2, 1, 7, 0, true, 1, false, 1),
        c(Scheme::RaptorQ, 4, 2, 1, 11, 0, false, 1, false, 2),
        c(Scheme::Raptor, 2, 4, 1, 8, 0, true, 1, false, 1),
        c(Scheme::Raptor, 2, 4, 1, 7, 0, false, 1, false, 1),
        c(Scheme::NoCode, 4, 2, 0, 19, 0, true, 1, false, 2),
        c(Scheme::NoCode, 4, 2, 0, 19, 0, false, 1, false, 3),
        c(Scheme::Rs28, 4, 2, 1, 15, 0, true, 1, false, 2),
        c(Scheme::Rs28Us, 4, 2, 1, 15, 0, false, 1, false, 1),
    ];
    // every signalling combination of FTI x CENC, with and without MD5, for encoded objects
    for (scheme, e, b, parity, len, cenc) in [(Scheme::NoCode, 16u16, 2u16, 0u16, 10usize, 3u8), (Scheme::NoCode, 8, 2, 0, 12, 2), (Scheme::Rs28, 16, 2, 1, 10, 1), (Scheme::NoCode, 4, 2, 0, 11, 0)] {
        for inband_fti in [true, false] {
            for inband_cenc in [true, false] {
                for md5 in [true, false] {
                    if inband_fti == inband_cenc && md5 {
                        continue; // already above
                    }
                    let mut x = c(scheme, e, b, parity, len, cenc, inband_fti, 1, false, 1);
                    x.inband_cenc = inband_cenc;
                    x.md5 = md5;
                    v.push(x);
                }
            }
        }
    }
    // the session's default OTI resembles the object's (same scheme and E, other B / parity): a receiver
    // that mixes the instance-level and the file-level FEC attributes partitions the object wrongly
    for (scheme, e, b, parity, len) in [(Scheme::NoCode, 4u16, 2u16, 0u16, 13usize), (Scheme::Rs28, 4, 2, 1, 15), (Scheme::Rs28, 4, 2, 2, 16), (Scheme::Rs28Us, 4, 2, 1, 15), (Scheme::Raptor, 2, 4, 1, 16), (Scheme::RaptorQ, 4, 2, 1, 15)] {
        for inband_fti in [false, true] {
            for md5 in [false, true] {
                let mut x = c(scheme, e, b, parity, len, 0, inband_fti, 1, false, 1);
                x.md5 = md5;
                x.sess_like = true;
                v.push(x);
            }
        }
    }
    // two objects in one session (multiplexed under a full FDT / sequential under per-transfer FDT instances)
    for (scheme, e, b, parity, len) in [(Scheme::NoCode, 4u16, 2u16, 0u16, 5usize), (Scheme::Rs28, 4, 2, 1, 5), (Scheme::NoCode, 4, 1, 0, 6), (Scheme::RaptorQ, 4, 2, 1, 5)] {
        for inband_fti in [true, false] {
            for second in [1u8, 2] {
                for md5 in [true, false] {
                    if !md5 && scheme == Scheme::RaptorQ {
                        continue;
                    }
                    let mut x = c(scheme, e, b, parity, len, 0, inband_fti, 1, false, 1);
                    x.md5 = md5;
                    x.second = second;
                    v.push(x);
                }
            }
        }
    }
    // stream sources handed over at another position than their start, transferred twice (packets of the two
    // transfers are then mixed by the orderings): with and without MD5
    for (scheme, e, b, parity, len) in [(Scheme::NoCode, 4u16, 2u16, 0u16, 11usize), (Scheme::Rs28, 4, 2, 1, 7)] {
        for stream in 1..=4u8 {
            for md5 in [false, true] {
                for (count, carousel) in [(2u32, false), (1, true)] {
                    let mut x = c(scheme, e, b, parity, len, 0, true, count, carousel, 1);
                    x.md5 = md5;
                    x.stream = stream;
                    v.push(x);
                }
            }
        }
    }
    // a short last symbol inside a block of several symbols (so that it can arrive FIRST in its block), without
    // and with MD5, in-band and FDT-only FTI
    for (scheme, e, b, parity, len) in [(Scheme::NoCode, 4u16, 2u16, 0u16, 7usize), (Scheme::NoCode, 4, 3, 0, 10), (Scheme::NoCode, 4, 2, 0, 15), (Scheme::Rs28, 4, 2, 1, 7), (Scheme::Rs28Us, 4, 3, 1, 9)] {
        for md5 in [false, true] {
            for inband_fti in [true, false] {
                let mut x = c(scheme, e, b, parity, len, 0, inband_fti, 1, false, 1);
                x.md5 = md5;
                v.push(x);
            }
        }
    }
    // ... and interleaved, so that the packet carrying the close-object flag is NOT the short symbol (which
    // may then arrive first in its block without interrupting the object)
    for (e, b, len) in [(4u16, 3u16, 19usize), (4, 3, 18), (4, 2, 23)] {
        for md5 in [false, true] {
            let mut x = c(Scheme::NoCode, e, b, 0, len, 0, true, 1, false, 2);
            x.md5 = md5;
            v.push(x);
        }
    }
    // RaptorQ partitions the receiver has to rebuild from (F, T, Z) alone: equal blocks, more blocks than
    // symbols per block, single-symbol blocks - with and without MD5
    for (e, b, len) in [(4u16, 1u16, 8usize), (4, 1, 12), (4, 2, 24), (4, 2, 16), (2, 3, 24), (4, 3, 12)] {
        for md5 in [false, true] {
            let mut x = c(Scheme::RaptorQ, e, b, 1, len, 0, true, 1, false, 1);
            x.md5 = md5;
            v.push(x);
        }
    }
    // RaptorQ / Raptor with sub-blocks (N) and alignment: the scheme-specific information reaches the
    // receiver through EXT_FTI or through the FDT attribute; without MD5 nothing else protects the bytes
    for (scheme, e, b, al, n, len) in [(Scheme::RaptorQ, 1400u16, 2u16, 4u8, 300u16, 2900usize), (Scheme::RaptorQ, 1400, 2, 4, 257, 1399), (Scheme::RaptorQ, 8, 2, 4, 2, 19), (Scheme::Raptor, 64, 4, 8, 8, 500)] {
        for inband_fti in [false, true] {
            for md5 in [false, true] {
                let mut x = c(scheme, e, b, 1, len, 0, inband_fti, 1, false, 1);
                x.md5 = md5;
                x.al = al;
                x.n = n;
                v.push(x);
            }
        }
    }
    // larger content-encoded objects (many blocks of unequal size stream through the inflater's ring
    // buffer), with and without MD5: delivered in a family of whole-session orders (kind 4)
    for (scheme, e, b, parity) in [(Scheme::NoCode, 4u16, 5u16, 0u16), (Scheme::NoCode, 8, 3, 0), (Scheme::Rs28, 4, 3, 1)] {
        for cenc in [1u8, 2, 3] {
            for md5 in [false, true] {
                let lens: Vec<usize> = if thorough { (80..160).collect() } else { (96..136).step_by(3).collect() };
                for len in lens {
                    let mut x = c(scheme, e, b, parity, len, cenc, true, 1, false, 1);
                    x.md5 = md5;
                    x.incompressible = true;
                    v.push(x);
                }
            }
        }
    }
    // Raptor with blocks of two different lengths and a short last symbol (the decoder is the only one that uses
    // the byte length of a block), many repair symbols, with and without MD5
    for (e, b, parity, len) in [(16u16, 6u16, 10u16, 174usize), (4, 5, 3, 35), (4, 5, 6, 34), (8, 7, 8, 8 * 11 - 3)] {
        for md5 in [false, true] {
            for inband_fti in [true, false] {
                if !thorough && !inband_fti && md5 {
                    continue;
                }
                let mut x = c(Scheme::Raptor, e, b, parity, len, 0, inband_fti, 1, false, 1);
                x.md5 = md5;
                v.push(x);
            }
        }
    }
    // compressed multi-block FDT instances: whole-session orders with the FDT packets anywhere
    for (scheme, e, b, parity, len) in [(Scheme::NoCode, 4u16, 2u16, 0u16, 11usize), (Scheme::Rs28, 4, 2, 1, 7), (Scheme::RaptorQ, 4, 2, 1, 7)] {
        for inband_fti in [true, false] {
            for md5 in [true, false] {
                let mut x = c(scheme, e, b, parity, len, 0, inband_fti, 1, false, 1);
                x.md5 = md5;
                x.fdt_blocks = true;
                v.push(x);
            }
        }
    }
    // very compressible content (compression ratio in the hundreds and thousands): one and several blocks
    for cenc in [1u8, 2, 3] {
        for md5 in [false, true] {
            for (e, b, len) in [(1024u16, 64u16, 400_000usize), (64, 2, 300_000), (16, 4, 1_500_000)] {
                if !thorough && len > 400_000 {
                    continue;
                }
                let mut x = c(Scheme::NoCode, e, b, 0, len, cenc, true, 1, false, 1);
                x.md5 = md5;
                x.sparse = true;
                v.push(x);
            }
        }
    }
    // small content-encoded objects cut into blocks so small that the last block(s) hold nothing but the
    // encoding's trailer (gzip: 8 bytes, zlib: 4): the content is complete before the last block is written,
    // the Content-MD5 must be checked all the same (stored deflate blocks, so that a flipped payload byte
    // still inflates to content of the right length)
    for cenc in [1u8, 2, 3] {
        for (e, b) in [(8u16, 1u16), (4, 1), (4, 2)] {
            for len in if thorough { vec![3usize, 5, 8, 11, 13] } else { vec![5usize, 11] } {
                for incompressible in [true, false] {
                    let mut x = c(Scheme::NoCode, e, b, 0, len, cenc, true, 1, false, 1);
                    x.incompressible = incompressible;
                    v.push(x);
                }
            }
        }
    }
    if thorough {
        v.extend([
            c(Scheme::Rs28, 4, 3, 1, 23, 0, true, 1, false, 2),
            c(Scheme::NoCode, 4, 2, 0, 15, 0, true, 1, true, 2),
            c(Scheme::Rs28, 16, 2, 1, 20, 3, true, 1, false, 1),
            c(Scheme::RaptorQ, 4, 2, 2, 7, 0, true, 2, false, 1),
        ]);
    }
    v
}

fn for_each_permutation(n: usize, mut f: impl FnMut(&[usize])) {
    let mut a: Vec<usize> = (0..n).collect();
    let mut c = vec![0usize; n];
    f(&a);
    let mut i = 0;
    while i < n {
        if c[i] < i {
            if i % 2 == 0 {
                a.swap(0, i);
            } else {
                a.swap(c[i], i);
            }
            f(&a);
            c[i] += 1;
            i = 0;
        } else {
            c[i] = 0;
            i += 1;
        }
    }
}

pub fn run(thorough: bool) -> i32 {
    let mut rep = Report::new("C03", "model_checking", if thorough { "thorough" } else { "quick" });
    let cfgs = configs(thorough);
    let perm_nmax = if thorough { 9 } else { 7 };
    let seq_len = if thorough { 7 } else { 5 };
    // work items: (config, kind) kind 0 perms, 1 sequences with repetition, 2 subsets x {fwd,rev}, 3 corruption, 4 whole-session orders
    let mut items = Vec::new();
    for ci in 0..cfgs.len() {
        for kind in 0..5u8 {
            items.push((ci, kind));
        }
    }
    let cfgs = std::sync::Arc::new(cfgs);
    let cfgs2 = cfgs.clone();
    let results = par_map_wd(
        std::sync::Arc::new(items),
        Duration::from_secs(300),
        move |_, (ci, kind)| {
            let cfg = &cfgs2[*ci];
            let mut g = G::default();
            let mut viol: BTreeMap<String, (String, Case, &'static str, u64)> = BTreeMap::new();
            let p = match prepare(cfg) {
                Ok(p) => p,
                Err(e) => return (g, viol, Some(format!("{:?}: {}", cfg, e)), 0usize),
            };
            let n = p.distinct.len();
            let mut push = |key: String, what: String, seq: &[usize], c: Option<&Corrupt>, check: &'static str| {
                viol.entry(key).and_modify(|e| e.3 += 1).or_insert((what, Case { cfg: cfg.clone(), seq: seq.to_vec(), corrupt: c.cloned() }, check, 1));
            };
            match kind {
                0 => {
                    if n <= perm_nmax {
                        for_each_permutation(n, |perm| {
                            if let Some((k, w)) = run_seq(&p, perm, None, &mut g) {
                                push(k, w, perm, None, "order");
                            }
                        });
                    }
                }
                1 if n > 10 => {}
                1 => {
                    // all sequences of length 1..=seq_len over the n distinct packets, with repetition
                    let nn = n.min(8);
                    for len in 1..=seq_len {
                        let total = (nn as u64).pow(len as u32);
                        if total > (if thorough { 3_000_000 } else { 300_000 }) {
                            break;
                        }
                        let mut seq = vec![0usize; len];
                        for code in 0..total {
                            let mut c = code;
                            for s in seq.iter_mut() {
                                *s = (c % nn as u64) as usize;
                                c /= nn as u64;
                            }
                            if let Some((k, w)) = run_seq(&p, &seq, None, &mut g) {
                                push(k, w, &seq, None, "order");
                            }
                        }
                    }
                }
                2 if n > 14 => {}
                2 => {
                    let nn = n.min(14);
                    for mask in 0u32..(1 << nn) {
                        let fwd: Vec<usize> = (0..nn).filter(|j| mask >> j & 1 == 1).collect();
                        let rev: Vec<usize> = fwd.iter().rev().cloned().collect();
                        for s in [fwd, rev] {
                            if let Some((k, w)) = run_seq(&p, &s, None, &mut g) {
                                push(k, w, &s, None, "order");
                            }
                        }
                    }
                }
                4 => {
                    // whole-session orders for sessions too large for the factorial sweeps
                    if n > perm_nmax {
                        let all: Vec<usize> = (0..n).collect();
                        let mut orders: Vec<Vec<usize>> = vec![all.clone(), all.iter().rev().cloned().collect()];
                        for k in 1..n {
                            let mut o = all[k..].to_vec();
                            o.extend_from_slice(&all[..k]);
                            orders.push(o);
                        }
                        let ev: Vec<usize> = all.iter().cloned().filter(|i| i % 2 == 0).collect();
                        let od: Vec<usize> = all.iter().cloned().filter(|i| i % 2 == 1).collect();
                        orders.push(ev.iter().chain(od.iter()).cloned().collect());
                        orders.push(od.iter().chain(ev.iter()).cloned().collect());
                        for d in 0..n {
                            let mut o = all.clone();
                            o.insert(d, all[d]);
                            orders.push(o);
                        }
                        for o in &orders {
                            if let Some((k, w)) = run_seq(&p, o, None, &mut g) {
                                push(k, w, o, None, "order");
                            }
                        }
                    }
                }
                _ if !cfg.md5 => {}
                _ if n > 24 => {}
                _ => {
                    // corruption: every object packet x every payload byte x masks, and truncations
                    let all: Vec<usize> = (0..n).collect();
                    // a lossy-but-recoverable context for RS: drop the first source symbol of block 0
                    let mut contexts: Vec<Vec<usize>> = vec![all.clone()];
                    if matches!(cfg.scheme, Scheme::Rs28 | Scheme::Rs28Us) {
                        if let Some(drop) = (0..n).find(|d| {
                            let inf = &p.rec.info[p.distinct[*d]];
                            inf.toi == p.toi && inf.sbn == 0 && inf.esi == 0
                        }) {
                            contexts.push(all.iter().cloned().filter(|d| *d != drop).collect());
                        }
                    }
                    for ctx in &contexts {
                        for &d in ctx {
                            let inf = &p.rec.info[p.distinct[d]];
                            if inf.toi != p.toi {
                                continue;
                            }
                            for pos in 0..inf.payload_len {
                                for mask in [0x01u8, 0x80, 0xFF] {
                                    let c = Corrupt { pkt: d, pos, mask, trunc: 0 };
                                    if let Some((k, w)) = run_corrupt_expect(&p, ctx, &c, &mut g) {
                                        push(k, w, ctx, Some(&c), "corrupt-must-error");
                                    }
                                }
                            }
                            for trunc in 1..=inf.payload_len {
                                let c = Corrupt { pkt: d, pos: 0, mask: 0, trunc };
                                if let Some((k, w)) = run_corrupt_expect(&p, ctx, &c, &mut g) {
                                    push(k, w, ctx, Some(&c), "corrupt-must-error");
                                }
                            }
                        }
                    }
                }
            }
            (g, viol, None, n)
        },
        |_, (ci, _)| {
            let mut viol = BTreeMap::new();
            viol.insert("C03/hang".to_string(), ("sweep did not finish in 300 s".to_string(), Case { cfg: cfgs[*ci].clone(), seq: vec![], corrupt: None }, "order", 1));
            (G::default(), viol, None, 0)
        },
    );
    let mut g = G::default();
    let mut nmax = 0;
    for (gg, viol, err, n) in results {
        g.merge(&gg);
        nmax = nmax.max(n);
        if let Some(e) = err {
            rep.machinery(format!("cannot record session: {}", e));
        }
        for (key, (what, case, check, _)) in viol {
            rep.add(Violation { key, what, case: json!({"check": check, "case": serde_json::to_value(&case).unwrap()}) });
        }
    }
    rep.cov("states", g.outcomes.len() as u64);
    rep.cov("transitions", g.execs);
    rep.cov("traces_validated_against_impl", g.execs);
    rep.cov("evaluations", g.execs);
    rep.cov("distinct_nontrivial", g.outcomes.len() as u64);
    rep.cov("explanation", "states = distinct observed outcomes (per-writer call logs) over all executions; transitions = complete delivery histories executed against the real MultiReceiver; every history IS an implementation trace");
    rep.cov("exhaustive", true);
    rep.cov("configs", cfgs.len() as u64);
    rep.cov("max_distinct_packets", nmax as u64);
    rep.cov("permutation_bound", perm_nmax as u64);
    rep.cov("repetition_sequence_length", seq_len as u64);
    rep.cov("complete_deliveries_checked", g.completes);
    rep.guard("orderings_with_fdt_last", g.fdt_last);
    rep.guard("orderings_with_flagged_packet_first", g.flag_first);
    rep.guard("corruptions_detected", g.corrupt_detected);
    rep.cov("corruptions_harmless", g.corrupt_harmless);
    rep.sample(json!({"cfg": cfgs[0], "seq": [3, 0, 2, 1], "meaning": "indices into the session's distinct packets in emission order (0 = FDT)"}));
    rep.sample(json!({"cfg": cfgs[7], "seq": [0, 1, 2, 3], "corrupt": {"pkt": 1, "pos": 2, "mask": 128, "trunc": 0}}));
    rep.assume("corruption alphabet: one packet altered per history; masks {0x01,0x80,0xFF} at every payload byte and every truncation length");
    rep.finish()
}
