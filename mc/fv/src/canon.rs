//! Canonicaliser for `{:#?}` output. The derived pretty Debug prints maps and sets as a bare `{`
//! block (no type name) whose entry order is the container's iteration order; HashMap/HashSet use
//! a per-instance random state, so two equal objects print differently. This module parses the
//! indentation tree and sorts the children of every bare-`{` node, giving a text (and hash) that
//! is a function of the value only. Lists (`[`) and structs (`Name {`) keep their order.

struct Node {
    head: String,
    kids: Vec<Node>,
    tail: Option<String>,
}

fn indent_of(l: &str) -> usize {
    l.len() - l.trim_start_matches(' ').len()
}

fn opens(l: &str) -> bool {
    let t = l.trim_end();
    t.ends_with('{') || t.ends_with('[') || t.ends_with('(')
}

fn is_bare_brace(l: &str) -> bool {
    let t = l.trim();
    // "{"  or  "field: {"  or "key: {" — i.e. the token before `{` is not a type name
    t == "{" || t.ends_with(": {")
}

fn parse(lines: &[&str], pos: &mut usize) -> Node {
    let head = lines[*pos].to_string();
    let ind = indent_of(&head);
    *pos += 1;
    let mut n = Node { head, kids: Vec::new(), tail: None };
    if !opens(&n.head) {
        return n;
    }
    while *pos < lines.len() {
        let l = lines[*pos];
        let i = indent_of(l);
        if i <= ind {
            // closing line of this node: "}", "},", "]", ")," ...
            let t = l.trim();
            if i == ind && (t.starts_with('}') || t.starts_with(']') || t.starts_with(')')) {
                n.tail = Some(l.to_string());
                *pos += 1;
            }
            return n;
        }
        n.kids.push(parse(lines, pos));
    }
    n
}

fn render(n: &Node, out: &mut String) {
    out.push_str(n.head.trim_start());
    out.push('\n');
    if n.kids.is_empty() && n.tail.is_none() {
        return;
    }
    let mut parts: Vec<String> = n
        .kids
        .iter()
        .map(|k| {
            let mut s = String::new();
            render(k, &mut s);
            s
        })
        .collect();
    if is_bare_brace(&n.head) {
        parts.sort();
    }
    for p in parts {
        out.push_str(&p);
    }
    if let Some(t) = &n.tail {
        out.push_str(t.trim_start());
        out.push('\n');
    }
}

pub fn canon(text: &str) -> String {
    let lines: Vec<&str> = text.lines().collect();
    let mut pos = 0;
    let mut out = String::with_capacity(text.len());
    while pos < lines.len() {
        let n = parse(&lines, &mut pos);
        render(&n, &mut out);
    }
    out
}

pub fn canon_hash(text: &str) -> u64 {
    crate::util::h64(canon(text).as_str())
}

#[cfg(test)]
mod tests {
    #[test]
    fn sorts_maps_only() {
        use std::collections::HashMap;
        let mut a: HashMap<u32, Vec<u32>> = HashMap::new();
        let mut b: HashMap<u32, Vec<u32>> = HashMap::new();
        for i in 0..50 {
            a.insert(i, vec![i, i + 1]);
        }
        for i in (0..50).rev() {
            b.insert(i, vec![i, i + 1]);
        }
        assert_eq!(super::canon(&format!("{:#?}", a)), super::canon(&format!("{:#?}", b)));
        let v1 = vec![1, 2];
        let v2 = vec![2, 1];
        assert_ne!(super::canon(&format!("{:#?}", v1)), super::canon(&format!("{:#?}", v2)));
    }
}
