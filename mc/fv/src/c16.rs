//! C16 — carousel late join: a receiver starting at any packet boundary still gets every object
//! within two further full cycles. Engine: E1 full enumeration of join offsets over recorded real
//! carousel sessions.
use crate::chan::*;
use crate::report::*;
use crate::sess::*;
use crate::util::*;
use serde::{Deserialize, Serialize};
use serde_json::json;
use std::sync::Arc;
use std::time::{Duration, SystemTime};

#[derive(Serialize, Deserialize, Clone, Debug)]
pub struct Cfg {
    pub scheme: Scheme,
    pub nobj: usize,
    pub inband: bool,
    pub cenc: u8,
    /// true = IntervalBetweenStartTimes, false = DelayBetweenTransfers
    pub interval: bool,
    pub full_fdt: bool,
    /// FDT symbol size (512 => multi-packet instance)
    pub fdt_e: u16,
    pub with_empty: bool,
    /// max_transfer_count of the carouselled objects (copies per carousel turn)
    #[serde(default)]
    pub count: u32,
    #[serde(default)]
    pub interleave: u8,
    /// content encoding of the FDT itself
    #[serde(default)]
    pub fdt_cenc: u8,
    /// FTI and CENC signalled differently (CENC in-band iff the FTI is NOT in-band), and no Content-MD5
    #[serde(default)]
    pub split_sig: bool,
    /// the objects inherit the session's OTI (no TransferConfig::oti); the session OTI is the scheme's
    #[serde(default)]
    pub inherit: bool,
    /// session variant: 0 = base; 1 = FDT carousel by start-time interval, RFC 3926 profile, no SCT in
    /// the FDT packets; 2 = FDT instance ids wrapping (start id 0xFFFFE), 16-bit TOIs starting at 65534;
    /// 3 = FDT duration 20 s in a session of 32 s, joins enumerated in the cycle at 24 s (the first instance has expired);
    /// 4 = gzip-compressed FDT instances in source blocks of two 64-byte symbols
    #[serde(default)]
    pub sess_var: u8,
    /// objects of six and more blocks received with object_max_cache_size = 12 bytes and no error memory: a join in
    /// the middle of an object overflows the cache (the object is abandoned) and the next cycle must still deliver it
    #[serde(default)]
    pub small_cache: bool,
    /// the objects come from streams (re-read at every carousel turn) instead of buffers
    #[serde(default)]
    pub stream: bool,
}

#[derive(Serialize, Deserialize, Clone, Debug)]
pub struct Case {
    pub cfg: Cfg,
    pub join: usize,
}

pub struct Prepared {
    pub rec: Rec,
    /// index of the first packet of each cycle (poll)
    pub cycle_start: Vec<usize>,
    pub contents: Vec<(u128, Vec<u8>)>,
    /// index of the cycle the joins are enumerated in (0, or a cycle after the first FDT instance expired)
    pub base: usize,
}

const POLLS: [u64; 4] = [0, 2000, 4000, 6000];

pub fn prepare(c: &Cfg) -> Result<Prepared, String> {
    let (e, b, parity, len) = match c.scheme {
        Scheme::NoCode => (4u16, 2u16, 0u16, 11usize),
        Scheme::Raptor => (2, 4, 1, 15), // 8, 12, 16 symbols: blocks of 4 (blocks of 2 or 3 symbols are refused at add_object)
        _ => (4, 2, 1, 11),
    };
    // a compressed length cannot be steered into blocks of 4: one large block instead
    let b = if c.scheme == Scheme::Raptor && c.cenc != 0 { 64 } else { b };
    let mut objs = Vec::new();
    for j in 0..c.nobj {
        let l = if c.with_empty && j == c.nobj - 1 { 0 } else { len + if c.scheme == Scheme::Raptor { 8 } else { 2 } * j + if c.small_cache { 40 } else { 0 } };
        let mut o = ObjSpec::simple(l, 20 + j as u8);
        o.oti = if c.inherit { None } else { Some(OtiSpec::new(c.scheme, e, b, parity, c.inband)) };
        o.cenc = if l > 0 { c.cenc } else { 0 };
        o.text = o.cenc != 0;
        o.inband_cenc = c.inband != c.split_sig;
        // without a Content-MD5 nothing but correct signalling protects the bytes (with it, a wrongly decoded
        // copy ends in error and a later cycle repairs the delivery)
        o.md5 = !c.split_sig;
        o.carousel = Some(if c.interval { Carousel::Interval(1000) } else { Carousel::Delay(500) });
        o.count = c.count.max(1);
        if c.stream && o.cenc == 0 {
            o.source = Source::Stream(3);
        }
        objs.push(o);
    }
    let mut s = SessSpec::basic(if c.inherit { OtiSpec::new(c.scheme, if c.scheme == Scheme::Raptor { 16 } else { e.max(8) * 4 }, if c.scheme == Scheme::Raptor { 64 } else { 8 }, parity, c.inband) } else { OtiSpec::new(Scheme::NoCode, c.fdt_e, 64, 0, true) });
    s.full_fdt = c.full_fdt;
    s.interleave = c.interleave.max(1);
    s.fdt_cenc = c.fdt_cenc;
    s.queues = vec![(0, 2)];
    match c.sess_var {
        1 => {
            s.fdt_carousel = Carousel::Interval(1000);
            s.rfc3926 = true;
            s.sct = false;
        }
        2 => {
            s.fdt_start_id = 0xFFFFE;
            s.toi_bits = 16;
            s.toi_init = Some("65534".into());
        }
        3 => {
            s.fdt_duration_s = 20;
        }
        4 => {
            // gzip-compressed FDT instances cut into source blocks of two 64-byte symbols (a compressed instance
            // longer than one source block); the objects keep their own OTI
            if !c.inherit {
                s.oti = OtiSpec::new(Scheme::NoCode, 64, 2, 0, true);
            }
            s.fdt_cenc = 3;
        }
        _ => {}
    }
    let (polls, base): (Vec<u64>, usize) = if c.sess_var == 3 { ((0..=16u64).map(|i| i * 2000).collect(), 12) } else { (POLLS.to_vec(), 0) };
    let spec = RecSpec { sess: s, objs: objs.clone(), polls_ms: polls.clone() };
    let rec = record(&spec)?;
    let mut cycle_start = Vec::new();
    for ms in polls {
        let t = at_ms(ms);
        cycle_start.push(rec.pkts.iter().position(|p| p.0 == t).ok_or(format!("no packet at poll {}", ms))?);
    }
    let contents = rec.objs.iter().map(|(toi, i, _)| (*toi, objs[*i].content())).collect();
    Ok(Prepared { rec, cycle_start, contents, base })
}

#[derive(Default, Clone)]
pub struct G {
    pub joins: u64,
    pub joins_inside_fdt: u64,
    pub joins_inside_block: u64,
    pub joins_using_cache: u64,
}

pub fn run_join(p: &Prepared, c: &Cfg, join: usize, g: &mut G) -> Option<(String, String)> {
    g.joins += 1;
    let end = p.cycle_start[p.base + 3]; // end of the second full cycle after the cycle of the join
    let seq: Vec<(SystemTime, &[u8])> = (join..end).map(|i| (p.rec.pkts[i].0 + Duration::from_millis(0), &p.rec.pkts[i].1[..])).collect();
    // classify the join point
    if join > 0 && join < p.rec.pkts.len() {
        let prev = &p.rec.info[join - 1];
        let next = &p.rec.info[join];
        if prev.toi == 0 && next.toi == 0 && prev.fdt_id == next.fdt_id {
            g.joins_inside_fdt += 1;
        }
        if prev.toi != 0 && prev.toi == next.toi && prev.sbn == next.sbn {
            g.joins_inside_block += 1;
        }
        if !c.inband && next.toi != 0 {
            g.joins_using_cache += 1;
        }
    }
    let mut rc = recv_config(true);
    if c.small_cache {
        rc.object_max_cache_size = Some(12);
        rc.max_objects_error = 0;
    }
    let out = deliver_seq(&seq, rc, true);
    if let Some(pm) = out.panic {
        return Some((format!("C16/panic/{}", panic_sig(&pm)), format!("panic: {}", pm)));
    }
    for (toi, content) in &p.contents {
        let ok = out.writers.iter().any(|w| w.toi == *toi && w.is_complete() && &w.data() == content);
        if !ok {
            let where_ = {
                let i = &p.rec.info[join.min(p.rec.info.len() - 1)];
                if join == p.cycle_start[p.base] {
                    "at the first packet".to_string()
                } else if i.toi == 0 {
                    format!("before a packet of FDT instance {:?}", i.fdt_id)
                } else {
                    format!("before packet (toi {}, sbn {}, esi {})", i.toi, i.sbn, i.esi)
                }
            };
            let logs: Vec<String> = out.writers.iter().filter(|w| w.toi == *toi).map(|w| w.short()).collect();
            let cls = format!("{}{}{}", if content.is_empty() { "/empty-object" } else { "" }, if c.inband { "/inband" } else { "/fdt-only" }, if c.full_fdt { "" } else { "/obt" });
            return Some((
                format!("C16/not-delivered-within-two-cycles{}", cls),
                format!("{:?} {} object(s): joining {} (packet index {} of the recorded session), object TOI {} ({} bytes) has no complete byte-exact delivery after two further full cycles; writer logs {:?}", c.scheme, c.nobj, where_, join, toi, content.len(), logs),
            ));
        }
    }
    None
}

pub fn replay(v: &serde_json::Value) -> Vec<Violation> {
    let c: Case = serde_json::from_value(v["case"].clone()).expect("case");
    let p = prepare(&c.cfg).expect("prepare");
    let mut g = G::default();
    run_join(&p, &c.cfg, c.join, &mut g).into_iter().map(|(key, what)| Violation { key, what, case: v.clone() }).collect()
}

pub fn configs(thorough: bool) -> Vec<Cfg> {
    let mut v = Vec::new();
    for scheme in ALL_SCHEMES {
        for nobj in 1..=3usize {
            for inband in [true, false] {
                for cenc in [0u8, 3] {
                    for interval in [false, true] {
                        for full_fdt in [true, false] {
                            for fdt_e in [1424u16, 512] {
                                for with_empty in [false, true] {
                                    for (count, interleave) in [(1u32, 1u8), (2, 1), (1, 2), (2, 3)] {
                                        // objects inheriting the session OTI: in both tiers for every (scheme, nobj, signalling, carousel kind,
                                        // publish mode) - not thinned by the quick filter below
                                        if cenc == 0 && count == 1 && interleave == 1 && !with_empty && fdt_e == 1424 {
                                            v.push(Cfg { scheme, nobj, inband, cenc, interval, full_fdt, fdt_e, with_empty, count, interleave, fdt_cenc: 0, split_sig: false, inherit: true, sess_var: 0, small_cache: false, stream: false });
                                        }
                                        if !thorough {
                                            let k = nobj + inband as usize + (cenc != 0) as usize + interval as usize + full_fdt as usize + (fdt_e == 512) as usize + with_empty as usize + scheme as usize + count as usize + interleave as usize;
                                            if k % 5 != 0 {
                                                continue;
                                            }
                                        }
                                        if with_empty && nobj == 1 && cenc != 0 {
                                            continue;
                                        }
                                        v.push(Cfg { scheme, nobj, inband, cenc, interval, full_fdt, fdt_e, with_empty, count, interleave, fdt_cenc: 0, split_sig: false, inherit: false, sess_var: 0, small_cache: false, stream: false });
                                        if count == 1 && interleave == 1 && fdt_e == 1424 {
                                            for sess_var in [1u8, 2, 3, 4] {
                                                v.push(Cfg { scheme, nobj, inband, cenc, interval, full_fdt, fdt_e, with_empty, count, interleave, fdt_cenc: 0, split_sig: false, inherit: false, sess_var, small_cache: false, stream: false });
                                            }
                                        }
                                        if cenc == 0 && fdt_e == 1424 {
                                            v.push(Cfg { scheme, nobj, inband, cenc, interval, full_fdt, fdt_e, with_empty, count, interleave, fdt_cenc: 0, split_sig: false, inherit: false, sess_var: 0, small_cache: false, stream: true });
                                        }
                                        if cenc == 0 && count == 1 && interleave == 1 && !with_empty && fdt_e == 1424 && scheme != Scheme::Raptor {
                                            v.push(Cfg { scheme, nobj, inband, cenc, interval, full_fdt, fdt_e, with_empty, count, interleave, fdt_cenc: 0, split_sig: false, inherit: false, sess_var: 0, small_cache: true, stream: false });
                                        }
                                        if cenc != 0 && count == 1 && interleave == 1 {
                                            v.push(Cfg { scheme, nobj, inband, cenc, interval, full_fdt, fdt_e, with_empty, count, interleave, fdt_cenc: 0, split_sig: true, inherit: false, sess_var: 0, small_cache: false, stream: false });
                                        }
                                        if count == 1 && interleave == 1 && (thorough || fdt_e == 512) {
                                            v.push(Cfg { scheme, nobj, inband, cenc, interval, full_fdt, fdt_e, with_empty, count, interleave, fdt_cenc: 1 + (nobj as u8 % 3), split_sig: false, inherit: false, sess_var: 0, small_cache: false, stream: false });
                                        }
                                    }
                                }
                            }
                        }
                    }
                }
            }
        }
    }
    v
}

pub fn run(thorough: bool) -> i32 {
    let mut rep = Report::new("C16", "model_checking", if thorough { "thorough" } else { "quick" });
    let cfgs = Arc::new(configs(thorough));
    let cfgs2 = cfgs.clone();
    let res = par_map_wd(
        cfgs.clone(),
        Duration::from_secs(60),
        |_, c| {
            let mut g = G::default();
            let mut found: Vec<(String, String, usize)> = Vec::new();
            let p = match prepare(c) {
                Ok(p) => p,
                Err(e) => return (g, found, Some(e), 0usize),
            };
            let n0 = p.cycle_start[p.base + 1] - p.cycle_start[p.base];
            for join in p.cycle_start[p.base]..=p.cycle_start[p.base + 1] {
                if let Some((k, w)) = run_join(&p, c, join, &mut g) {
                    if !found.iter().any(|f| f.0 == k) {
                        found.push((k, w, join));
                    }
                }
            }
            (g, found, None, n0)
        },
        move |i, _| (G::default(), vec![("C16/hang".into(), format!("join sweep of {:?} did not finish", cfgs2[i]), 0)], None, 0),
    );
    let mut g = G::default();
    let mut maxc = 0;
    let mut refused = 0;
    let mut per_scheme: std::collections::BTreeMap<String, (u64, u64)> = Default::default();
    for (c, (gg, found, err, n0)) in cfgs.iter().zip(res) {
        let ps = per_scheme.entry(format!("{:?}", c.scheme)).or_default();
        if err.is_some() {
            ps.1 += 1;
        } else {
            ps.0 += 1;
        }
        g.joins += gg.joins;
        g.joins_inside_fdt += gg.joins_inside_fdt;
        g.joins_inside_block += gg.joins_inside_block;
        g.joins_using_cache += gg.joins_using_cache;
        maxc = maxc.max(n0);
        if let Some(e) = err {
            if e.starts_with("add_object") {
                refused += 1;
            } else {
                rep.machinery(format!("{:?}: {}", c, e));
            }
        }
        for (key, what, join) in found {
            rep.add(Violation { key, what, case: json!({"check": "join", "case": {"cfg": c, "join": join}}) });
        }
    }
    rep.cov("states", g.joins);
    rep.cov("transitions", g.joins);
    rep.cov("traces_validated_against_impl", g.joins);
    rep.cov("evaluations", g.joins);
    rep.cov("distinct_nontrivial", g.joins);
    rep.cov("explanation", "one execution per (recorded real carousel session, join offset): the suffix of the sender's stream from that packet boundary to the end of the second further full cycle is pushed into a fresh real receiver; all join offsets of the first cycle are enumerated");
    rep.cov("exhaustive", true);
    rep.cov("configs", cfgs.len() as u64);
    rep.cov("configs_refused_by_add_object", refused);
    rep.cov("configs_run_and_refused_per_scheme", json!(per_scheme));
    for (k, v) in &per_scheme {
        rep.guard(&format!("configs_run_{}", k), v.0);
    }
    rep.cov("max_packets_in_first_cycle", maxc as u64);
    rep.guard("joins_inside_an_fdt_instance", g.joins_inside_fdt);
    rep.guard("joins_inside_a_source_block", g.joins_inside_block);
    rep.guard("joins_using_the_packet_cache", g.joins_using_cache);
    rep.sample(json!({"cfg": cfgs[0], "join": 3}));
    rep.assume("a cycle = everything the sender emits at one poll (polls every 2 s; object carousel delay 0.5 s / interval 1 s; FDT carousel 1 s); no loss after the join");
    rep.finish()
}
