//! C10 — FDT instances list exactly the announced objects, survive XML, fresh id / expiry.
//! Engine: E2 explicit-state BFS over the real Sender; every FDT instance is reassembled from the
//! TOI-0 packets by the independent codec, then read (a) by an independent XML parser (expat,
//! tools/fdt_parse.py, batched) and (b) by flute's own receiver, and compared with the reference
//! set at publication time.
use crate::monitor::*;
use crate::report::*;
use crate::rfc;
use crate::sendsys::*;
use crate::sess::*;
use crate::statex::*;
use crate::util::*;
use serde::{Deserialize, Serialize};
use serde_json::json;
use std::collections::{BTreeMap, BTreeSet};
use std::sync::{Arc, Mutex};

#[derive(Serialize, Deserialize, Clone, Debug)]
pub struct Cfg {
    pub full_fdt: bool,
    pub start_id: u32,
    pub duration_s: u64,
    pub fdt_cenc: u8,
    /// initial clock phase in ms (publish instants fall on .0 / .5 / .9 s)
    pub phase_ms: u64,
    /// session OTI (inherited by catalogue object 2 and used for the FDT itself): 0 = No-Code (1424, 64),
    /// 1 = RS GF(2^8) under-specified (512, 32, parity 2), 2 = RS GF(2^8) (256, 32, parity 2), 3 = Raptor (16, 64, parity 1)
    #[serde(default)]
    pub sess_scheme: u8,
    /// 1 = object 0 under Raptor, object 3 under RS GF(2^8) under-specified
    #[serde(default)]
    pub cat_var: u8,
}

pub fn catalog_of(cat_var: u8) -> Vec<ObjSpec> {
    let mut v = catalog();
    if cat_var == 1 {
        v[0].oti = Some(OtiSpec::new(Scheme::Raptor, 16, 8, 1, false));
        v[3].oti = Some(OtiSpec::new(Scheme::Rs28Us, 8, 3, 2, false));
    }
    v
}

pub fn sess_oti(k: u8) -> OtiSpec {
    match k {
        1 => OtiSpec::new(Scheme::Rs28Us, 512, 32, 2, true),
        2 => OtiSpec::new(Scheme::Rs28, 256, 32, 2, true),
        3 => OtiSpec::new(Scheme::Raptor, 16, 64, 1, true),
        _ => OtiSpec::new(Scheme::NoCode, 1424, 64, 0, true),
    }
}

pub fn catalog() -> Vec<ObjSpec> {
    let long: String = "L".repeat(300);
    let mut v = Vec::new();
    // 0: quotes, ampersand, angle brackets in every string field
    let mut o = ObjSpec::simple(9, 1);
    o.oti = Some(OtiSpec::new(Scheme::NoCode, 4, 2, 0, true));
    o.location = "file:///dir/a b&c<d>'e\"f]]>.bin?q=1&r=<2>".into();
    o.ctype = "text/x-\"quoted\"; a='b' & <c> ]]>".into();
    o.etag = Some("\"W/<&>'\"".into());
    o.groups = Some(vec!["g&1".into(), "<g2>".into()]);
    o.cache = Some(Cache::NoCache);
    v.push(o);
    // 1: non-ASCII and long strings, RaptorQ OTI, gzip
    let mut o = ObjSpec::simple(40, 2);
    o.oti = Some(OtiSpec::new(Scheme::RaptorQ, 4, 4, 1, false));
    o.text = true;
    o.cenc = 3;
    o.location = format!("http://exämple.org/päth/ünï/{}", &long[..40]);
    o.ctype = format!("application/x-{}", long);
    o.etag = Some("été-日本語-🙂".into());
    o.groups = Some(vec![long.clone()]);
    o.cache = Some(Cache::ExpiresMs(90_000));
    o.count = 2;
    v.push(o);
    // 2: default OTI (none per object), max-stale, no md5
    let mut o = ObjSpec::simple(3, 3);
    o.location = "file:///plain".into();
    o.md5 = false;
    o.cache = Some(Cache::MaxStale);
    v.push(o);
    // 3: RS OTI, absolute expiry, empty object
    let mut o = ObjSpec::simple(0, 4);
    o.oti = Some(OtiSpec::new(Scheme::Rs28, 8, 3, 2, true));
    o.location = "x-scheme:opaque&<>\"'".into();
    o.cache = Some(Cache::ExpiresAtMs(7_200_000));
    v.push(o);
    v
}

pub fn sess(c: &Cfg) -> SessSpec {
    let mut s = SessSpec::basic(sess_oti(c.sess_scheme));
    s.full_fdt = c.full_fdt;
    s.fdt_start_id = c.start_id;
    s.fdt_duration_s = c.duration_s;
    s.fdt_cenc = c.fdt_cenc;
    s.groups = Some(vec!["session & <group>".into()]);
    s
}

/// what one FDT instance is expected to say
#[derive(Clone, Debug, PartialEq, Eq, Hash, Serialize, Deserialize)]
pub struct Expect {
    /// catalogue indices with their TOIs
    pub files: Vec<(usize, String)>,
    /// publish instant (ms on the virtual clock)
    pub publish_ms: u64,
    pub complete: bool,
    pub duration_s: u64,
    pub full_fdt: bool,
    #[serde(default)]
    pub sess_scheme: u8,
    #[serde(default)]
    pub cat_var: u8,
}

#[derive(Default, Debug, Clone, PartialEq, Eq, Hash)]
pub struct Mon10 {
    pub next_id: u32,
    /// id -> (expectation, hash of the canonical content once seen complete)
    pub pubs: BTreeMap<u32, (Expect, Option<u64>)>,
    pub ids_emitted: Vec<u32>,
    pub violation: Option<(String, String)>,
    pub wit_wrap: bool,
    pub wit_auto: bool,
    pub wit_removed_between: bool,
}

pub struct Sys10 {
    pub cfg: Cfg,
    pub s: SendSys,
    pub mon: Mon10,
    pub docs: Arc<Mutex<BTreeMap<(Vec<u8>, String), Expect>>>,
    pub tls: Vec<u64>,
}

fn model_files(s: &SendSys, log_upto: usize, full_fdt: bool) -> Vec<(usize, String)> {
    // reference set from the API results and Subscriber events before `log_upto`
    let n = s.catalog.len();
    let mut added = vec![false; n];
    let mut removed = vec![false; n];
    let mut stops = vec![0u32; n];
    let mut open = vec![false; n];
    let k_of = |t: u128| s.toi_of.iter().position(|x| *x == Some(t));
    for it in &s.log[..log_upto] {
        match it {
            Item::Api(Ev::Add(k), r) if r.starts_with("toi=") => added[*k] = true,
            Item::Api(Ev::Remove(k), r) if r == "true" => removed[*k] = true,
            Item::Start(t, _) => {
                if let Some(k) = k_of(*t) {
                    open[k] = true;
                }
            }
            Item::Stop(t, _) => {
                if let Some(k) = k_of(*t) {
                    open[k] = false;
                    stops[k] += 1;
                }
            }
            _ => {}
        }
    }
    let mut v = Vec::new();
    for k in 0..n {
        let listed = if full_fdt { added[k] && !removed[k] && stops[k] < s.catalog[k].count } else { open[k] && !removed[k] };
        if listed {
            v.push((k, s.toi_of[k].unwrap().to_string()));
        }
    }
    v
}

impl Sys10 {
    fn settle_inner(&mut self) {
        let mut m = Mon10 { next_id: self.cfg.start_id, ..Default::default() };
        let mut complete_flag = false;
        let mut asm: BTreeMap<u32, FdtAsm> = BTreeMap::new();
        let mut last_pub_files: Option<Vec<(usize, String)>> = None;
        let mut viol = |m: &mut Mon10, k: &str, w: String| {
            if m.violation.is_none() {
                m.violation = Some((k.to_string(), w));
            }
        };
        let mut newest_done: Option<(u32, u64)> = None; // (id, expires unix secs)
        for (li, it) in self.s.log.iter().enumerate() {
            match it {
                Item::Api(Ev::SetComplete, _) => complete_flag = true,
                Item::Api(Ev::Publish, r) if r == "true" => {
                    let files = model_files(&self.s, li, self.cfg.full_fdt);
                    if let Some(prev) = &last_pub_files {
                        if prev.iter().any(|f| !files.contains(f)) {
                            m.wit_removed_between = true;
                        }
                    }
                    last_pub_files = Some(files.clone());
                    let t = match &self.s.log[..li].iter().rev().find_map(|x| if let Item::Api(Ev::Tick(_), _) = x { Some(()) } else { None }) {
                        _ => now_at(&self.s.log, li, self.cfg.phase_ms),
                    };
                    let id = m.next_id;
                    m.pubs.insert(id, (Expect { files, publish_ms: t, complete: complete_flag, duration_s: self.cfg.duration_s, full_fdt: self.cfg.full_fdt, sess_scheme: self.cfg.sess_scheme, cat_var: self.cfg.cat_var }, None));
                    m.next_id = (m.next_id + 1) & 0xFFFFF;
                    if m.next_id == 0 {
                        m.wit_wrap = true;
                    }
                }
                Item::Pkt(p) if p.toi == 0 => {
                    let id = match p.fdt_id {
                        Some(i) => i,
                        None => continue,
                    };
                    if !m.pubs.contains_key(&id) {
                        // automatic publication (expiry, or transfer start in ObjectsBeingTransferred mode)
                        if id != m.next_id {
                            let msg = format!("FDT instance id {} appears, the previous publication had id {} (expected {} = +1 mod 2^20)", id, (m.next_id + 0xFFFFF) & 0xFFFFF, m.next_id);
                            viol(&mut m, "C10/instance-id-not-successor", msg);
                        }
                        let files = model_files(&self.s, li, self.cfg.full_fdt);
                        m.pubs.insert(id, (Expect { files, publish_ms: p.t_ms, complete: complete_flag, duration_s: self.cfg.duration_s, full_fdt: self.cfg.full_fdt, sess_scheme: self.cfg.sess_scheme, cat_var: self.cfg.cat_var }, None));
                        m.next_id = (id + 1) & 0xFFFFF;
                        if m.next_id == 0 {
                            m.wit_wrap = true;
                        }
                        m.wit_auto = true;
                    }
                    if m.ids_emitted.last() != Some(&id) {
                        m.ids_emitted.push(id);
                    }
                    let a = asm.entry(id).or_insert_with(|| {
                        let (l, e, b) = p.fti.unwrap_or((0, 0, 0));
                        FdtAsm { id, l, e, b, cenc: p.cenc.unwrap_or(0), ..Default::default() }
                    });
                    let is_src = a.is_source(p.sbn, p.esi);
                    if is_src && a.done_at_index.is_some() {
                        a.symbols.clear();
                        a.done_at_index = None;
                    }
                    if is_src {
                        a.symbols.insert((p.sbn, p.esi), p.payload.clone());
                    }
                    if is_src && a.complete() {
                        a.done_at_index = Some(li);
                        match a.xml() {
                            None => viol(&mut m, "C10/instance-not-reassemblable", format!("FDT instance {} cannot be reassembled / inflated from its packets", id)),
                            Some(xml) => {
                                let h = h64(&canonical_files(&xml));
                                let (exp, seen) = m.pubs.get(&id).cloned().unwrap();
                                if let Some(prev) = seen {
                                    if prev != h {
                                        viol(&mut m, "C10/id-denotes-two-contents", format!("FDT instance id {} was emitted with two different contents", id));
                                    }
                                }
                                m.pubs.insert(id, (exp.clone(), Some(h)));
                                let e_unix = EPOCH_2027 + exp.publish_ms / 1000 + exp.duration_s;
                                newest_done = Some((id, e_unix));
                                self.docs.lock().unwrap().entry((xml, serde_json::to_string(&exp).unwrap())).or_insert(exp);
                            }
                        }
                    }
                }
                Item::Idle(ms) => {
                    // supersession: after draining, the newest completely emitted instance is unexpired
                    if let Some((id, e_unix)) = newest_done {
                        let now_unix_ms = EPOCH_2027 * 1000 + *ms;
                        if e_unix * 1000 < now_unix_ms {
                            let cls = if self.cfg.duration_s <= 10 { "duration<=10s" } else { "duration>10s" };
                            viol(&mut m, &format!("C10/expired-instance-not-superseded/{}", cls), format!("at t={}ms the sender has nothing to send, yet the newest FDT instance (id {}) expired at t={}ms (duration {} s, published at phase {} ms)", ms, id, (e_unix - EPOCH_2027) * 1000, self.cfg.duration_s, self.cfg.phase_ms));
                        }
                    }
                }
                _ => {}
            }
        }
        self.mon = m;
    }
}

fn now_at(log: &[Item], upto: usize, phase: u64) -> u64 {
    let mut t = phase;
    for it in &log[..upto] {
        if let Item::Api(Ev::Tick(d), _) = it {
            t += d;
        }
    }
    t
}

/// the File elements of an instance, sorted (order in the document follows a map iteration)
fn canonical_files(xml: &[u8]) -> Vec<String> {
    let txt = String::from_utf8_lossy(xml).to_string();
    let mut v = Vec::new();
    let mut rest = &txt[..];
    while let Some(i) = rest.find("<File") {
        let r = &rest[i..];
        let end = match (r.find("/>"), r.find("</File>")) {
            (Some(a), Some(b)) if a < b && !r[..a].contains('>') => a + 2,
            (_, Some(b)) => b + 7,
            (Some(a), None) => a + 2,
            _ => r.len(),
        };
        v.push(r[..end].to_string());
        rest = &r[end..];
    }
    v.sort();
    // attributes of the root except Expires
    if let Some(i) = txt.find("<FDT-Instance") {
        if let Some(j) = txt[i..].find('>') {
            let root = &txt[i..i + j];
            let root = match root.find("Expires=\"") {
                Some(k) => {
                    let e = root[k + 9..].find('"').map(|e| k + 9 + e + 1).unwrap_or(root.len());
                    format!("{}{}", &root[..k], &root[e..])
                }
                None => root.to_string(),
            };
            v.push(root);
        }
    }
    v
}

impl Sys for Sys10 {
    type Ev = Ev;
    fn enabled(&self) -> Vec<Ev> {
        let mut v = vec![Ev::Drain];
        if let Some(k) = (0..self.s.catalog.len()).find(|k| self.s.toi_of[*k].is_none()) {
            v.push(Ev::Add(k));
        }
        v.push(Ev::Publish);
        for kind in 0..2u8 {
            if !self.s.log.iter().any(|i| matches!(i, Item::Api(Ev::AddRefused(k), _) if *k == kind)) {
                v.push(Ev::AddRefused(kind));
            }
        }
        for k in 0..self.s.catalog.len() {
            if self.s.toi_of[k].is_some() && !self.s.removed[k] {
                v.push(Ev::Remove(k));
            }
        }
        if !self.s.log.iter().any(|i| matches!(i, Item::Api(Ev::SetComplete, _))) {
            v.push(Ev::SetComplete);
        }
        let d = self.cfg.duration_s * 1000;
        v.push(Ev::Tick(100));
        v.push(Ev::Tick(d / 2));
        v.push(Ev::Tick(d));
        v
    }
    fn apply(&mut self, ev: &Ev) {
        self.s.apply(ev);
    }
    fn settle(&mut self) {
        self.settle_inner();
    }
    fn fingerprint(&self) -> u64 {
        h64(&(self.s.sender_fp(), self.s.now_ms, &self.mon, self.s.toi_of.clone(), self.s.removed.clone(), self.s.panicked.clone()))
    }
    fn verdicts(&self) -> Vec<(String, String)> {
        let mut v = Vec::new();
        if let Some(p) = &self.s.panicked {
            v.push((format!("C10/panic/{}", panic_sig(p)), format!("panic: {}", p)));
        }
        if let Some(x) = self.mon.violation.clone() {
            v.push(x);
        }
        v
    }
    fn witnesses(&self) -> Vec<&'static str> {
        let mut w = Vec::new();
        if self.mon.wit_wrap {
            w.push("id_wrapped");
        }
        if self.mon.wit_auto {
            w.push("automatic_republication");
        }
        if self.mon.wit_removed_between {
            w.push("removal_between_two_publications");
        }
        w
    }
}

pub fn make(cfg: &Cfg, docs: Arc<Mutex<BTreeMap<(Vec<u8>, String), Expect>>>) -> Sys10 {
    let mut s = SendSys::new(&sess(cfg), Arc::new(catalog_of(cfg.cat_var)));
    s.now_ms = cfg.phase_ms;
    Sys10 { cfg: cfg.clone(), s, mon: Mon10::default(), docs, tls: vec![] }
}

pub fn replay(v: &serde_json::Value) -> Vec<Violation> {
    if v["check"] == "doc" {
        let xml = unhex(v["case"]["xml_hex"].as_str().unwrap());
        let exp: Expect = serde_json::from_value(v["case"]["expect"].clone()).expect("expect");
        let mut docs = BTreeMap::new();
        docs.insert((xml, String::new()), exp);
        let mut out = Vec::new();
        check_docs(&docs, &mut |k, w, c| out.push(Violation { key: k, what: w, case: c }));
        return out;
    }
    let cfg: Cfg = serde_json::from_value(v["case"]["cfg"].clone()).expect("cfg");
    let hist: Vec<Ev> = serde_json::from_value(v["case"]["history"].clone()).expect("history");
    let mut s = make(&cfg, Arc::new(Mutex::new(BTreeMap::new())));
    for e in &hist {
        s.apply(e);
    }
    s.settle();
    s.verdicts().into_iter().map(|(key, what)| Violation { key, what, case: v.clone() }).collect()
}

// ------------------------------------------------------------------------------------------------
// post-pass: every distinct FDT document against its expectation, through expat and through flute

fn expected_attrs(o: &ObjSpec, toi: &str, sess: &SessSpec, publish_ms: u64) -> (BTreeMap<String, String>, Vec<String>, Option<(String, String)>) {
    let mut a = BTreeMap::new();
    let d = o.desc(None).unwrap();
    a.insert("TOI".to_string(), toi.to_string());
    a.insert("Content-Location".to_string(), url::Url::parse(&o.location).unwrap().to_string());
    a.insert("Content-Length".to_string(), o.len.to_string());
    a.insert("Transfer-Length".to_string(), d.transfer_length.to_string());
    a.insert("Content-Type".to_string(), o.ctype.clone());
    if o.cenc != 0 {
        a.insert("Content-Encoding".to_string(), ["null", "zlib", "deflate", "gzip"][o.cenc as usize].to_string());
    }
    if o.md5 {
        a.insert("Content-MD5".to_string(), md5_b64(&o.content()));
    }
    if let Some(e) = &o.etag {
        a.insert("File-ETag".to_string(), e.clone());
    }
    if let Some(oti) = &o.oti {
        a.insert("FEC-OTI-FEC-Encoding-ID".to_string(), oti.scheme.cp().to_string());
        a.insert("FEC-OTI-Encoding-Symbol-Length".to_string(), oti.e.to_string());
        a.insert("FEC-OTI-Maximum-Source-Block-Length".to_string(), oti.b.to_string());
        a.insert("FEC-OTI-Max-Number-of-Encoding-Symbols".to_string(), (oti.b as u32 + oti.parity as u32).to_string());
    }
    let groups = o.groups.clone().unwrap_or_default();
    let floor_ntp = |unix_ms: u64| unix_to_ntp_secs(unix_ms / 1000).to_string();
    let cache = o.cache.as_ref().map(|c| match c {
        Cache::NoCache => ("no-cache".to_string(), "true".to_string()),
        Cache::MaxStale => ("max-stale".to_string(), "true".to_string()),
        Cache::ExpiresMs(ms) => ("Expires".to_string(), floor_ntp(EPOCH_2027 * 1000 + publish_ms + ms)),
        Cache::ExpiresAtMs(ms) => ("Expires".to_string(), floor_ntp(EPOCH_2027 * 1000 + ms)),
    });
    let _ = sess;
    (a, groups, cache)
}

pub fn check_docs(docs: &BTreeMap<(Vec<u8>, String), Expect>, add: &mut dyn FnMut(String, String, serde_json::Value)) -> (u64, u64) {
    use std::io::Write;
    let list: Vec<(&Vec<u8>, &Expect)> = docs.iter().map(|(k, v)| (&k.0, v)).collect();
    // (a) independent XML parser, batched
    // documents go through a file (writing a pipe while the child fills its own output pipe deadlocks)
    let dir = crate::c01::fresh_tmp("c10");
    let inp = dir.join("docs.hex");
    {
        let mut f = std::fs::File::create(&inp).expect("docs file");
        for (xml, _) in &list {
            writeln!(f, "{}", hex(xml)).unwrap();
        }
    }
    let out = match std::process::Command::new("python3").arg("/verif/tools/fdt_parse.py").stdin(std::fs::File::open(&inp).unwrap()).output() {
        Ok(o) => o,
        Err(e) => {
            add("C10/machinery".into(), format!("cannot run python3 tools/fdt_parse.py: {}", e), json!({}));
            return (0, 0);
        }
    };
    std::fs::remove_dir_all(&dir).ok();
    let lines: Vec<serde_json::Value> = String::from_utf8_lossy(&out.stdout).lines().filter_map(|l| serde_json::from_str(l).ok()).collect();
    if lines.len() != list.len() {
        add("C10/machinery".into(), format!("fdt_parse.py answered {} lines for {} documents: {}", lines.len(), list.len(), String::from_utf8_lossy(&out.stderr)), json!({}));
        return (0, 0);
    }
    let mut escaped = 0u64;
    let mut checked = 0u64;
    for ((xml, exp), parsed) in list.iter().zip(lines.iter()) {
        checked += 1;
        let case = json!({"check": "doc", "case": {"xml_hex": hex(xml), "expect": exp}});
        let cat = catalog_of(exp.cat_var);
        let scfg = Cfg { full_fdt: exp.full_fdt, start_id: 1, duration_s: exp.duration_s, fdt_cenc: 0, phase_ms: 0, sess_scheme: exp.sess_scheme, cat_var: exp.cat_var };
        let s = sess(&scfg);
        if parsed["ok"] != true {
            add("C10/not-well-formed".into(), format!("independent XML parser rejects an emitted FDT instance: {}", parsed["error"]), case.clone());
            continue;
        }
        if parsed["root"] != "FDT-Instance" {
            add("C10/wrong-root".into(), format!("root element {}", parsed["root"]), case.clone());
        }
        let want_exp = unix_to_ntp_secs(EPOCH_2027 + exp.publish_ms / 1000 + exp.duration_s).to_string();
        if parsed["attrs"]["Expires"] != want_exp.as_str() {
            add("C10/expires".into(), format!("Expires = {}, publish instant + duration gives {}", parsed["attrs"]["Expires"], want_exp), case.clone());
        }
        if exp.complete != (parsed["attrs"]["Complete"] == "true") {
            add("C10/complete-attribute".into(), format!("Complete = {}, set_complete called before the publication: {}", parsed["attrs"]["Complete"], exp.complete), case.clone());
        }
        let pg: Vec<String> = parsed["groups"].as_array().map(|a| a.iter().map(|x| x.as_str().unwrap_or("").to_string()).collect()).unwrap_or_default();
        if pg != s.groups.clone().unwrap_or_default() {
            add("C10/session-groups".into(), format!("instance-level groups {:?}, configured {:?}", pg, s.groups), case.clone());
        }
        let files = parsed["files"].as_array().cloned().unwrap_or_default();
        let got_tois: BTreeSet<String> = files.iter().map(|f| f["attrs"]["TOI"].as_str().unwrap_or("").to_string()).collect();
        let want_tois: BTreeSet<String> = exp.files.iter().map(|f| f.1.clone()).collect();
        if got_tois != want_tois || files.len() != exp.files.len() {
            let extra: Vec<&String> = got_tois.difference(&want_tois).collect();
            let missing: Vec<&String> = want_tois.difference(&got_tois).collect();
            add(
                if !extra.is_empty() { "C10/lists-object-not-announced".into() } else { "C10/announced-object-missing".into() },
                format!("FDT instance lists TOIs {:?}; the objects announced at publish time are {:?} (extra {:?}, missing {:?}; mode {})", got_tois, want_tois, extra, missing, if exp.full_fdt { "FullFDT" } else { "ObjectsBeingTransferred" }),
                case.clone(),
            );
            continue;
        }
        for (k, toi) in &exp.files {
            let f = files.iter().find(|f| f["attrs"]["TOI"] == toi.as_str()).unwrap();
            let (wa, wg, wc) = expected_attrs(&cat[*k], toi, &s, exp.publish_ms);
            for (name, val) in &wa {
                let got = f["attrs"][name].as_str();
                if got != Some(val.as_str()) {
                    add(format!("C10/attribute-altered/{}", name), format!("object {}: {} = {:?} in the FDT (independent parser), configured {:?}", k, name, got, val), case.clone());
                }
                if val.contains(['&', '<', '>', '"', '\'']) || !val.is_ascii() {
                    escaped += 1;
                }
            }
            let gg: Vec<String> = f["groups"].as_array().map(|a| a.iter().map(|x| x.as_str().unwrap_or("").to_string()).collect()).unwrap_or_default();
            if gg != wg {
                add("C10/attribute-altered/groups".into(), format!("object {}: groups {:?}, configured {:?}", k, gg, wg), case.clone());
            }
            let gc = f["cache"].as_array().map(|a| (a[0].as_str().unwrap_or("").to_string(), a[1].as_str().unwrap_or("").to_string()));
            if gc != wc {
                add("C10/attribute-altered/cache-control".into(), format!("object {}: cache directive {:?}, configured {:?}", k, gc, wc), case.clone());
            }
        }
        // (b) flute's own receiver reads the same instance: metadata handed to the writer builder. Twice: the
        // object's first packet carries EXT_FTI / EXT_CENC, or nothing (the FEC OTI and the encoding then come
        // from the FDT alone)
        // ... and once more with the instance gzip-compressed and cut into source blocks of two 64-byte symbols
        // (a compressed instance longer than one source block)
        for (inband, compressed_blocks) in [(true, false), (false, false), (false, true)] {
        let mon = Mon::new(false);
        let mut rx = flute::receiver::MultiReceiver::new(mon.builder(), Some(recv_config(true)), false);
        let now = at_ms(exp.publish_ms);
        let fdt_pk = if compressed_blocks {
            use std::io::Write;
            let mut enc = flate2::write::GzEncoder::new(Vec::new(), flate2::Compression::default());
            enc.write_all(xml).unwrap();
            let z = enc.finish().unwrap();
            crate::fdtxml::FDT_B.with(|c| c.set(2));
            let pk = crate::fdtxml::fdt_packets(TSI, 77, &z, 64, None, Some(3));
            crate::fdtxml::FDT_B.with(|c| c.set(64));
            pk
        } else {
            crate::fdtxml::fdt_packets(TSI, 77, xml, 16384, None, None)
        };
        for p in fdt_pk {
            let _ = rx.push(&endpoint(), &p, now);
        }
        for (k, toi) in &exp.files {
            let o = &cat[*k];
            let d = o.desc(None).unwrap();
            let oti = o.oti.clone().unwrap_or(s.oti.clone());
            // first packet of the object, in-band FTI per scheme (payload irrelevant for the metadata)
            let mut sp = rfc::Spec::minimal(oti.scheme.cp(), TSI, toi.parse().unwrap());
            if inband {
            sp.exts.push(match oti.scheme {
                Scheme::NoCode => rfc::fti_nocode(d.transfer_length, oti.e, oti.b as u32),
                Scheme::Rs28 => rfc::fti_rs28(d.transfer_length, oti.e, oti.b as u8, (oti.b + oti.parity) as u8),
                Scheme::Rs28Us => rfc::fti_sbs(d.transfer_length, 0, oti.e, oti.b, oti.b + oti.parity),
                Scheme::RaptorQ => rfc::fti_raptorq(d.transfer_length, oti.e, 1.max(rfc::partition(oti.b as u128, d.transfer_length as u128, oti.e as u128).map(|p| p.n).unwrap_or(1)) as u8, 1, 1),
                Scheme::Raptor => rfc::fti_raptor_flute(d.transfer_length, oti.e, 1, 1, 1),
            });
            sp.exts.push(rfc::ext_cenc(o.cenc));
            }
            sp.payload_id = rfc::pid(oti.scheme.cp(), 0, 0, 1, 8);
            sp.payload = vec![0; oti.e as usize];
            let _ = rx.push(&endpoint(), &rfc::encode(&sp), now);
        }
        let ws = mon.writers();
        for (k, toi) in &exp.files {
            let o = &cat[*k];
            let w = match ws.iter().find(|w| w.toi.to_string() == *toi) {
                Some(w) => w,
                None => {
                    add("C10/flute-receiver-does-not-see-object".into(), format!("flute's receiver, given this FDT instance and a packet of TOI {}, did not ask for a writer", toi), case.clone());
                    continue;
                }
            };
            let m = &w.meta;
            let mut bad = Vec::new();
            let exp_loc = url::Url::parse(&o.location).unwrap().to_string();
            if m.content_location != exp_loc {
                bad.push(format!("content_location {:?} != {:?}", m.content_location, exp_loc));
            }
            if m.content_type.as_deref() != Some(o.ctype.as_str()) {
                bad.push(format!("content_type {:?} != {:?}", m.content_type, o.ctype));
            }
            if m.content_length != Some(o.len) {
                bad.push(format!("content_length {:?} != {}", m.content_length, o.len));
            }
            if m.e_tag != o.etag {
                bad.push(format!("e_tag {:?} != {:?}", m.e_tag, o.etag));
            }
            let mut eg = s.groups.clone().unwrap_or_default();
            eg.extend(o.groups.clone().unwrap_or_default());
            if m.groups.clone().unwrap_or_default() != eg {
                bad.push(format!("groups {:?} != {:?}", m.groups, eg));
            }
            let exp_md5 = if o.md5 { Some(md5_b64(&o.content())) } else { None };
            if m.md5 != exp_md5 {
                bad.push(format!("md5 {:?} != {:?}", m.md5, exp_md5));
            }
            let fdt_expires = std::time::UNIX_EPOCH + std::time::Duration::from_secs(EPOCH_2027 + exp.publish_ms / 1000 + exp.duration_s);
            let exp_cc = crate::c01::expected_cache(&o.cache, fdt_expires, at_ms(exp.publish_ms));
            if m.cache_control != exp_cc {
                bad.push(format!("cache_control {:?} != {:?}", m.cache_control, exp_cc));
            }
            if !inband {
                let oti = o.oti.clone().unwrap_or(s.oti.clone());
                let d = o.desc(None).unwrap();
                match &m.oti {
                    None => bad.push("oti missing".to_string()),
                    Some(mo) => {
                        if mo.fec_encoding_id as u8 != oti.scheme.cp() || mo.encoding_symbol_length != oti.e {
                            bad.push(format!("oti scheme/E {:?}/{} != {}/{}", mo.fec_encoding_id, mo.encoding_symbol_length, oti.scheme.cp(), oti.e));
                        } else if !matches!(oti.scheme, Scheme::RaptorQ | Scheme::Raptor) && mo.maximum_source_block_length != oti.b as u32 {
                            bad.push(format!("oti B {} != {}", mo.maximum_source_block_length, oti.b));
                        } else if matches!(oti.scheme, Scheme::Rs28 | Scheme::Rs28Us) && mo.max_number_of_parity_symbols != oti.parity as u32 {
                            bad.push(format!("oti parity {} != {}", mo.max_number_of_parity_symbols, oti.parity));
                        }
                    }
                }
                if m.transfer_length != Some(d.transfer_length as usize) {
                    bad.push(format!("transfer_length {:?} != {}", m.transfer_length, d.transfer_length));
                }
                if m.cenc.map(|c| c as u8).unwrap_or(0) != o.cenc {
                    bad.push(format!("cenc {:?} != {}", m.cenc, o.cenc));
                }
            }
            if let Some(b) = bad.first() {
                add(format!("C10/flute-receiver-reads-differently/{}", b.split(' ').next().unwrap()), format!("object {}: {}", k, bad.join("; ")), case.clone());
            }
        }
        drop(rx);
        }
    }
    (checked, escaped)
}

pub fn configs(thorough: bool) -> Vec<Cfg> {
    let durations = [1u64, 5, 10, 11, 30, 31, 3600, 172_800];
    let starts = [0u32, 1, (1 << 20) - 2];
    let mut v = Vec::new();
    if !thorough {
        // quick: every value of every axis, every duration once, plus the wrap and sub-second-phase corners
        for (i, d) in durations.iter().enumerate() {
            v.push(Cfg { full_fdt: i % 2 == 0, start_id: starts[i % 3], duration_s: *d, fdt_cenc: if i % 4 < 2 { 0 } else { 3 }, phase_ms: [0, 500, 900][i % 3], sess_scheme: (i % 4) as u8, cat_var: (i % 2) as u8 });
        }
        v.push(Cfg { full_fdt: true, start_id: starts[2], duration_s: 5, fdt_cenc: 0, phase_ms: 900, sess_scheme: 3, cat_var: 0 });
        v.push(Cfg { full_fdt: false, start_id: starts[2], duration_s: 3600, fdt_cenc: 3, phase_ms: 0, sess_scheme: 1, cat_var: 1 });
        v.push(Cfg { full_fdt: true, start_id: 1, duration_s: 10, fdt_cenc: 3, phase_ms: 900, sess_scheme: 2, cat_var: 0 });
        v.push(Cfg { full_fdt: false, start_id: 0, duration_s: 1, fdt_cenc: 0, phase_ms: 500, sess_scheme: 0, cat_var: 1 });
        return v;
    }
    for full_fdt in [true, false] {
        for start_id in starts {
            for duration_s in durations {
                for fdt_cenc in [0u8, 3] {
                    for phase_ms in [0u64, 500, 900] {
                        // the full product is 288 configurations; thorough takes the fixed third of it in which
                        // every pair of axis values still occurs
                        let k = full_fdt as u64 + (start_id as u64 % 3) + fdt_cenc as u64 + phase_ms / 400 + duration_s % 5;
                        if k % 3 == 0 {
                            v.push(Cfg { full_fdt, start_id, duration_s, fdt_cenc, phase_ms, sess_scheme: ((duration_s + start_id as u64) % 4) as u8, cat_var: ((phase_ms / 400 + fdt_cenc as u64) % 2) as u8 });
                        }
                    }
                }
            }
        }
    }
    v
}

pub fn run(thorough: bool) -> i32 {
    let mut rep = Report::new("C10", "model_checking", if thorough { "thorough" } else { "quick" });
    let depth = if thorough { 6 } else { 5 };
    let cap = if thorough { 150_000 } else { 40_000 };
    let docs: Arc<Mutex<BTreeMap<(Vec<u8>, String), Expect>>> = Arc::new(Mutex::new(BTreeMap::new()));
    let mut states = 0u64;
    let mut trans = 0u64;
    let mut wit: BTreeMap<String, u64> = BTreeMap::new();
    let mut capped = 0;
    let cfgs = configs(thorough);
    for cfg in &cfgs {
        let d2 = docs.clone();
        let (st, found) = bfs(|| make(cfg, d2.clone()), depth, cap);
        states += st.states;
        trans += st.transitions;
        if st.capped {
            capped += 1;
        }
        for (k, n) in &st.witnesses {
            *wit.entry(k.clone()).or_insert(0) += n;
        }
        for f in found {
            rep.add(Violation { key: f.sig, what: f.what, case: json!({"check": "bfs", "case": {"cfg": cfg, "history": f.history}}) });
        }
    }
    // directed family: add n objects, publish, read i packets, remove object k (possibly in flight),
    // publish again, drain — for every n, k and packet index i
    let mut directed = 0u64;
    for cfg in cfgs.iter().take(if thorough { cfgs.len() } else { 4 }) {
        let mut hists: Vec<Vec<Ev>> = Vec::new();
        for n in 1..=4usize {
            for k in 0..n {
                for i in 0..=14usize {
                    let mut h: Vec<Ev> = (0..n).map(Ev::Add).collect();
                    h.push(Ev::Publish);
                    h.extend(std::iter::repeat(Ev::Read1).take(i));
                    h.push(Ev::Remove(k));
                    h.push(Ev::Publish);
                    h.push(Ev::Drain);
                    hists.push(h);
                }
            }
        }
        let d2 = docs.clone();
        let res = par_map(&hists, |_, h| {
            let mut s = make(cfg, d2.clone());
            for e in h {
                s.apply(e);
            }
            s.settle();
            s.verdicts()
        });
        for (h, vs) in hists.iter().zip(res) {
            directed += 1;
            trans += h.len() as u64;
            for (key, what) in vs {
                rep.add(Violation { key, what, case: json!({"check": "bfs", "case": {"cfg": cfg, "history": h}}) });
            }
        }
    }
    rep.cov("directed_removal_histories", directed);
    let docs = docs.lock().unwrap().clone();
    let mut adder = |k: String, w: String, c: serde_json::Value| {
        if k == "C10/machinery" {
            rep.machinery(w);
        } else {
            rep.add(Violation { key: k, what: w, case: c });
        }
    };
    let (checked, escaped) = check_docs(&docs, &mut adder);
    rep.cov("states", states);
    rep.cov("transitions", trans);
    rep.cov("traces_validated_against_impl", trans);
    rep.cov("evaluations", trans);
    rep.cov("distinct_nontrivial", states);
    rep.cov("explanation", "explicit-state BFS over {add, remove, publish, set_complete, drain, tick 0.1 s / duration/2 / duration} on the real Sender; every completely emitted FDT instance is reassembled (and inflated) from its packets by rfc.rs and collected with the reference set and publish instant of its publication; the distinct documents are then read by expat (tools/fdt_parse.py) and by flute's own receiver");
    rep.cov("depth_bound", depth as u64);
    rep.cov("configs", cfgs.len() as u64);
    rep.cov("configs_hitting_the_state_cap", capped as u64);
    rep.cov("exhaustive", capped == 0);
    rep.cov("distinct_fdt_documents_checked", checked);
    rep.guard("distinct_fdt_documents_checked", checked);
    rep.guard("attribute_values_needing_escaping_checked", escaped);
    rep.guard("id_wrapped", *wit.get("id_wrapped").unwrap_or(&0));
    rep.guard("automatic_republication", *wit.get("automatic_republication").unwrap_or(&0));
    rep.guard("removal_between_two_publications", *wit.get("removal_between_two_publications").unwrap_or(&0));
    rep.sample(json!({"cfg": cfgs[0], "history": [Ev::Add(0), Ev::Add(1), Ev::Publish, Ev::Drain, Ev::Remove(0), Ev::Publish, Ev::Drain]}));
    rep.assume("tab, CR and LF are left out of the metadata strings (attribute-value normalisation, DESIGN §5); one queue, multiplex 1, so that at most one publication happens per read");
    rep.finish()
}
