//! Small shared services: parallel map, deterministic hashing, virtual protocol time, panic capture.
use std::hash::{Hash, Hasher};
use std::sync::atomic::{AtomicUsize, Ordering};
use std::time::{Duration, SystemTime, UNIX_EPOCH};

pub fn nthreads() -> usize {
    std::env::var("VERIF_THREADS")
        .ok()
        .and_then(|v| v.parse().ok())
        .unwrap_or_else(|| std::thread::available_parallelism().map(|n| n.get()).unwrap_or(8))
        .max(1)
}

/// Run `f(index, &item)` for every item on `nthreads()` worker threads; results are returned in
/// item order (so that everything downstream is deterministic whatever the scheduling).
pub fn par_map<T: Sync, R: Send, F: Fn(usize, &T) -> R + Sync>(items: &[T], f: F) -> Vec<R> {
    let n = items.len();
    let next = AtomicUsize::new(0);
    let nt = nthreads().min(n.max(1));
    let mut slots: Vec<Option<R>> = (0..n).map(|_| None).collect();
    let chunks: Vec<Vec<(usize, R)>> = std::thread::scope(|s| {
        let hs: Vec<_> = (0..nt)
            .map(|_| {
                s.spawn(|| {
                    let mut out = Vec::new();
                    loop {
                        let i = next.fetch_add(1, Ordering::Relaxed);
                        if i >= n {
                            break;
                        }
                        out.push((i, f(i, &items[i])));
                    }
                    out
                })
            })
            .collect();
        hs.into_iter().map(|h| h.join().expect("worker thread panicked (machinery)")).collect()
    });
    for c in chunks {
        for (i, r) in c {
            slots[i] = Some(r);
        }
    }
    slots.into_iter().map(|r| r.unwrap()).collect()
}

/// Deterministic 64-bit hash (SipHash with fixed keys; identical across processes and runs).
pub fn h64<T: Hash + ?Sized>(t: &T) -> u64 {
    #[allow(deprecated)]
    let mut h = std::hash::SipHasher::new_with_keys(0x5eed, 0xf1u64);
    t.hash(&mut h);
    h.finish()
}

/// Virtual protocol clock: tick 0 = 2027-01-01T00:00:00Z (NTP era 0, well inside it).
pub const EPOCH_2027: u64 = 1_798_761_600;
pub fn t0() -> SystemTime {
    UNIX_EPOCH + Duration::from_secs(EPOCH_2027)
}
pub fn at_ms(ms: u64) -> SystemTime {
    t0() + Duration::from_millis(ms)
}
pub fn ms_of(t: SystemTime) -> i64 {
    match t.duration_since(t0()) {
        Ok(d) => d.as_millis() as i64,
        Err(e) => -(e.duration().as_millis() as i64),
    }
}
pub fn unix_to_ntp_secs(unix: u64) -> u64 {
    unix + 2_208_988_800
}

/// Object bytes used everywhere: position-dependent so that any misplaced symbol is visible.
pub fn obj_bytes(len: usize, salt: u8) -> Vec<u8> {
    (0..len).map(|i| ((31 * i + 7 + salt as usize * 13) % 251) as u8).collect()
}
/// Compressible text (for cenc != null)
pub fn text_bytes(len: usize, salt: u8) -> Vec<u8> {
    let words: [&[u8]; 5] = [b"flute ", b"alc ", b"lct ", b"fdt ", b"carousel "];
    let mut v = Vec::new();
    let mut i = salt as usize;
    while v.len() < len {
        v.extend_from_slice(words[i % 5]);
        if i % 7 == 3 {
            v.push(b'0' + (i % 10) as u8);
        }
        i += 1;
    }
    v.truncate(len);
    v
}

/// Install a quiet panic hook once (panics are caught and reported as data, not on stderr).
pub fn quiet_panics() {
    std::panic::set_hook(Box::new(|info| {
        let msg = panic_message_from_info(info);
        let first = LAST_PANIC.with(|l| l.borrow().clone());
        let n = PANICS_IN_FLIGHT.with(|c| {
            c.set(c.get() + 1);
            c.get()
        });
        if n >= 2 && crate::alloc::in_subject() {
            // a second panic while the first one is still unwinding (typically a destructor of the subject that panics
            // again): the runtime aborts the process right after this hook. The abort is the subject's: report the case
            // being run as a violation and stop (exit 1), instead of dying with SIGABRT and no verdict.
            double_panic_verdict(first.as_deref().unwrap_or("?"), &msg);
        }
        LAST_PANIC.with(|l| *l.borrow_mut() = Some(msg));
    }));
}
thread_local! {
    pub static LAST_PANIC: std::cell::RefCell<Option<String>> = const { std::cell::RefCell::new(None) };
    static PANICS_IN_FLIGHT: std::cell::Cell<u32> = const { std::cell::Cell::new(0) };
    /// the case the current thread is running, as a JSON text (set by the engines before each call into the subject)
    static CASE_CTX: std::cell::RefCell<Option<String>> = const { std::cell::RefCell::new(None) };
}
/// per-run context: a JSON object text with "check" and configuration fields; the thread's case context is merged in
static RUN_CTX: std::sync::Mutex<Option<String>> = std::sync::Mutex::new(None);
pub fn set_run_ctx(v: Option<serde_json::Value>) {
    *RUN_CTX.lock().unwrap() = v.map(|x| x.to_string());
}
pub fn set_case_ctx(v: Option<String>) {
    let _ = CASE_CTX.try_with(|c| *c.borrow_mut() = v);
}
fn double_panic_verdict(first: &str, second: &str) -> ! {
    let prop = crate::alloc::current_check();
    let run = RUN_CTX.lock().ok().and_then(|g| g.clone()).unwrap_or_else(|| "null".into());
    let case = CASE_CTX.try_with(|c| c.borrow().clone()).ok().flatten().unwrap_or_else(|| "null".into());
    let sig = format!("{}/abort/panic-while-panicking", prop);
    let what = format!("the subject panicked ({}) and panicked again while unwinding ({}): the process aborts", first, second);
    let path = format!("/verif/replays/{}-abort-{}.json", prop, std::process::id());
    let body = format!(
        "{{\"property\": {}, \"signature\": {}, \"what\": {}, \"replay\": {{\"check\": \"abort-context\", \"run\": {}, \"case\": {}}}}}\n",
        serde_json::Value::String(prop.clone()),
        serde_json::Value::String(sig.clone()),
        serde_json::Value::String(what.clone()),
        run,
        case
    );
    let _ = std::fs::create_dir_all("/verif/replays");
    let _ = std::fs::write(&path, body);
    crate::report::outln(&format!("VIOLATION property={} replay={}", prop, path));
    crate::report::outln(&format!("  signature: {}", sig));
    crate::report::outln(&format!("  what: {}", what));
    std::process::exit(1);
}
fn panic_message_from_info(info: &std::panic::PanicHookInfo<'_>) -> String {
    let loc = info
        .location()
        .map(|l| format!("{}:{}", l.file().rsplit("/repo/").next().unwrap_or(l.file()), l.line()))
        .unwrap_or_default();
    let payload = info.payload();
    let m = if let Some(s) = payload.downcast_ref::<&str>() {
        s.to_string()
    } else if let Some(s) = payload.downcast_ref::<String>() {
        s.clone()
    } else {
        "?".to_string()
    };
    format!("{} @ {}", m, loc)
}
/// Run `f`, converting an unwind into `Err(message @ file:line)`.
pub fn catch<R>(f: impl FnOnce() -> R) -> Result<R, String> {
    LAST_PANIC.with(|l| *l.borrow_mut() = None);
    crate::alloc::subject_depth(1);
    let r = std::panic::catch_unwind(std::panic::AssertUnwindSafe(f));
    PANICS_IN_FLIGHT.with(|c| c.set(0));
    crate::alloc::subject_depth(-1);
    match r {
        Ok(r) => Ok(r),
        Err(_) => Err(LAST_PANIC.with(|l| l.borrow_mut().take()).unwrap_or_else(|| "panic".into())),
    }
}
/// Same for the harness's own top level: not a call into the subject (see alloc::subject_depth).
pub fn catch_harness<R>(f: impl FnOnce() -> R) -> Result<R, String> {
    LAST_PANIC.with(|l| *l.borrow_mut() = None);
    let r = std::panic::catch_unwind(std::panic::AssertUnwindSafe(f));
    PANICS_IN_FLIGHT.with(|c| c.set(0));
    match r {
        Ok(r) => Ok(r),
        Err(_) => Err(LAST_PANIC.with(|l| l.borrow_mut().take()).unwrap_or_else(|| "panic".into())),
    }
}
/// Strip volatile parts of a panic message to get a stable signature (location kept).
pub fn panic_sig(msg: &str) -> String {
    let loc = msg.rsplit(" @ ").next().unwrap_or("");
    let head = msg.split(" @ ").next().unwrap_or("");
    let head: String = head
        .chars()
        .map(|c| if c.is_ascii_digit() { '#' } else { c })
        .collect::<String>()
        .split_whitespace()
        .take(6)
        .collect::<Vec<_>>()
        .join("_");
    let mut h = head;
    while h.contains("##") {
        h = h.replace("##", "#");
    }
    format!("{}@{}", h, loc.split(':').next().unwrap_or(""))
}

pub fn hex(b: &[u8]) -> String {
    b.iter().map(|x| format!("{:02x}", x)).collect()
}
pub fn unhex(s: &str) -> Vec<u8> {
    (0..s.len() / 2).map(|i| u8::from_str_radix(&s[2 * i..2 * i + 2], 16).unwrap()).collect()
}

/// `par_map` with a watchdog: every item runs on a detached worker; an item still running after
/// `timeout` is declared hung (`on_hang(index, item)` supplies its result), its thread is abandoned
/// (it keeps spinning until the process exits) and a replacement worker is started. Only *infinite*
/// loops are meant to hit this: the timeout is orders of magnitude above a normal case.
pub fn par_map_wd<T, R, F, H>(items: std::sync::Arc<Vec<T>>, timeout: Duration, f: F, on_hang: H) -> Vec<R>
where
    T: Send + Sync + 'static,
    R: Send + 'static,
    F: Fn(usize, &T) -> R + Send + Sync + 'static,
    H: Fn(usize, &T) -> R,
{
    use std::sync::{mpsc, Arc, Mutex};
    let n = items.len();
    let f = Arc::new(f);
    let next = Arc::new(AtomicUsize::new(0));
    let nt = nthreads().min(n.max(1));
    let (tx, rx) = mpsc::channel::<(usize, R)>();
    // per worker slot: (item index, start) of the item in progress
    let progress: Arc<Mutex<Vec<Option<(usize, std::time::Instant)>>>> = Arc::new(Mutex::new(Vec::new()));
    let spawn_worker = |slot: usize| {
        let items = items.clone();
        let f = f.clone();
        let next = next.clone();
        let tx = tx.clone();
        let progress = progress.clone();
        std::thread::Builder::new()
            .stack_size(16 << 20)
            .spawn(move || loop {
                let i = next.fetch_add(1, Ordering::Relaxed);
                if i >= items.len() {
                    progress.lock().unwrap()[slot] = None;
                    break;
                }
                progress.lock().unwrap()[slot] = Some((i, std::time::Instant::now()));
                // the subject's panics are caught inside `f` (util::catch): one that escapes `f` is the harness's own.
                // It must not be mistaken for a hang of the subject by the watchdog: stop as a machinery error.
                let r = match std::panic::catch_unwind(std::panic::AssertUnwindSafe(|| f(i, &items[i]))) {
                    Ok(r) => r,
                    Err(_) => {
                        let msg = LAST_PANIC.with(|l| l.borrow_mut().take()).unwrap_or_else(|| "panic".into());
                        crate::report::outln(&format!("MACHINERY-ERROR: the harness panicked in a worker (item {}): {}", i, msg));
                        eprintln!("MACHINERY-ERROR: the harness panicked in a worker (item {}): {}", i, msg);
                        std::process::exit(2);
                    }
                };
                // if the watchdog gave up on this item meanwhile, the slot no longer names it
                let mine = progress.lock().unwrap()[slot].map(|p| p.0) == Some(i);
                if mine {
                    let _ = tx.send((i, r));
                } else {
                    break;
                }
            })
            .expect("spawn");
    };
    for slot in 0..nt {
        progress.lock().unwrap().push(None);
        spawn_worker(slot);
    }
    let mut slots: Vec<Option<R>> = (0..n).map(|_| None).collect();
    let mut done = 0;
    while done < n {
        match rx.recv_timeout(Duration::from_millis(500)) {
            Ok((i, r)) => {
                if slots[i].is_none() {
                    slots[i] = Some(r);
                    done += 1;
                }
            }
            Err(_) => {
                let mut hung = Vec::new();
                {
                    let mut p = progress.lock().unwrap();
                    for slot in 0..p.len() {
                        if let Some((i, st)) = p[slot] {
                            if st.elapsed() > timeout {
                                hung.push(i);
                                p[slot] = None;
                            }
                        }
                    }
                }
                for i in hung {
                    if slots[i].is_none() {
                        slots[i] = Some(on_hang(i, &items[i]));
                        done += 1;
                    }
                    let ns = {
                        let mut p = progress.lock().unwrap();
                        p.push(None);
                        p.len() - 1
                    };
                    spawn_worker(ns);
                }
            }
        }
    }
    slots.into_iter().map(|r| r.unwrap()).collect()
}

// ------------------------------------------------------------------------------------------------
// per-scheme acceptance tally: every add_object of the harness goes through `sess::add_tallied`; the
// report turns it into vacuity guards (a scheme whose every object is refused is not being checked)
pub static ADD_OK: [std::sync::atomic::AtomicU64; 256] = [const { std::sync::atomic::AtomicU64::new(0) }; 256];
pub static ADD_REFUSED: [std::sync::atomic::AtomicU64; 256] = [const { std::sync::atomic::AtomicU64::new(0) }; 256];
pub fn tally_add(fec_id: u8, ok: bool) {
    (if ok { &ADD_OK } else { &ADD_REFUSED })[fec_id as usize].fetch_add(1, Ordering::Relaxed);
}
pub fn tally_snapshot() -> Vec<(u8, u64, u64)> {
    (0..256usize).map(|i| (i as u8, ADD_OK[i].load(Ordering::Relaxed), ADD_REFUSED[i].load(Ordering::Relaxed))).filter(|x| x.1 + x.2 > 0).collect()
}
