//! C17 — receiver memory is bounded by configuration, not by traffic.
//! Engine: E1 — all traffic-event sequences to a depth bound on the real MultiReceiver under a
//! counting allocator and the virtual Instant, per-object cache sweeps, and pumping (every event
//! and ordered pair of events repeated R times: no higher heap peak in the last quarter than in the quarter before,
//! windows longer than the cache fill period).
use crate::alloc;
use crate::fdtxml::*;
use crate::report::*;
use crate::rfc;
use crate::sess::*;
use crate::util::*;
use flute::core::UDPEndpoint;
use flute::receiver::writer::{ObjectMetadata, ObjectWriter, ObjectWriterBuilder, ObjectWriterBuilderResult};
use flute::receiver::MultiReceiver;
use serde::{Deserialize, Serialize};
use serde_json::json;
use std::rc::Rc;
use std::time::{Duration, SystemTime};

/// writer that stores nothing (so that the heap measured is the receiver's own)
struct NullBuilder;
struct NullWriter;
impl ObjectWriterBuilder for NullBuilder {
    fn new_object_writer(&self, _e: &UDPEndpoint, _tsi: &u64, _toi: &u128, _m: &ObjectMetadata, _now: SystemTime) -> ObjectWriterBuilderResult {
        ObjectWriterBuilderResult::StoreObject(Box::new(NullWriter))
    }
    fn update_cache_control(&self, _e: &UDPEndpoint, _tsi: &u64, _toi: &u128, _m: &ObjectMetadata, _now: SystemTime) {}
    fn fdt_received(&self, _e: &UDPEndpoint, _tsi: &u64, _x: &str, _exp: SystemTime, _m: &ObjectMetadata, _d: Duration, _now: SystemTime, _t: Option<SystemTime>) {}
}
impl ObjectWriter for NullWriter {
    fn open(&self, _now: SystemTime) -> flute::error::Result<()> {
        Ok(())
    }
    fn write(&self, _sbn: u32, _data: &[u8], _now: SystemTime) -> flute::error::Result<()> {
        Ok(())
    }
    fn complete(&self, _now: SystemTime) {}
    fn error(&self, _now: SystemTime) {}
    fn interrupted(&self, _now: SystemTime) {}
    fn enable_md5_check(&self) -> bool {
        false
    }
}

#[derive(Serialize, Deserialize, Clone, Debug, PartialEq)]
pub enum Ev {
    /// object packet without FTI (can only be cached)
    ObjNoFti(u8),
    /// object packet with in-band FTI (block decoders allocated, no FDT => no writer)
    ObjFti(u8),
    /// in-band FTI and the close-object flag while the object is incomplete (=> interrupted)
    ObjFtiB(u8),
    /// in-band FTI, source block number far away
    ObjFar(u8),
    /// first packet of a 3-packet FDT instance
    FdtFrag(u32),
    /// complete FDT instance (FDT-only OTI) listing TOIs 1 and 2
    FdtFull(u32),
    /// the complete FDT instance pushed last, once more (a carousel repetition of the current instance)
    FdtFullAgain,
    OtherTsi,
    OtherEndpoint,
    /// advance the clock by a bit more than half the object timeout, cleanup
    HalfTick,
    /// advance the clock beyond the object timeout, cleanup
    TickObj,
    /// advance the clock beyond the session timeout, cleanup
    TickSess,
}

#[derive(Serialize, Deserialize, Clone, Debug)]
pub struct Cfg {
    pub cache: usize,
    pub max_err: usize,
    /// receiver with enable_fdt_expiration_check = false (memory bounds and releases do not depend on it)
    #[serde(default)]
    pub no_exp_check: bool,
    /// receiver with object_receive_once = false
    #[serde(default)]
    pub receive_twice: bool,
    /// receiver without a session time-out (flute's default): a silent session lives on, its stalled objects and
    /// unfinished FDT instances are still released by the cleanups that follow the object time-out - however late
    #[serde(default)]
    pub no_sess_timeout: bool,
}

const E: usize = 100;
/// 100 symbols in 10 blocks of 10
const OBJ_LEN: u64 = 10_000;
const OBJ_TIMEOUT: u64 = 10;
/// longer than the object time-out, shorter than three half ticks: an idle session must be released by
/// the third of a series of cleanups none of which alone spans the time-out
const SESS_TIMEOUT: u64 = 14;

pub struct Rx {
    /// virtual time (s) of the last packet of every object touched: (session, toi) -> seconds
    pub last_pkt: std::collections::BTreeMap<(u8, u128), u64>,
    pub clock_s: u64,
    /// sessions touched so far: main, other TSI, other endpoint (max_objects_error is per session)
    pub sessions: [bool; 3],
    pub rx: MultiReceiver,
    pub esi: [u32; 256],
    pub now: SystemTime,
    pub fresh: u32,
    /// id of the complete FDT instance pushed last
    pub last_full: u32,
    /// sessions currently open according to the listener events (opens - closes)
    pub open_sessions: Rc<std::cell::Cell<i64>>,
    /// virtual time (s) of the last packet pushed to each of the three sessions
    pub last_sess_pkt: [Option<u64>; 3],
}

struct SessCount(Rc<std::cell::Cell<i64>>);
impl flute::receiver::MultiReceiverListener for SessCount {
    fn on_session_open(&self, _e: &flute::receiver::ReceiverEndpoint) {
        self.0.set(self.0.get() + 1);
    }
    fn on_session_closed(&self, _e: &flute::receiver::ReceiverEndpoint) {
        self.0.set(self.0.get() - 1);
    }
}

fn obj_pkt(tsi: u64, toi: u128, fti: bool, sbn: u32, esi: u32) -> Vec<u8> {
    obj_pkt_b(tsi, toi, fti, sbn, esi, false)
}
fn obj_pkt_b(tsi: u64, toi: u128, fti: bool, sbn: u32, esi: u32, b: bool) -> Vec<u8> {
    obj_pkt_len(tsi, toi, fti, sbn, esi, b, E)
}
fn obj_pkt_len(tsi: u64, toi: u128, fti: bool, sbn: u32, esi: u32, b: bool, plen: usize) -> Vec<u8> {
    let mut sp = rfc::Spec::minimal(rfc::FEC_NOCODE, tsi, toi);
    sp.b = b;
    if fti {
        sp.exts.push(rfc::fti_nocode(OBJ_LEN, E as u16, 10));
    }
    sp.payload_id = rfc::pid(rfc::FEC_NOCODE, sbn, esi, 0, 8);
    sp.payload = vec![(esi & 0xFF) as u8; plen];
    rfc::encode(&sp)
}

fn fdt_full_pkt(id: u32) -> Vec<u8> {
    let exp = unix_to_ntp_secs(EPOCH_2027 + 86_400 * 365).to_string();
    let mut x = FdtX::new(&exp);
    for toi in [1u32, 2] {
        x = x.file(FileX::new(&toi.to_string(), &format!("file:///m{}", toi)).attr("Content-Length", &OBJ_LEN.to_string()).attr("Transfer-Length", &OBJ_LEN.to_string()).attr("FEC-OTI-FEC-Encoding-ID", "0").attr("FEC-OTI-Maximum-Source-Block-Length", "10").attr("FEC-OTI-Encoding-Symbol-Length", "100"));
    }
    fdt_packets(TSI, id, x.xml().as_bytes(), 8192, None, None).remove(0)
}

fn fdt_frag_pkt(id: u32) -> Vec<u8> {
    let exp = unix_to_ntp_secs(EPOCH_2027 + 86_400 * 365).to_string();
    let x = FdtX::new(&exp).file(FileX::new("9", "file:///frag").attr("Content-Length", "5"));
    let xml = x.xml();
    fdt_packets(TSI, id, xml.as_bytes(), xml.len().div_ceil(3), None, None).remove(0)
}

impl Rx {
    pub fn new(c: &Cfg) -> Rx {
        let cfg = flute::receiver::Config {
            max_objects_error: c.max_err,
            session_timeout: if c.no_sess_timeout { None } else { Some(Duration::from_secs(SESS_TIMEOUT)) },
            object_timeout: Some(Duration::from_secs(OBJ_TIMEOUT)),
            object_max_cache_size: Some(c.cache),
            object_receive_once: !c.receive_twice,
            enable_fdt_expiration_check: !c.no_exp_check,
        };
        let open_sessions = Rc::new(std::cell::Cell::new(0i64));
        let mut rx = MultiReceiver::new(Rc::new(NullBuilder), Some(cfg), false);
        rx.add_listener(SessCount(open_sessions.clone()));
        Rx { last_pkt: Default::default(), clock_s: 0, sessions: [false; 3], rx, esi: [0; 256], now: t0(), fresh: 100, last_full: 0, open_sessions, last_sess_pkt: [None; 3] }
    }
    pub fn nb_sessions(&self) -> usize {
        self.sessions.iter().filter(|s| **s).count().max(1)
    }
    pub fn apply(&mut self, ev: &Ev) {
        let ep0 = endpoint();
        match ev {
            Ev::OtherTsi => self.sessions[1] = true,
            Ev::OtherEndpoint => self.sessions[2] = true,
            Ev::TickObj | Ev::TickSess | Ev::HalfTick => {}
            _ => self.sessions[0] = true,
        }
        match ev {
            Ev::OtherTsi => self.last_sess_pkt[1] = Some(self.clock_s),
            Ev::OtherEndpoint => self.last_sess_pkt[2] = Some(self.clock_s),
            Ev::TickObj | Ev::TickSess | Ev::HalfTick => {}
            _ => self.last_sess_pkt[0] = Some(self.clock_s),
        }
        match ev {
            Ev::ObjNoFti(t) | Ev::ObjFti(t) => {
                let toi = if *t == 0 {
                    self.fresh += 1;
                    self.fresh as u128
                } else {
                    *t as u128
                };
                alloc::untracked(|| self.last_pkt.insert((0, toi), self.clock_s));
                let e = self.esi[*t as usize];
                self.esi[*t as usize] += 1;
                let p = alloc::untracked(|| obj_pkt(TSI, toi, matches!(ev, Ev::ObjFti(_)), e / 10, e % 10));
                let _ = self.rx.push(&ep0, &p, self.now);
                alloc::untracked(|| drop(p));
            }
            Ev::ObjFtiB(t) => {
                let toi = if *t == 0 {
                    self.fresh += 1;
                    self.fresh as u128
                } else {
                    *t as u128
                };
                alloc::untracked(|| self.last_pkt.insert((0, toi), self.clock_s));
                let p = alloc::untracked(|| obj_pkt_b(TSI, toi, true, 0, 1, true));
                let _ = self.rx.push(&ep0, &p, self.now);
                alloc::untracked(|| drop(p));
            }
            Ev::ObjFar(t) => {
                alloc::untracked(|| self.last_pkt.insert((0, *t as u128), self.clock_s));
                let p = alloc::untracked(|| obj_pkt(TSI, *t as u128, true, 3000, 0));
                let _ = self.rx.push(&ep0, &p, self.now);
                alloc::untracked(|| drop(p));
            }
            Ev::FdtFrag(id) => {
                let id = if *id == 0 {
                    self.fresh += 1;
                    self.fresh
                } else {
                    *id
                };
                let p = alloc::untracked(|| fdt_frag_pkt(id));
                let _ = self.rx.push(&ep0, &p, self.now);
                alloc::untracked(|| drop(p));
            }
            Ev::FdtFull(id) => {
                let id = if *id == 0 {
                    self.fresh += 1;
                    self.fresh
                } else {
                    *id
                };
                self.last_full = id;
                let id = &id;
                let p = alloc::untracked(|| fdt_full_pkt(*id));
                let _ = self.rx.push(&ep0, &p, self.now);
                alloc::untracked(|| drop(p));
            }
            Ev::FdtFullAgain => {
                let id = self.last_full.max(1);
                let p = alloc::untracked(|| fdt_full_pkt(id));
                let _ = self.rx.push(&ep0, &p, self.now);
                alloc::untracked(|| drop(p));
            }
            Ev::OtherTsi => {
                alloc::untracked(|| self.last_pkt.insert((1, 1), self.clock_s));
                let p = alloc::untracked(|| obj_pkt(77, 1, false, 0, 0));
                let _ = self.rx.push(&ep0, &p, self.now);
                alloc::untracked(|| drop(p));
            }
            Ev::OtherEndpoint => {
                alloc::untracked(|| self.last_pkt.insert((2, 1), self.clock_s));
                let p = alloc::untracked(|| obj_pkt(TSI, 1, false, 0, 0));
                let e2 = alloc::untracked(|| endpoint_n(9, None));
                let _ = self.rx.push(&e2, &p, self.now);
                alloc::untracked(|| drop((p, e2)));
            }
            Ev::HalfTick => {
                flute::verif::clock_advance(Duration::from_secs(OBJ_TIMEOUT / 2 + 1));
                self.now += Duration::from_secs(OBJ_TIMEOUT / 2 + 1);
                self.clock_s += OBJ_TIMEOUT / 2 + 1;
                self.rx.cleanup(self.now);
            }
            Ev::TickObj => {
                flute::verif::clock_advance(Duration::from_secs(OBJ_TIMEOUT + 1));
                self.now += Duration::from_secs(OBJ_TIMEOUT + 1);
                self.clock_s += OBJ_TIMEOUT + 1;
                self.rx.cleanup(self.now);
            }
            Ev::TickSess => {
                flute::verif::clock_advance(Duration::from_secs(SESS_TIMEOUT + 1));
                self.now += Duration::from_secs(SESS_TIMEOUT + 1);
                self.clock_s += SESS_TIMEOUT + 1;
                self.rx.cleanup(self.now);
            }
        }
    }
}

/// one execution of a sequence under the oracle; returns (violation, peak heap)
pub fn run_seq(c: &Cfg, seq: &[Ev], repeat: usize) -> (Option<(String, String)>, isize) {
    flute::verif::clock_reset(0);
    alloc::start();
    let r = catch(|| -> (Option<(String, String)>, isize) {
        let mut marks: Vec<isize> = Vec::with_capacity(8); // allocated before the baseline is taken
        let mut rx = Rx::new(c);
        let base = alloc::live();
        let mut peak = 0;
        let pumping = repeat >= 300;
        // windows [R/2, 3R/4) and [3R/4, R): the peak of the second must not exceed the peak of the first
        let (w1, w2) = (repeat / 2, repeat * 3 / 4);
        let mut peak1 = 0isize;
        let mut peak2 = 0isize;
        for rep in 0..repeat {
            for ev in seq {
                rx.apply(ev);
                let errs = rx.rx.nb_objects_error();
                if errs > c.max_err * rx.nb_sessions() {
                    return (Some(("C17/failed-object-list-exceeds-its-limit".into(), format!("nb_objects_error() = {} over {} session(s) with max_objects_error = {} per session after {:?} (repetition {})", errs, rx.nb_sessions(), c.max_err, ev, rep))), peak);
                }
                if matches!(ev, Ev::TickObj | Ev::TickSess | Ev::HalfTick) {
                    // a cleanup has just run: only objects that received a packet within the object
                    // time-out may still be in reception
                    // ... and only sessions that received a packet within the session time-out may still be allocated
                    let live_sessions = rx.last_sess_pkt.iter().flatten().filter(|t| rx.clock_s - **t <= SESS_TIMEOUT).count() as i64;
                    if !c.no_sess_timeout && rx.open_sessions.get() > live_sessions {
                        return (
                            Some(("C17/idle-session-survives-cleanup".into(), format!("after {:?} (repetition {}) {} session(s) are open (listener events) but only {} received a packet within the {} s session time-out; sequence {:?}", ev, rep, rx.open_sessions.get(), live_sessions, SESS_TIMEOUT, seq))),
                            peak,
                        );
                    }
                    let fresh_enough = rx.last_pkt.values().filter(|t| rx.clock_s - **t <= OBJ_TIMEOUT).count();
                    let nobj = rx.rx.nb_objects();
                    if nobj > fresh_enough {
                        return (
                            Some(("C17/stalled-object-survives-cleanup".into(), format!("after {:?} (repetition {}) nb_objects() = {} but only {} object(s) received a packet within the {} s object time-out; sequence {:?}", ev, rep, nobj, fresh_enough, OBJ_TIMEOUT, seq))),
                            peak,
                        );
                    }
                }
                let held = alloc::live() - base;
                peak = peak.max(held);
                if pumping && rep >= w1 {
                    if rep < w2 {
                        peak1 = peak1.max(held);
                    } else {
                        peak2 = peak2.max(held);
                    }
                }
            }
        }
        marks.clear();
        if pumping {
            // (complete FDT instances are not in this list: the receiver keeps a fixed number of the most recent ones)
            let uses_fresh = seq.iter().any(|e| matches!(e, Ev::ObjNoFti(0) | Ev::ObjFti(0) | Ev::FdtFrag(0) | Ev::ObjFtiB(0)));
            let releases = seq.iter().any(|e| matches!(e, Ev::TickObj | Ev::TickSess)) && !seq.iter().any(|e| matches!(e, Ev::HalfTick));
            if (!uses_fresh || releases) && peak2 > peak1 + (E as isize + 512) {
                return (
                    Some((
                        format!("C17/heap-grows-with-repetition/{}", seq.iter().map(|e| format!("{:?}", e).split('(').next().unwrap().to_string()).collect::<Vec<_>>().join("+")),
                        format!("repeating {:?} {} times: peak receiver heap over repetitions [{}, {}) = {} bytes, over [{}, {}) = {} bytes (cache limit {} bytes): memory keeps following traffic volume", seq, repeat, w1, w2, peak1, w2, repeat, peak2, c.cache),
                    )),
                    peak,
                );
            }
        }
        // after both time-outs and a cleanup everything is released
        rx.apply(&Ev::TickObj);
        rx.apply(&Ev::TickSess);
        rx.apply(&Ev::TickSess);
        let left = alloc::live() - base;
        let nobj = rx.rx.nb_objects();
        if nobj != 0 {
            return (Some(("C17/objects-survive-timeout-and-cleanup".into(), format!("nb_objects() = {} after the object and session time-outs and cleanup; sequence {:?}", nobj, seq))), peak);
        }
        // (without a session time-out the sessions themselves stay allocated, each with its ten most recent complete FDT
        // instances: a bounded baseline per session; growth with traffic is the pumping clause's business)
        if left > 4096 + if c.no_sess_timeout { 96 * 1024 * rx.nb_sessions() as isize } else { 0 } {
            let what = if seq.iter().any(|e| matches!(e, Ev::FdtFrag(_))) { "unfinished-fdt-instances" } else { "other" };
            return (Some((format!("C17/memory-not-released-after-timeouts/{}", what), format!("{} bytes still held after the object and session time-outs and cleanup (baseline + 4 kB allowed); sequence {:?} x{}", left, seq, repeat))), peak);
        }
        drop(rx);
        (None, peak)
    });
    alloc::stop();
    match r {
        Ok(v) => v,
        Err(p) => (Some((format!("C17/panic/{}", panic_sig(&p)), format!("panic: {}", p))), 0),
    }
}

/// per-object bound: one TOI kept undecodable / unwritable while n packets arrive
pub fn cache_sweep(c: &Cfg, scenario: u8, n: usize, plen: usize) -> Option<(String, String)> {
    flute::verif::clock_reset(0);
    alloc::start();
    let name = ["no-fdt-no-fti", "fdt-only-oti-fdt-withheld", "inband-fti-no-fdt", "fdt-present-block0-missing"][scenario as usize];
    let r = catch(|| -> Option<(String, String)> {
        let mut rx = Rx::new(c);
        if scenario == 3 {
            rx.apply(&Ev::FdtFull(4));
        }
        let base = alloc::live();
        let two_blocks = 2 * 10 * E as isize;
        // per-object bookkeeping (object receiver, block decoders, strings) + one packet, plus the
        // per-packet bookkeeping of the cache (parsed header kept next to the bytes): 256 bytes for
        // each packet that fits in the configured size
        // (the configured size counts datagram bytes: with short payloads more packets fit)
        let pkt_len = alloc::untracked(|| obj_pkt_len(TSI, 1, scenario == 2, 0, 0, false, plen).len());
        let slack: isize = 6 * 1024 + ((c.cache / pkt_len + 1) * 256) as isize;
        let mut crossed = false;
        for i in 0..n {
            let (fti, sbn, esi) = match scenario {
                0 | 1 => (false, (i / 10) as u32, (i % 10) as u32),
                2 => (true, (i / 10) as u32, (i % 10) as u32),
                _ => (false, 1 + (i / 10) as u32, (i % 10) as u32), // block 0 never arrives
            };
            let p = alloc::untracked(|| obj_pkt_len(TSI, 1, fti, sbn, esi, false, plen));
            let _ = rx.rx.push(&endpoint(), &p, rx.now);
            alloc::untracked(|| drop(p));
            let held = alloc::live() - base;
            let errs = rx.rx.nb_objects_error();
            if errs > c.max_err {
                return Some(("C17/failed-object-list-exceeds-its-limit".into(), format!("{}: nb_objects_error() = {} > {}", name, errs, c.max_err)));
            }
            if held > c.cache as isize {
                crossed = true;
            }
            let bound = c.cache as isize + two_blocks + slack;
            if held > bound {
                return Some((
                    format!("C17/per-object-memory-exceeds-cache-limit/{}{}", name, if plen == E { "" } else { "/short-payload" }),
                    format!("{}: after {} packets with {}-byte payloads ({} bytes each) for one object the receiver holds {} bytes; object_max_cache_size = {} (+ two blocks of {} bytes + {} bytes of bookkeeping allowed); nb_objects_error = {}", name, i + 1, plen, pkt_len, held, c.cache, two_blocks / 2, slack, errs),
                ));
            }
        }
        let _ = crossed;
        None
    });
    alloc::stop();
    match r {
        Ok(v) => v,
        Err(p) => Some((format!("C17/panic/{}", panic_sig(&p)), format!("panic: {}", p))),
    }
}

/// one object whose in-band FTI announces `nblocks` source blocks (10 symbols of 100 bytes each): a handful of its
/// packets, at block numbers on both sides of the receiver's pre-allocation limits, must not make the receiver
/// hold memory in proportion to the ANNOUNCED size. Allowance on top of the per-object bound: a fixed window of
/// 4096 block descriptors of 48 bytes (the receiver pre-allocates up to 2048 and lets the window grow to 4096).
pub fn announce_sweep(c: &Cfg, nblocks: u64) -> Option<(String, String)> {
    flute::verif::clock_reset(0);
    alloc::start();
    let r = catch(|| -> Option<(String, String)> {
        let mut rx = Rx::new(c);
        let base = alloc::live();
        let bound = c.cache as isize + 2 * 10 * E as isize + 6 * 1024 + 4096 * 48;
        let mut sbns: Vec<u64> = vec![0, 1, 5, 2047, 2048, 4095, 4096, 4097, nblocks / 2, nblocks - 1];
        sbns.retain(|s| *s < nblocks);
        for (i, sbn) in sbns.iter().enumerate() {
            let p = alloc::untracked(|| {
                let mut sp = rfc::Spec::minimal(rfc::FEC_NOCODE, TSI, 1);
                sp.exts.push(rfc::fti_nocode(nblocks * 10 * E as u64, E as u16, 10));
                sp.payload_id = rfc::pid(rfc::FEC_NOCODE, *sbn as u32, 0, 0, 8);
                sp.payload = vec![7u8; E];
                rfc::encode(&sp)
            });
            let _ = rx.rx.push(&endpoint(), &p, rx.now);
            alloc::untracked(|| drop(p));
            let held = alloc::live() - base;
            if held > bound {
                return Some((
                    "C17/memory-follows-the-announced-object-size".into(),
                    format!("object announcing {} source blocks ({} bytes): after {} packet(s) (last one of block {}) the receiver holds {} bytes; allowed {} (object_max_cache_size = {} + two blocks + bookkeeping + a window of 4096 block descriptors)", nblocks, nblocks * 10 * E as u64, i + 1, sbn, held, bound, c.cache),
                ));
            }
        }
        None
    });
    alloc::stop();
    match r {
        Ok(v) => v,
        Err(p) => Some((format!("C17/panic/{}", panic_sig(&p)), format!("panic: {}", p))),
    }
}

pub fn replay(v: &serde_json::Value) -> Vec<Violation> {
    let c: Cfg = serde_json::from_value(v["case"]["cfg"].clone()).expect("cfg");
    if v["check"] == "announce" {
        return announce_sweep(&c, v["case"]["nblocks"].as_u64().unwrap()).into_iter().map(|(key, what)| Violation { key, what, case: v.clone() }).collect();
    }
    let r = if v["check"] == "cache" {
        cache_sweep(&c, v["case"]["scenario"].as_u64().unwrap() as u8, v["case"]["n"].as_u64().unwrap() as usize, v["case"]["payload"].as_u64().map(|x| x as usize).unwrap_or(E))
    } else {
        let seq: Vec<Ev> = serde_json::from_value(v["case"]["seq"].clone()).expect("seq");
        run_seq(&c, &seq, v["case"]["repeat"].as_u64().unwrap_or(1) as usize).0
    };
    r.into_iter().map(|(key, what)| Violation { key, what, case: v.clone() }).collect()
}

pub fn run(thorough: bool) -> i32 {
    let mut rep = Report::new("C17", "model_checking", if thorough { "thorough" } else { "quick" });
    let depth = if thorough { 6 } else { 4 };
    let alphabet = vec![Ev::ObjNoFti(1), Ev::ObjNoFti(0), Ev::ObjFti(1), Ev::ObjFti(2), Ev::ObjFtiB(0), Ev::ObjFtiB(1), Ev::ObjFar(1), Ev::FdtFrag(1), Ev::FdtFrag(0), Ev::FdtFull(3), Ev::FdtFull(0), Ev::FdtFullAgain, Ev::OtherTsi, Ev::OtherEndpoint, Ev::HalfTick, Ev::TickObj, Ev::TickSess];
    let cfgs: Vec<Cfg> = {
        let mut v = Vec::new();
        for cache in [3 * (E + 40), 64 * 1024] {
            for max_err in [0usize, 1, 2] {
                v.push(Cfg { cache, max_err, no_exp_check: false, receive_twice: false, no_sess_timeout: false });
            }
        }
        v.push(Cfg { cache: 3 * (E + 40), max_err: 1, no_exp_check: true, receive_twice: false, no_sess_timeout: false });
        v.push(Cfg { cache: 64 * 1024, max_err: 0, no_exp_check: true, receive_twice: false, no_sess_timeout: false });
        v.push(Cfg { cache: 3 * (E + 40), max_err: 1, no_exp_check: false, receive_twice: true, no_sess_timeout: false });
        v.push(Cfg { cache: 64 * 1024, max_err: 2, no_exp_check: true, receive_twice: true, no_sess_timeout: false });
        v.push(Cfg { cache: 3 * (E + 40), max_err: 1, no_exp_check: false, receive_twice: false, no_sess_timeout: true });
        v
    };
    // (A) all sequences to the depth bound: one work item per (configuration, length, first two events);
    // the remaining events are enumerated lazily inside the worker (16^6 histories do not fit a Vec)
    let acfgs: Vec<usize> = if thorough { (0..cfgs.len()).collect() } else { vec![0, 4, 6, 8, 10] };
    let na = alphabet.len();
    let mut witems: Vec<(usize, usize, usize)> = Vec::new(); // (cfg, length, prefix code)
    for ci in &acfgs {
        for len in 1..=depth {
            let pl = len.min(2);
            for pc in 0..na.pow(pl as u32) {
                witems.push((*ci, len, pc));
            }
        }
    }
    let alpha = &alphabet;
    let cfgs_ref = &cfgs;
    let wres = par_map(&witems, |_, (ci, len, pc)| {
        let pl = (*len).min(2);
        let rest = len - pl;
        let mut found: Vec<(String, String, Vec<Ev>)> = Vec::new();
        let mut peak = 0isize;
        let mut n = 0u64;
        let mut seq: Vec<Ev> = Vec::with_capacity(*len);
        for code in 0..na.pow(rest as u32) {
            seq.clear();
            let mut c = *pc;
            for _ in 0..pl {
                seq.push(alpha[c % na].clone());
                c /= na;
            }
            let mut c = code;
            for _ in 0..rest {
                seq.push(alpha[c % na].clone());
                c /= na;
            }
            n += 1;
            let (v, pk) = run_seq(&cfgs_ref[*ci], &seq, 1);
            peak = peak.max(pk);
            if let Some((key, what)) = v {
                if !found.iter().any(|f| f.0 == key) {
                    found.push((key, what, seq.clone()));
                }
            }
        }
        (found, peak, n)
    });
    let mut peak = 0isize;
    let mut n_depth = 0usize;
    for ((ci, _, _), (found, pk, n)) in witems.iter().zip(wres) {
        peak = peak.max(pk);
        n_depth += n as usize;
        for (key, what, seq) in found {
            rep.add(Violation { key, what, case: json!({"check": "seq", "case": {"cfg": cfgs[*ci], "seq": seq, "repeat": 1}}) });
        }
    }
    // (C) pumping: every event and every ordered pair, 300 times
    let mut pumps: Vec<Vec<Ev>> = alphabet.iter().map(|a| vec![a.clone()]).collect();
    for a in &alphabet {
        for b in &alphabet {
            if a != b {
                pumps.push(vec![a.clone(), b.clone()]);
            }
        }
    }
    let mut items: Vec<(usize, usize, usize)> = Vec::new(); // (cfg, pump index, repeat)
    for ci in 0..cfgs.len() {
        if !thorough && ci % 2 == 1 && !cfgs[ci].receive_twice {
            continue;
        }
        for pi in 0..pumps.len() {
            // quick: a fixed third of the ordered pairs per configuration (all of them for the receive-twice receivers)
            if !thorough && pumps[pi].len() == 2 && (pi + ci) % 3 != 0 && !cfgs[ci].receive_twice {
                continue;
            }
            items.push((ci, pi, 400.max(8 * cfgs[ci].cache / E)));
        }
    }
    let n_pump = items.len();
    let res = par_map(&items, |_, (ci, pi, rp)| run_seq(&cfgs[*ci], &pumps[*pi], *rp));
    for ((ci, pi, rp), (v, pk)) in items.iter().zip(res) {
        peak = peak.max(pk);
        if let Some((key, what)) = v {
            rep.add(Violation { key, what, case: json!({"check": "seq", "case": {"cfg": cfgs[*ci], "seq": pumps[*pi], "repeat": rp}}) });
        }
    }
    // (B) per-object cache sweeps
    let mut sweeps = Vec::new();
    for ci in 0..cfgs.len() {
        for sc in 0..4u8 {
            sweeps.push((ci, sc, E));
        }
        // datagrams with empty and one-byte payloads (what a sender emits for an empty object): the limit is
        // on the bytes buffered, not on the symbol bytes
        for plen in [0usize, 1] {
            sweeps.push((ci, 0, plen));
        }
    }
    let n_sweep_pkts = if thorough { 2000 } else { 800 };
    let sres = par_map(&sweeps, |_, (ci, sc, pl)| cache_sweep(&cfgs[*ci], *sc, n_sweep_pkts, *pl));
    for ((ci, sc, pl), r) in sweeps.iter().zip(sres) {
        if let Some((key, what)) = r {
            rep.add(Violation { key, what, case: json!({"check": "cache", "case": {"cfg": cfgs[*ci], "scenario": sc, "n": n_sweep_pkts, "payload": pl}}) });
        }
    }
    // (C) objects announcing many source blocks
    let mut ann = Vec::new();
    for ci in 0..cfgs.len() {
        for nb in [2048u64, 2049, 4097, 40_000, 400_000, 4_000_000] {
            ann.push((ci, nb));
        }
    }
    let ares = par_map(&ann, |_, (ci, nb)| announce_sweep(&cfgs[*ci], *nb));
    for ((ci, nb), r) in ann.iter().zip(ares) {
        if let Some((key, what)) = r {
            rep.add(Violation { key, what, case: json!({"check": "announce", "case": {"cfg": cfgs[*ci], "nblocks": nb}}) });
        }
    }
    rep.cov("announced_size_sweeps", ann.len() as u64);
    let total = n_depth + items.len() + sweeps.len() + ann.len();
    rep.cov("states", total as u64);
    rep.cov("transitions", (n_depth * depth / 2 + n_pump * 450 + sweeps.len() * n_sweep_pkts) as u64);
    rep.cov("traces_validated_against_impl", total as u64);
    rep.cov("evaluations", total as u64);
    rep.cov("distinct_nontrivial", total as u64);
    rep.cov("explanation", "every traffic-event sequence up to the depth bound, every event and ordered pair of events repeated R = max(400, 8*cache/100) times (peak heap over [R/2,3R/4) vs [3R/4,R)), and four per-object sweeps (object kept undecodable or unwritable while packets keep arriving) run on the real MultiReceiver; live heap of the receiver thread measured by a counting allocator, inactivity time by the virtual Instant");
    rep.cov("exhaustive", true);
    rep.cov("depth_bound", depth as u64);
    rep.cov("depth_sequences_x_configs", n_depth as u64);
    rep.cov("pumping_runs", n_pump as u64);
    rep.cov("cache_sweeps", sweeps.len() as u64);
    rep.cov("peak_receiver_heap_bytes", peak as u64);
    rep.guard("pumping_runs", n_pump as u64);
    rep.guard("cache_sweeps", sweeps.len() as u64);
    rep.sample(json!({"cfg": cfgs[0], "seq": [Ev::FdtFrag(0), Ev::ObjNoFti(1)], "repeat": 400}));
    rep.sample(json!({"check": "cache", "cfg": cfgs[0], "scenario": 1, "meaning": "FDT-only OTI, FDT withheld: packets of one object can only be cached"}));
    rep.assume("bookkeeping slack: 6 kB per object on top of object_max_cache_size + two blocks; 4 kB on top of the post-construction baseline after the time-outs; the number of objects in reception at once is bounded by the object time-out, not by a configured count (runs that keep creating fresh TOIs or instance ids are only held to the release-after-timeout clause)");
    rep.finish()
}
