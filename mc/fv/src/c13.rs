//! C13 — strict queue priority, bounded multiplexing, block interleaving.
//! Engine: exhaustive workload grid x one deviation (a further object added+published at every
//! packet index) on the real Sender; oracle evaluated on every emitted packet.
use crate::report::*;
use crate::rfc;
use crate::sendsys::*;
use crate::sess::*;
use crate::util::*;
use serde::{Deserialize, Serialize};
use serde_json::json;
use std::collections::{BTreeMap, BTreeSet};
use std::sync::Arc;
use std::time::Duration;

#[derive(Serialize, Deserialize, Clone, Debug)]
pub struct Case {
    /// per queue (ascending priority key): object sizes as indices into SIZES
    pub queues: Vec<Vec<u8>>,
    pub multiplex: u32,
    pub interleave: u8,
    /// add the lowest-priority queue's objects first
    pub reverse_add: bool,
    pub scheme_rs: bool,
    /// (packet index, queue) of the late add+publish
    pub late: Option<(usize, usize)>,
}

/// object lengths with E=4, B=2: empty, 1 symbol, 2 blocks (4 symbols), 3 blocks (6 symbols)
pub const SIZES: [usize; 4] = [0, 3, 13, 21];

#[derive(Default, Clone)]
pub struct G {
    pub sessions: u64,
    pub packets: u64,
    pub lower_prio_packets: u64,
    pub multiplexed: u64,
    pub interleaved: u64,
    pub late_preempts: u64,
}

struct ObjInfo {
    queue: usize,
    add_index: usize,
    size: usize,
    published_at: Option<usize>,
    needed: usize,
    emitted: usize,
    started: bool,
}

pub fn run_case(c: &Case, g: &mut G) -> Option<(String, String)> {
    g.sessions += 1;
    let r = catch(|| -> Option<(String, String)> {
        let mut sess = SessSpec::basic(OtiSpec::new(Scheme::NoCode, 1424, 64, 0, true));
        sess.interleave = c.interleave;
        sess.queues = (0..c.queues.len()).map(|q| (q as u32, c.multiplex)).collect();
        // catalogue in add order
        let mut cat: Vec<ObjSpec> = Vec::new();
        let mut order: Vec<(usize, u8)> = Vec::new();
        let qs: Vec<usize> = if c.reverse_add { (0..c.queues.len()).rev().collect() } else { (0..c.queues.len()).collect() };
        for q in qs {
            for s in &c.queues[q] {
                order.push((q, *s));
            }
        }
        let parity = if c.scheme_rs { 1 } else { 0 };
        for (i, (q, s)) in order.iter().enumerate() {
            let mut o = ObjSpec::simple(SIZES[*s as usize], i as u8 + 1);
            o.oti = Some(if c.scheme_rs { OtiSpec::new(Scheme::Rs28, 4, 2, 1, true) } else { OtiSpec::new(Scheme::NoCode, 4, 2, 0, true) });
            o.prio = *q as u32;
            cat.push(o);
        }
        if let Some((_, q)) = c.late {
            let mut o = ObjSpec::simple(SIZES[2], 99);
            o.oti = Some(if c.scheme_rs { OtiSpec::new(Scheme::Rs28, 4, 2, 1, true) } else { OtiSpec::new(Scheme::NoCode, 4, 2, 0, true) });
            o.prio = q as u32;
            cat.push(o);
        }
        let nbase = order.len();
        let mut sys = SendSys::new(&sess, Arc::new(cat));
        for k in 0..nbase {
            sys.apply(&Ev::Add(k));
        }
        sys.apply(&Ev::Publish);
        let mut npk = 0usize;
        let mut late_done = c.late.is_none();
        loop {
            if !late_done && c.late.unwrap().0 == npk {
                sys.apply(&Ev::Add(nbase));
                sys.apply(&Ev::Publish);
                late_done = true;
            }
            let before = sys.log.len();
            sys.apply(&Ev::Read1);
            if let Some(p) = &sys.panicked {
                return Some((format!("C13/panic/{}", panic_sig(p)), format!("panic: {}", p)));
            }
            let got_pkt = sys.log[before..].iter().any(|i| matches!(i, Item::Pkt(_)));
            if !got_pkt {
                break;
            }
            npk += 1;
            if npk > 5000 {
                return Some(("C13/not-quiescent".into(), "more than 5000 packets".into()));
            }
        }
        if !late_done {
            return None; // late index beyond the session
        }
        // ---- oracle over the log ----
        let symbols = |size: usize| -> usize {
            let t = size.div_ceil(4);
            if c.scheme_rs {
                t + t.div_ceil(2)
            } else {
                t
            }
        };
        let mut objs: BTreeMap<u128, ObjInfo> = BTreeMap::new();
        let mut add_i = 0;
        // packets per block of the current transfer, per toi
        let mut blocks: BTreeMap<u128, BTreeMap<u32, usize>> = BTreeMap::new();
        let mut max_sbn_opened: BTreeMap<u128, i64> = BTreeMap::new();
        let mut open_by_queue: BTreeMap<usize, BTreeSet<u128>> = BTreeMap::new();
        let mut first_starts: BTreeMap<usize, Vec<usize>> = BTreeMap::new();
        // for fairness: per toi, counts of other objects' packets since its last packet, and who was in flight then
        let mut since_last: BTreeMap<u128, BTreeMap<u128, usize>> = BTreeMap::new();
        let mut inflight_at_last: BTreeMap<u128, BTreeSet<u128>> = BTreeMap::new();
        let mut restarted: BTreeMap<u128, BTreeSet<u128>> = BTreeMap::new();
        let mut pkt_idx = 0usize;
        for (li, it) in sys.log.iter().enumerate() {
            match it {
                Item::Api(Ev::Add(k), r) => {
                    if let Some(t) = r.strip_prefix("toi=") {
                        let toi: u128 = t.parse().unwrap();
                        let o = &sys.catalog[*k];
                        let needed = symbols(o.len).max(1);
                        objs.insert(toi, ObjInfo { queue: o.prio as usize, add_index: add_i, size: o.len, published_at: None, needed, emitted: 0, started: false });
                        add_i += 1;
                    }
                }
                Item::Api(Ev::Publish, _) => {
                    for o in objs.values_mut() {
                        if o.published_at.is_none() {
                            o.published_at = Some(li);
                        }
                    }
                }
                Item::Start(t, _) => {
                    if let Some(o) = objs.get_mut(t) {
                        let q = o.queue;
                        if !o.started {
                            o.started = true;
                            first_starts.entry(q).or_default().push(o.add_index);
                        }
                        let set = open_by_queue.entry(q).or_default();
                        set.insert(*t);
                        if set.len() > c.multiplex.max(1) as usize {
                            return Some(("C13/too-many-objects-in-transmission".into(), format!("queue {}: {} objects in transmission at once, multiplex_files = {}", q, set.len(), c.multiplex)));
                        }
                        if set.len() >= 2 {
                            g.multiplexed += 1;
                        }
                        blocks.insert(*t, BTreeMap::new());
                        max_sbn_opened.insert(*t, -1);
                        // a (re)started object is not "in flight during the whole interval" for the others
                        for (other, r) in restarted.iter_mut() {
                            if other != t {
                                r.insert(*t);
                            }
                        }
                    }
                }
                Item::Stop(t, _) => {
                    if let Some(o) = objs.get(t) {
                        open_by_queue.entry(o.queue).or_default().remove(t);
                        for (other, r) in restarted.iter_mut() {
                            if other != t {
                                r.insert(*t);
                            }
                        }
                        since_last.remove(t);
                        inflight_at_last.remove(t);
                    }
                }
                Item::Pkt(p) if p.toi != 0 => {
                    g.packets += 1;
                    pkt_idx += 1;
                    let q = match objs.get(&p.toi) {
                        Some(o) => o.queue,
                        None => return Some(("C13/unknown-toi".into(), format!("packet of unknown TOI {}", p.toi))),
                    };
                    if q > 0 {
                        g.lower_prio_packets += 1;
                    }
                    // (1) strict priority
                    for (toi2, o2) in objs.iter() {
                        if o2.queue < q && o2.published_at.is_some() && o2.emitted < o2.needed {
                            return Some((
                                "C13/lower-priority-packet-while-higher-ready".into(),
                                format!("packet #{} belongs to queue {} (TOI {}) while TOI {} of queue {} is published and has sent {} of {} packets", pkt_idx, q, p.toi, toi2, o2.queue, o2.emitted, o2.needed),
                            ));
                        }
                    }
                    if let Some((li_late, _)) = c.late.map(|(i, qq)| (i, qq)) {
                        if pkt_idx > li_late && objs.get(&p.toi).map(|o| o.add_index) == Some(nbase) && objs.values().any(|o| o.queue > q && o.started && o.emitted < o.needed) {
                            g.late_preempts += 1;
                        }
                    }
                    objs.get_mut(&p.toi).unwrap().emitted += 1;
                    // (5) block interleaving
                    let total_in_block = |sbn: u32, size: usize| -> usize {
                        let part = rfc::partition(2, size as u128, 4).unwrap();
                        let k = part.symbols_of(sbn as u128) as usize;
                        if c.scheme_rs {
                            k + 1
                        } else {
                            k
                        }
                    };
                    let size = objs[&p.toi].size;
                    if size > 0 {
                        let bm = blocks.entry(p.toi).or_default();
                        if !bm.contains_key(&p.sbn) {
                            let prev = *max_sbn_opened.get(&p.toi).unwrap_or(&-1);
                            if (p.sbn as i64) != prev + 1 {
                                return Some(("C13/blocks-not-opened-in-increasing-order".into(), format!("TOI {}: block {} opened after block {}", p.toi, p.sbn, prev)));
                            }
                            max_sbn_opened.insert(p.toi, p.sbn as i64);
                        }
                        *bm.entry(p.sbn).or_insert(0) += 1;
                        let partial = bm.iter().filter(|(sbn, n)| **n < total_in_block(**sbn, size)).count();
                        // the packet just emitted may have closed its block: blocks partly sent BEFORE it + itself
                        let open_now = partial + if bm[&p.sbn] == total_in_block(p.sbn, size) { 1 } else { 0 };
                        if open_now > c.interleave as usize {
                            return Some(("C13/too-many-open-blocks".into(), format!("TOI {}: {} source blocks partly sent at once, interleave_blocks = {}", p.toi, open_now, c.interleave)));
                        }
                        if open_now >= 2 {
                            g.interleaved += 1;
                        }
                    }
                    // (4) round-robin fairness inside the queue, within one transfer
                    if let Some(cnt) = since_last.get(&p.toi) {
                        let was = inflight_at_last.get(&p.toi).cloned().unwrap_or_default();
                        let now_open = open_by_queue.get(&q).cloned().unwrap_or_default();
                        let excl = restarted.get(&p.toi).cloned().unwrap_or_default();
                        for other in was.intersection(&now_open) {
                            if *other == p.toi || excl.contains(other) {
                                continue;
                            }
                            let n = *cnt.get(other).unwrap_or(&0);
                            if n != 1 {
                                return Some((
                                    "C13/round-robin-unfair".into(),
                                    format!("queue {}: between two consecutive packets of TOI {}, TOI {} (in transmission the whole time) emitted {} packet(s), expected exactly 1", q, p.toi, other, n),
                                ));
                            }
                        }
                    }
                    since_last.insert(p.toi, BTreeMap::new());
                    inflight_at_last.insert(p.toi, open_by_queue.get(&q).cloned().unwrap_or_default());
                    restarted.insert(p.toi, BTreeSet::new());
                    for (t2, m) in since_last.iter_mut() {
                        if *t2 != p.toi && objs[t2].queue == q {
                            *m.entry(p.toi).or_insert(0) += 1;
                        }
                    }
                }
                _ => {}
            }
        }
        // (2) add order within a queue
        for (q, v) in &first_starts {
            if v.windows(2).any(|w| w[0] > w[1]) {
                return Some(("C13/objects-not-started-in-add-order".into(), format!("queue {}: objects started in add-order positions {:?}", q, v)));
            }
        }
        // everything published was sent
        for (toi, o) in &objs {
            if o.emitted != o.needed {
                return Some(("C13/object-not-fully-sent".into(), format!("TOI {} (queue {}) sent {} of {} packets when the sender went quiescent", toi, o.queue, o.emitted, o.needed)));
            }
        }
        None
    });
    match r {
        Ok(v) => v,
        Err(p) => Some((format!("C13/panic/{}", panic_sig(&p)), format!("panic: {}", p))),
    }
}

pub fn replay(v: &serde_json::Value) -> Vec<Violation> {
    let c: Case = serde_json::from_value(v["case"].clone()).expect("case");
    let mut g = G::default();
    run_case(&c, &mut g).into_iter().map(|(key, what)| Violation { key, what, case: v.clone() }).collect()
}

fn queue_contents(max_objs: usize) -> Vec<Vec<u8>> {
    let mut v: Vec<Vec<u8>> = vec![vec![]];
    let mut cur: Vec<Vec<u8>> = vec![vec![]];
    for _ in 0..max_objs {
        let mut next = Vec::new();
        for c in &cur {
            for s in 0..4u8 {
                let mut n = c.clone();
                n.push(s);
                next.push(n);
            }
        }
        v.extend(next.iter().cloned());
        cur = next;
    }
    v
}

pub fn run(thorough: bool) -> i32 {
    let mut rep = Report::new("C13", "model_checking", if thorough { "thorough" } else { "quick" });
    let mut workloads: Vec<Vec<Vec<u8>>> = Vec::new();
    let (m1, m2, m3) = if thorough { (3, 3, 2) } else { (3, 2, 1) };
    for a in queue_contents(m1) {
        workloads.push(vec![a]);
    }
    for a in queue_contents(m2) {
        for b in queue_contents(m2) {
            workloads.push(vec![a.clone(), b]);
        }
    }
    for a in queue_contents(m3) {
        for b in queue_contents(m3) {
            for c in queue_contents(m3) {
                workloads.push(vec![a.clone(), b.clone(), c]);
            }
        }
    }
    let mut cases: Vec<Case> = Vec::new();
    for w in &workloads {
        let total: usize = w.iter().flatten().map(|s| SIZES[*s as usize].div_ceil(4).max(1)).sum();
        for multiplex in [0u32, 1, 2, 3] {
            for interleave in [1u8, 2, 3] {
                for reverse_add in [false, true] {
                    if reverse_add && w.len() == 1 {
                        continue;
                    }
                    for scheme_rs in [false, true] {
                        if scheme_rs && (interleave == 1 || !thorough && multiplex != 2) {
                            continue;
                        }
                        cases.push(Case { queues: w.clone(), multiplex, interleave, reverse_add, scheme_rs, late: None });
                        // one deviation: add+publish one more object at every packet index, into every queue
                        if multiplex <= 2 && interleave <= 2 && !scheme_rs {
                            for i in 0..=(total + 1).min(if thorough { 14 } else { 8 }) {
                                for q in 0..w.len() {
                                    cases.push(Case { queues: w.clone(), multiplex, interleave, reverse_add, scheme_rs, late: Some((i, q)) });
                                }
                            }
                        }
                    }
                }
            }
        }
    }
    let ncases = cases.len();
    let cases = Arc::new(cases);
    let res = par_map_wd(
        cases.clone(),
        Duration::from_secs(30),
        |_, c| {
            let mut g = G::default();
            let v = run_case(c, &mut g);
            (v, g)
        },
        |_, _| (Some(("C13/hang".into(), "session did not finish in 30 s".into())), G::default()),
    );
    let mut g = G::default();
    for (c, (v, gg)) in cases.iter().zip(res) {
        g.sessions += gg.sessions;
        g.packets += gg.packets;
        g.lower_prio_packets += gg.lower_prio_packets;
        g.multiplexed += gg.multiplexed;
        g.interleaved += gg.interleaved;
        g.late_preempts += gg.late_preempts;
        if let Some((key, what)) = v {
            rep.add(Violation { key, what, case: json!({"check": "workload", "case": serde_json::to_value(c).unwrap()}) });
        }
    }
    rep.cov("states", ncases as u64);
    rep.cov("transitions", g.packets);
    rep.cov("traces_validated_against_impl", ncases as u64);
    rep.cov("evaluations", ncases as u64);
    rep.cov("distinct_nontrivial", ncases as u64);
    rep.cov("explanation", "states = distinct workloads (x late-add deviations) run on the real Sender to quiescence; transitions = object packets, each checked against the scheduling oracle (strict priority, add order, multiplex bound, round-robin fairness, interleave bound, increasing SBN)");
    rep.cov("exhaustive", true);
    rep.cov("workloads", workloads.len() as u64);
    rep.guard("lower_priority_packets", g.lower_prio_packets);
    rep.guard("objects_multiplexed", g.multiplexed);
    rep.guard("blocks_interleaved", g.interleaved);
    rep.guard("late_higher_priority_object_preempts", g.late_preempts);
    rep.sample(serde_json::to_value(&cases[ncases / 2]).unwrap());
    rep.sample(serde_json::to_value(&cases[ncases - 1]).unwrap());
    rep.assume("no start times, pacing or carousel here (C14): ready = published and transfers outstanding; fairness is checked between consecutive packets of one transfer");
    rep.finish()
}
