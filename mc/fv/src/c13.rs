//! C13 — strict queue priority, bounded multiplexing, block interleaving.
//! Engine: exhaustive workload grid x one deviation (a further object added+published at every
//! packet index) on the real Sender; oracle evaluated on every emitted packet.
use crate::report::*;
use crate::rfc;
use crate::sendsys::*;
use crate::sess::*;
use crate::util::*;
use serde::{Deserialize, Serialize};
use serde_json::json;
use std::collections::{BTreeMap, BTreeSet};
use std::sync::Arc;
use std::time::Duration;

#[derive(Serialize, Deserialize, Clone, Debug)]
pub struct Case {
    /// per queue (ascending priority key): object sizes as indices into SIZES
    pub queues: Vec<Vec<u8>>,
    pub multiplex: u32,
    pub interleave: u8,
    /// add the lowest-priority queue's objects first
    pub reverse_add: bool,
    pub scheme_rs: bool,
    /// (packet index, queue) of the late add+publish
    pub late: Option<(usize, usize)>,
    /// multiplex_files per queue when the queues differ (overrides `multiplex`)
    #[serde(default)]
    pub multiplex_per_queue: Option<Vec<u32>>,
    /// FDT publish mode ObjectsBeingTransferred: no explicit publication, an added object is ready at once
    /// and every transfer start publishes a new instance from inside read()
    #[serde(default)]
    pub obt: bool,
    /// maximum source block length of every object (0 = the default 2)
    #[serde(default)]
    pub b: u16,
}

/// object lengths with E=4, B=2: empty, 1 symbol, 2 blocks (4 symbols), 3 blocks (6 symbols); from index 4
/// on: 1, 2, ... 14 symbols (used by the interleaving family with B = 1..4)
pub const SIZES: [usize; 18] = [0, 3, 13, 21, 4, 7, 11, 15, 19, 23, 27, 31, 35, 39, 43, 47, 51, 55];

#[derive(Default, Clone)]
pub struct G {
    pub sessions: u64,
    pub packets: u64,
    pub lower_prio_packets: u64,
    pub multiplexed: u64,
    pub interleaved: u64,
    pub late_preempts: u64,
}

struct ObjInfo {
    queue: usize,
    add_index: usize,
    size: usize,
    published_at: Option<usize>,
    needed: usize,
    emitted: usize,
    started: bool,
}

pub fn run_case(c: &Case, g: &mut G) -> Option<(String, String)> {
    g.sessions += 1;
    let r = catch(|| -> Option<(String, String)> {
        let mut sess = SessSpec::basic(OtiSpec::new(Scheme::NoCode, 1424, 64, 0, true));
        sess.interleave = c.interleave;
        sess.full_fdt = !c.obt;
        let bb: u16 = if c.b == 0 { 2 } else { c.b };
        let mux = |q: usize| -> u32 { c.multiplex_per_queue.as_ref().map(|v| v[q]).unwrap_or(c.multiplex) };
        sess.queues = (0..c.queues.len()).map(|q| (q as u32, mux(q))).collect();
        // catalogue in add order
        let mut cat: Vec<ObjSpec> = Vec::new();
        let mut order: Vec<(usize, u8)> = Vec::new();
        let qs: Vec<usize> = if c.reverse_add { (0..c.queues.len()).rev().collect() } else { (0..c.queues.len()).collect() };
        for q in qs {
            for s in &c.queues[q] {
                order.push((q, *s));
            }
        }
        for (i, (q, s)) in order.iter().enumerate() {
            let mut o = ObjSpec::simple(SIZES[*s as usize], i as u8 + 1);
            o.oti = Some(if c.scheme_rs { OtiSpec::new(Scheme::Rs28, 4, bb, 1, true) } else { OtiSpec::new(Scheme::NoCode, 4, bb, 0, true) });
            o.prio = *q as u32;
            cat.push(o);
        }
        if let Some((_, q)) = c.late {
            let mut o = ObjSpec::simple(SIZES[2], 99);
            o.oti = Some(if c.scheme_rs { OtiSpec::new(Scheme::Rs28, 4, bb, 1, true) } else { OtiSpec::new(Scheme::NoCode, 4, bb, 0, true) });
            o.prio = q as u32;
            cat.push(o);
        }
        let nbase = order.len();
        let mut sys = SendSys::new(&sess, Arc::new(cat));
        for k in 0..nbase {
            sys.apply(&Ev::Add(k));
        }
        sys.apply(&Ev::Publish);
        let mut npk = 0usize;
        let mut late_done = c.late.is_none();
        loop {
            if !late_done && c.late.unwrap().0 == npk {
                sys.apply(&Ev::Add(nbase));
                sys.apply(&Ev::Publish);
                late_done = true;
            }
            let before = sys.log.len();
            sys.apply(&Ev::Read1);
            if let Some(p) = &sys.panicked {
                return Some((format!("C13/panic/{}", panic_sig(p)), format!("panic: {}", p)));
            }
            let got_pkt = sys.log[before..].iter().any(|i| matches!(i, Item::Pkt(_)));
            if !got_pkt {
                break;
            }
            npk += 1;
            if npk > 5000 {
                return Some(("C13/not-quiescent".into(), "more than 5000 packets".into()));
            }
        }
        if !late_done {
            return None; // late index beyond the session
        }
        // ---- oracle over the log ----
        let symbols = |size: usize| -> usize {
            let t = size.div_ceil(4);
            if c.scheme_rs {
                t + t.div_ceil(bb as usize)
            } else {
                t
            }
        };
        let mut objs: BTreeMap<u128, ObjInfo> = BTreeMap::new();
        let mut add_i = 0;
        // packets per block of the current transfer, per toi
        let mut blocks: BTreeMap<u128, BTreeMap<u32, usize>> = BTreeMap::new();
        let mut max_sbn_opened: BTreeMap<u128, i64> = BTreeMap::new();
        let mut open_by_queue: BTreeMap<usize, BTreeSet<u128>> = BTreeMap::new();
        let mut first_starts: BTreeMap<usize, Vec<usize>> = BTreeMap::new();
        // for fairness: per toi, counts of other objects' packets since its last packet, and who was in flight then
        let mut since_last: BTreeMap<u128, BTreeMap<u128, usize>> = BTreeMap::new();
        let mut inflight_at_last: BTreeMap<u128, BTreeSet<u128>> = BTreeMap::new();
        let mut restarted: BTreeMap<u128, BTreeSet<u128>> = BTreeMap::new();
        let mut pkt_idx = 0usize;
        for (li, it) in sys.log.iter().enumerate() {
            match it {
                Item::Api(Ev::Add(k), r) => {
                    if let Some(t) = r.strip_prefix("toi=") {
                        let toi: u128 = t.parse().unwrap();
                        let o = &sys.catalog[*k];
                        let needed = symbols(o.len).max(1);
                        objs.insert(toi, ObjInfo { queue: o.prio as usize, add_index: add_i, size: o.len, published_at: if c.obt { Some(li) } else { None }, needed, emitted: 0, started: false });
                        add_i += 1;
                    }
                }
                Item::Api(Ev::Publish, _) => {
                    for o in objs.values_mut() {
                        if o.published_at.is_none() {
                            o.published_at = Some(li);
                        }
                    }
                }
                Item::Start(t, _) => {
                    if let Some(o) = objs.get_mut(t) {
                        let q = o.queue;
                        if !o.started {
                            o.started = true;
                            first_starts.entry(q).or_default().push(o.add_index);
                        }
                        let set = open_by_queue.entry(q).or_default();
                        set.insert(*t);
                        if set.len() > mux(q).max(1) as usize {
                            return Some(("C13/too-many-objects-in-transmission".into(), format!("queue {}: {} objects in transmission at once, multiplex_files = {}", q, set.len(), mux(q))));
                        }
                        if set.len() >= 2 {
                            g.multiplexed += 1;
                        }
                        blocks.insert(*t, BTreeMap::new());
                        max_sbn_opened.insert(*t, -1);
                        // a (re)started object is not "in flight during the whole interval" for the others
                        for (other, r) in restarted.iter_mut() {
                            if other != t {
                                r.insert(*t);
                            }
                        }
                    }
                }
                Item::Stop(t, _) => {
                    if let Some(o) = objs.get(t) {
                        open_by_queue.entry(o.queue).or_default().remove(t);
                        for (other, r) in restarted.iter_mut() {
                            if other != t {
                                r.insert(*t);
                            }
                        }
                        since_last.remove(t);
                        inflight_at_last.remove(t);
                    }
                }
                Item::Pkt(p) if p.toi != 0 => {
                    g.packets += 1;
                    pkt_idx += 1;
                    let q = match objs.get(&p.toi) {
                        Some(o) => o.queue,
                        None => return Some(("C13/unknown-toi".into(), format!("packet of unknown TOI {}", p.toi))),
                    };
                    if q > 0 {
                        g.lower_prio_packets += 1;
                    }
                    // (1) strict priority
                    for (toi2, o2) in objs.iter() {
                        if o2.queue < q && o2.published_at.is_some() && o2.emitted < o2.needed {
                            return Some((
                                "C13/lower-priority-packet-while-higher-ready".into(),
                                format!("packet #{} belongs to queue {} (TOI {}) while TOI {} of queue {} is published and has sent {} of {} packets", pkt_idx, q, p.toi, toi2, o2.queue, o2.emitted, o2.needed),
                            ));
                        }
                    }
                    if let Some((li_late, _)) = c.late.map(|(i, qq)| (i, qq)) {
                        if pkt_idx > li_late && objs.get(&p.toi).map(|o| o.add_index) == Some(nbase) && objs.values().any(|o| o.queue > q && o.started && o.emitted < o.needed) {
                            g.late_preempts += 1;
                        }
                    }
                    objs.get_mut(&p.toi).unwrap().emitted += 1;
                    // (5) block interleaving
                    let total_in_block = |sbn: u32, size: usize| -> usize {
                        let part = rfc::partition(bb as u128, size as u128, 4).unwrap();
                        let k = part.symbols_of(sbn as u128) as usize;
                        if c.scheme_rs {
                            k + 1
                        } else {
                            k
                        }
                    };
                    let size = objs[&p.toi].size;
                    if size > 0 {
                        let bm = blocks.entry(p.toi).or_default();
                        if !bm.contains_key(&p.sbn) {
                            let prev = *max_sbn_opened.get(&p.toi).unwrap_or(&-1);
                            if (p.sbn as i64) != prev + 1 {
                                return Some(("C13/blocks-not-opened-in-increasing-order".into(), format!("TOI {}: block {} opened after block {}", p.toi, p.sbn, prev)));
                            }
                            max_sbn_opened.insert(p.toi, p.sbn as i64);
                        }
                        *bm.entry(p.sbn).or_insert(0) += 1;
                        let partial = bm.iter().filter(|(sbn, n)| **n < total_in_block(**sbn, size)).count();
                        // the packet just emitted may have closed its block: blocks partly sent BEFORE it + itself
                        let open_now = partial + if bm[&p.sbn] == total_in_block(p.sbn, size) { 1 } else { 0 };
                        if open_now > c.interleave as usize {
                            return Some(("C13/too-many-open-blocks".into(), format!("TOI {}: {} source blocks partly sent at once, interleave_blocks = {}", p.toi, open_now, c.interleave)));
                        }
                        if open_now >= 2 {
                            g.interleaved += 1;
                        }
                    }
                    // (4) round-robin fairness inside the queue, within one transfer
                    if let Some(cnt) = since_last.get(&p.toi) {
                        let was = inflight_at_last.get(&p.toi).cloned().unwrap_or_default();
                        let now_open = open_by_queue.get(&q).cloned().unwrap_or_default();
                        let excl = restarted.get(&p.toi).cloned().unwrap_or_default();
                        for other in was.intersection(&now_open) {
                            if *other == p.toi || excl.contains(other) {
                                continue;
                            }
                            let n = *cnt.get(other).unwrap_or(&0);
                            if n != 1 {
                                return Some((
                                    "C13/round-robin-unfair".into(),
                                    format!("queue {}: between two consecutive packets of TOI {}, TOI {} (in transmission the whole time) emitted {} packet(s), expected exactly 1", q, p.toi, other, n),
                                ));
                            }
                        }
                    }
                    since_last.insert(p.toi, BTreeMap::new());
                    inflight_at_last.insert(p.toi, open_by_queue.get(&q).cloned().unwrap_or_default());
                    restarted.insert(p.toi, BTreeSet::new());
                    for (t2, m) in since_last.iter_mut() {
                        if *t2 != p.toi && objs[t2].queue == q {
                            *m.entry(p.toi).or_insert(0) += 1;
                        }
                    }
                }
                _ => {}
            }
        }
        // (2) add order within a queue
        for (q, v) in &first_starts {
            if v.windows(2).any(|w| w[0] > w[1]) {
                return Some(("C13/objects-not-started-in-add-order".into(), format!("queue {}: objects started in add-order positions {:?}", q, v)));
            }
        }
        // everything published was sent
        for (toi, o) in &objs {
            if o.emitted != o.needed {
                return Some(("C13/object-not-fully-sent".into(), format!("TOI {} (queue {}) sent {} of {} packets when the sender went quiescent", toi, o.queue, o.emitted, o.needed)));
            }
        }
        None
    });
    match r {
        Ok(v) => v,
        Err(p) => Some((format!("C13/panic/{}", panic_sig(&p)), format!("panic: {}", p))),
    }
}

pub fn replay(v: &serde_json::Value) -> Vec<Violation> {
    if v["check"] == "timed" {
        return replay_timed(v);
    }
    let c: Case = serde_json::from_value(v["case"].clone()).expect("case");
    let mut g = G::default();
    run_case(&c, &mut g).into_iter().map(|(key, what)| Violation { key, what, case: v.clone() }).collect()
}


/// the cases of one workload: the configuration product and the late-add deviations
fn workload_cases(w: &[Vec<u8>], thorough: bool) -> Vec<Case> {
    let mut cases: Vec<Case> = Vec::new();
    let w: Vec<Vec<u8>> = w.to_vec();
    {
        let total: usize = w.iter().flatten().map(|s| SIZES[*s as usize].div_ceil(4).max(1)).sum();
        for multiplex in [0u32, 1, 2, 3] {
            for interleave in [1u8, 2, 3] {
                for reverse_add in [false, true] {
                    if reverse_add && w.len() == 1 {
                        continue;
                    }
                    for scheme_rs in [false, true] {
                        if scheme_rs && (interleave == 1 || !thorough && multiplex != 2) {
                            continue;
                        }
                        cases.push(Case { queues: w.clone(), multiplex, interleave, reverse_add, scheme_rs, late: None, multiplex_per_queue: None, obt: false, b: 0 });
                        if !scheme_rs && interleave <= 2 {
                            cases.push(Case { queues: w.clone(), multiplex, interleave, reverse_add, scheme_rs, late: None, multiplex_per_queue: None, obt: true, b: 0 });
                        }
                        // one deviation: add+publish one more object at every packet index, into every queue
                        if multiplex <= 2 && interleave <= 2 && !scheme_rs {
                            for i in 0..=(total + 1).min(if thorough { 14 } else { 8 }) {
                                for q in 0..w.len() {
                                    cases.push(Case { queues: w.clone(), multiplex, interleave, reverse_add, scheme_rs, late: Some((i, q)), multiplex_per_queue: None, obt: false, b: 0 });
                                    if w.len() >= 2 && multiplex == 1 && interleave == 1 {
                                        cases.push(Case { queues: w.clone(), multiplex, interleave, reverse_add, scheme_rs, late: Some((i, q)), multiplex_per_queue: None, obt: true, b: 0 });
                                    }
                                }
                            }
                        }
                    }
                }
            }
        }
    }
    cases
}

fn queue_contents(max_objs: usize) -> Vec<Vec<u8>> {
    let mut v: Vec<Vec<u8>> = vec![vec![]];
    let mut cur: Vec<Vec<u8>> = vec![vec![]];
    for _ in 0..max_objs {
        let mut next = Vec::new();
        for c in &cur {
            for s in 0..4u8 {
                let mut n = c.clone();
                n.push(s);
                next.push(n);
            }
        }
        v.extend(next.iter().cloned());
        cur = next;
    }
    v
}

pub fn run(thorough: bool) -> i32 {
    let mut rep = Report::new("C13", "model_checking", if thorough { "thorough" } else { "quick" });
    let mut workloads: Vec<Vec<Vec<u8>>> = Vec::new();
    let (m1, m2, m3) = if thorough { (3, 3, 2) } else { (3, 2, 1) };
    for a in queue_contents(m1) {
        workloads.push(vec![a]);
    }
    for a in queue_contents(m2) {
        for b in queue_contents(m2) {
            workloads.push(vec![a.clone(), b]);
        }
    }
    for a in queue_contents(m3) {
        for b in queue_contents(m3) {
            for c in queue_contents(m3) {
                workloads.push(vec![a.clone(), b.clone(), c]);
            }
        }
    }
    let mut cases: Vec<Case> = Vec::new();
    // block interleaving on its own: one object (and two multiplexed ones) of 1..14 symbols cut into blocks of
    // at most 1..4 symbols, window 1..4 (5 thorough): more blocks than the window, equal and unequal blocks
    for bsz in 1..=4u16 {
        for size in 4..18u8 {
            for interleave in 1..=(if thorough { 5u8 } else { 4 }) {
                for scheme_rs in [false, true] {
                    cases.push(Case { queues: vec![vec![size]], multiplex: 1, interleave, reverse_add: false, scheme_rs, late: None, multiplex_per_queue: None, obt: false, b: bsz });
                    if size % 3 == 0 {
                        cases.push(Case { queues: vec![vec![size, size - 1]], multiplex: 2, interleave, reverse_add: false, scheme_rs, late: None, multiplex_per_queue: None, obt: false, b: bsz });
                    }
                }
            }
        }
    }
    // queues with different multiplex_files values (every assignment of {0,1,2,3} that is not uniform)
    for w in &workloads {
        let nq = w.len();
        if nq < 2 || w.iter().all(|q| q.len() < 2) || w.iter().map(|q| q.len()).sum::<usize>() > 4 {
            continue; // (the 3-queue workloads of 5-6 objects x 60 assignments would not fit in memory)
        }
        for code in 0..4u32.pow(nq as u32) {
            let v: Vec<u32> = (0..nq).map(|q| (code / 4u32.pow(q as u32)) % 4).collect();
            if v.windows(2).all(|x| x[0] == x[1]) {
                continue;
            }
            for interleave in [1u8, 2] {
                if !thorough && interleave == 2 {
                    continue;
                }
                cases.push(Case { queues: w.clone(), multiplex: 0, interleave, reverse_add: false, scheme_rs: false, late: None, multiplex_per_queue: Some(v.clone()), obt: false, b: 0 });
            }
        }
    }
    // the big product is generated and run per workload inside the workers (it does not fit a single Vec)
    let wl = Arc::new(workloads.clone());
    let wres = par_map_wd(
        wl.clone(),
        Duration::from_secs(600),
        move |_, w| {
            let mut g = G::default();
            let mut found: Vec<(String, String, Case)> = Vec::new();
            let cs = workload_cases(w, thorough);
            let n = cs.len();
            for c in cs {
                if let Some((k, wh)) = run_case(&c, &mut g) {
                    if !found.iter().any(|f| f.0 == k) {
                        found.push((k, wh, c));
                    }
                }
            }
            (found, g, n)
        },
        |_, w| (vec![("C13/hang".into(), "workload did not finish in 600 s".into(), Case { queues: w.clone(), multiplex: 0, interleave: 1, reverse_add: false, scheme_rs: false, late: None, multiplex_per_queue: None, obt: false, b: 0 })], G::default(), 0),
    );
    let mut g = G::default();
    let mut nw_cases = 0usize;
    let mut last_case: Option<Case> = None;
    for (found, gg, n) in wres {
        g.sessions += gg.sessions;
        g.packets += gg.packets;
        g.lower_prio_packets += gg.lower_prio_packets;
        g.multiplexed += gg.multiplexed;
        g.interleaved += gg.interleaved;
        g.late_preempts += gg.late_preempts;
        nw_cases += n;
        for (key, what, c) in found {
            last_case = Some(c.clone());
            rep.add(Violation { key, what, case: json!({"check": "workload", "case": serde_json::to_value(&c).unwrap()}) });
        }
    }
    let _ = last_case;
    let ncases = cases.len() + nw_cases;
    let cases = Arc::new(cases);
    let res = par_map_wd(
        cases.clone(),
        Duration::from_secs(30),
        |_, c| {
            let mut g = G::default();
            let v = run_case(c, &mut g);
            (v, g)
        },
        |_, _| (Some(("C13/hang".into(), "session did not finish in 30 s".into())), G::default()),
    );
    for (c, (v, gg)) in cases.iter().zip(res) {
        g.sessions += gg.sessions;
        g.packets += gg.packets;
        g.lower_prio_packets += gg.lower_prio_packets;
        g.multiplexed += gg.multiplexed;
        g.interleaved += gg.interleaved;
        g.late_preempts += gg.late_preempts;
        if let Some((key, what)) = v {
            rep.add(Violation { key, what, case: json!({"check": "workload", "case": serde_json::to_value(c).unwrap()}) });
        }
    }
    // ---- priority x timing ----
    let tcases = Arc::new(timed_cases(thorough));
    let tres = par_map_wd(
        tcases.clone(),
        Duration::from_secs(30),
        |_, c| {
            let mut g = TG::default();
            let v = run_timed(c, &mut g);
            (v, g)
        },
        |_, _| (Some(("C13/hang".into(), "timed session did not finish in 30 s".into())), TG::default()),
    );
    let mut tg = TG::default();
    for (c, (v, gg)) in tcases.iter().zip(tres) {
        tg.cases += gg.cases;
        tg.runs += gg.runs;
        tg.packets += gg.packets;
        tg.lower_sent_while_higher_waited += gg.lower_sent_while_higher_waited;
        tg.ready_inside_a_turn += gg.ready_inside_a_turn;
        tg.paced_due_polls += gg.paced_due_polls;
        tg.late_objects += gg.late_objects;
        tg.higher_resumed_after_lower += gg.higher_resumed_after_lower;
        if let Some((key, what)) = v {
            rep.add(Violation { key, what, case: json!({"check": "timed", "case": serde_json::to_value(c).unwrap()}) });
        }
    }
    let ncases = ncases + tcases.len();
    g.packets += tg.packets;
    rep.cov("timed_cases", tg.cases);
    rep.cov("timed_sender_runs", tg.runs);
    rep.guard("timed_lower_queue_sends_while_higher_object_waits_then_higher_resumes", tg.higher_resumed_after_lower);
    rep.guard("timed_polls_between_two_transfers_of_one_carousel_turn", tg.ready_inside_a_turn);
    rep.guard("timed_polls_with_a_paced_packet_due", tg.paced_due_polls);
    rep.guard("timed_late_objects_checked", tg.late_objects);
    rep.sample(serde_json::to_value(&tcases[tcases.len() / 3]).unwrap());
    rep.cov("states", ncases as u64);
    rep.cov("transitions", g.packets);
    rep.cov("traces_validated_against_impl", ncases as u64);
    rep.cov("evaluations", ncases as u64);
    rep.cov("distinct_nontrivial", ncases as u64);
    rep.cov("explanation", "states = distinct workloads (x late-add deviations) run on the real Sender to quiescence; transitions = object packets, each checked against the scheduling oracle (strict priority, add order, multiplex bound, round-robin fairness, interleave bound, increasing SBN)");
    rep.cov("exhaustive", true);
    rep.cov("workloads", workloads.len() as u64);
    rep.guard("lower_priority_packets", g.lower_prio_packets);
    rep.guard("objects_multiplexed", g.multiplexed);
    rep.guard("blocks_interleaved", g.interleaved);
    rep.guard("late_higher_priority_object_preempts", g.late_preempts);
    rep.sample(serde_json::to_value(&cases[cases.len() / 2]).unwrap());
    rep.sample(serde_json::to_value(&cases[cases.len() - 1]).unwrap());
    rep.assume("workload family: no start times, pacing or carousel (ready = published and transfers outstanding); fairness is checked between consecutive packets of one transfer. Timed family: one timed object (start time, carousel delay/interval, pacing) per higher queue over plain long objects in the lowest queue, fixed poll step and per-poll budget; oracle = the packets of queues <= q leave at the same (poll, order) with and without the lower queues, and inside one instant no higher queue follows a lower one (when the timed object is due is C14's business)");
    rep.finish()
}

// ------------------------------------------------------------------------------------------------
// Second family: priority x timing. A higher-priority object that waits (start time, carousel
// delay/interval, pacing tick) lets lower queues send; the instant it is ready again it goes first.
// Differential oracle, no hand-written timing model: the packets of the queues <= q are emitted at
// exactly the same (poll, order) whether or not lower-priority queues exist.

#[derive(Serialize, Deserialize, Clone, Debug, PartialEq)]
pub struct Timed {
    /// 0 start time, 1 carousel delay, 2 carousel interval, 3 pacing (target duration), 4 start time + pacing
    pub kind: u8,
    pub param_ms: u64,
    /// index into SIZES
    pub size: u8,
    /// max_transfer_count (0 = 1): a carousel turn is that many back-to-back transfers
    #[serde(default)]
    pub count: u32,
    /// gzip content encoding (compressible text): the pacing tick divides the target by the symbols of the
    /// transfer-encoded object
    #[serde(default)]
    pub cenc: bool,
}

#[derive(Serialize, Deserialize, Clone, Debug)]
pub struct TimedCase {
    /// one timed object per queue, highest priority first; the last queue below them holds plain long objects
    pub timed: Vec<Timed>,
    pub step_ms: u64,
    /// object packets read per poll
    pub budget: usize,
    pub multiplex: u32,
    pub low_objs: usize,
    pub polls: usize,
    /// a plain (untimed) object in the top queue, added after the timed one
    #[serde(default)]
    pub top_plain: bool,
    /// a further plain object U of the top queue is added before the reads of poll P and published before the reads
    /// of poll Q >= P (FullFDT): from poll Q on, until U is completely sent, nothing of a lower queue leaves
    #[serde(default)]
    pub late: Option<(usize, usize)>,
}

fn timed_obj(t: &Timed, salt: u8, prio: u32) -> ObjSpec {
    let mut o = ObjSpec::simple(SIZES[t.size as usize], salt);
    o.oti = Some(OtiSpec::new(Scheme::NoCode, 4, 2, 0, true));
    o.prio = prio;
    o.count = t.count.max(1);
    if t.cenc {
        o.cenc = 3;
        o.text = true;
    }
    match t.kind {
        0 => o.start_ms = Some(t.param_ms as i64),
        1 => o.carousel = Some(Carousel::Delay(t.param_ms)),
        2 => o.carousel = Some(Carousel::Interval(t.param_ms)),
        3 => o.target = Some(Target::WithinMs(t.param_ms)),
        _ => {
            o.start_ms = Some(t.param_ms as i64 / 2);
            o.target = Some(Target::WithinMs(t.param_ms));
        }
    }
    o
}

/// (poll index, position among the object packets of that poll, catalogue index, sbn, esi)
type Trace = Vec<(usize, usize, usize, u32, u32)>;

/// queue of each catalogue object of the full run, and the packet count of the plain top-queue object
/// catalogue index of the late object U (right after the objects of the top queue)
fn late_index(c: &TimedCase) -> Option<usize> {
    c.late.map(|_| if c.top_plain { 2 } else { 1 })
}

fn timed_layout(c: &TimedCase) -> (Vec<usize>, Option<(usize, usize)>) {
    let mut prio = Vec::new();
    let mut plain = None;
    for q in 0..c.timed.len() {
        prio.push(q);
        if q == 0 && c.top_plain {
            plain = Some((prio.len(), SIZES[3].div_ceil(4)));
            prio.push(0);
        }
        if q == 0 && c.late.is_some() {
            prio.push(0);
        }
    }
    for _ in 0..c.low_objs {
        prio.push(c.timed.len());
    }
    (prio, plain)
}

fn timed_run(c: &TimedCase, nqueues: usize) -> Result<Trace, (String, String)> {
    let mut sess = SessSpec::basic(OtiSpec::new(Scheme::NoCode, 1424, 64, 0, true));
    sess.queues = (0..=c.timed.len()).map(|q| (q as u32, c.multiplex)).collect();
    let mut cat: Vec<ObjSpec> = Vec::new();
    for (q, t) in c.timed.iter().enumerate().take(nqueues) {
        cat.push(timed_obj(t, q as u8 + 1, q as u32));
        if q == 0 && c.top_plain {
            let mut o = ObjSpec::simple(SIZES[3], 40);
            o.oti = Some(OtiSpec::new(Scheme::NoCode, 4, 2, 0, true));
            o.prio = 0;
            cat.push(o);
        }
        if q == 0 && c.late.is_some() {
            let mut o = ObjSpec::simple(SIZES[3], 41);
            o.oti = Some(OtiSpec::new(Scheme::NoCode, 4, 2, 0, true));
            o.prio = 0;
            cat.push(o);
        }
    }
    if nqueues > c.timed.len() {
        for j in 0..c.low_objs {
            let mut o = ObjSpec::simple(4 * (c.polls * c.budget + 3), 50 + j as u8);
            o.oti = Some(OtiSpec::new(Scheme::NoCode, 4, 2, 0, true));
            o.prio = c.timed.len() as u32;
            cat.push(o);
        }
    }
    let n = cat.len();
    let mut sys = SendSys::new(&sess, Arc::new(cat));
    for k in 0..n {
        if Some(k) != late_index(c) {
            sys.apply(&Ev::Add(k));
        }
    }
    sys.apply(&Ev::Publish);
    let mut tr: Trace = Vec::new();
    for poll in 0..c.polls {
        if let (Some((p, q)), Some(k)) = (c.late, late_index(c)) {
            if poll == p {
                sys.apply(&Ev::Add(k));
            }
            if poll == q {
                sys.apply(&Ev::Publish);
            }
        }
        let mut got = 0usize;
        let mut reads = 0;
        while got < c.budget {
            let before = sys.log.len();
            sys.apply(&Ev::Read1);
            reads += 1;
            if let Some(p) = &sys.panicked {
                return Err((format!("C13/panic/{}", panic_sig(p)), format!("panic: {}", p)));
            }
            let mut any = false;
            for it in &sys.log[before..] {
                if let Item::Pkt(p) = it {
                    any = true;
                    if p.toi != 0 {
                        let k = sys.toi_of.iter().position(|t| *t == Some(p.toi)).ok_or(("C13/unknown-toi".to_string(), format!("packet of unknown TOI {}", p.toi)))?;
                        tr.push((poll, got, k, p.sbn, p.esi));
                        got += 1;
                    }
                }
            }
            if !any {
                break;
            }
            if reads > 200 {
                return Err(("C13/timed/not-quiescent".into(), "one poll produced more than 200 packets without reaching its budget of object packets".into()));
            }
        }
        sys.apply(&Ev::Tick(c.step_ms));
    }
    Ok(tr)
}

#[derive(Default, Clone)]
pub struct TG {
    pub cases: u64,
    pub runs: u64,
    pub packets: u64,
    /// a lower queue sent at a poll where a higher timed object still had packets to come later
    pub lower_sent_while_higher_waited: u64,
    /// a higher timed object sent at a later poll than some lower-queue packet
    pub higher_resumed_after_lower: u64,
    /// polls at which a carousel object with max_transfer_count >= 2 was between two transfers of one turn
    pub ready_inside_a_turn: u64,
    /// polls at which the next packet of a paced top-queue object was due
    pub paced_due_polls: u64,
    pub late_objects: u64,
}

pub fn run_timed(c: &TimedCase, g: &mut TG) -> Option<(String, String)> {
    g.cases += 1;
    let r = catch(|| -> Option<(String, String)> {
        let nq = c.timed.len() + 1;
        let full = match timed_run(c, nq) {
            Ok(t) => t,
            Err(e) => return Some(e),
        };
        g.runs += 1;
        g.packets += full.len() as u64;
        let (prio, plain) = timed_layout(c);
        let prio_of = |k: usize| -> usize { prio[k] };
        // absolute clause for the untimed object of the top queue: until it is fully sent nothing of a
        // lower queue leaves - unless it is itself waiting for the queue's only slot, held by a paced object
        if let Some((k, needed)) = plain {
            if c.multiplex >= 2 || c.timed[0].kind <= 2 {
                let mut sent = 0;
                for x in &full {
                    if x.2 == k {
                        sent += 1;
                    } else if prio_of(x.2) > 0 && sent < needed {
                        return Some((
                            "C13/timed/lower-priority-packet-while-higher-ready".into(),
                            format!("poll {}: packet of queue {} while the plain object of queue 0 (published, no timing) has sent {} of {} packets", x.0, prio_of(x.2), sent, needed),
                        ));
                    }
                }
            }
        }
        // the late object U: published at poll Q, plain, top queue - nothing of a lower queue until it is completely sent
        // (unless it has to wait for the queue's only slot, held by a paced object)
        if let (Some((_, q)), Some(k)) = (c.late, late_index(c)) {
            if c.multiplex >= 2 || c.timed[0].kind <= 2 {
                let needed = SIZES[3].div_ceil(4);
                let mut sent = 0;
                for x in &full {
                    if x.2 == k {
                        sent += 1;
                    } else if x.0 >= q && prio_of(x.2) > 0 && sent < needed {
                        return Some((
                            "C13/timed/lower-priority-packet-while-higher-ready".into(),
                            format!("poll {}: packet of queue {} while the object added at poll {:?} and published at poll {} to queue 0 (no timing) has sent {} of {} packets", x.0, prio_of(x.2), c.late.map(|l| l.0), q, sent, needed),
                        ));
                    }
                }
                g.late_objects += 1;
            }
        }
        // inside one poll (one instant) a higher queue never follows a lower one
        for w in full.windows(2) {
            if w[0].0 == w[1].0 && prio_of(w[1].2) < prio_of(w[0].2) {
                return Some((
                    "C13/timed/lower-before-higher-at-one-instant".into(),
                    format!("poll {} (t = {} ms): a packet of queue {} is followed, at the same instant, by a packet of the higher-priority queue {}", w[0].0, w[0].0 as u64 * c.step_ms, prio_of(w[0].2), prio_of(w[1].2)),
                ));
            }
        }
        // absolute readiness for the cases where the property's definition leaves no room: a start time
        // (ready from that instant on) and IntervalBetweenStartTimes (ready once more than the interval has
        // passed since the previous transfer STARTED - not since it ended). At a poll where the timed object
        // of the top queue is ready and not in transmission, the first object packet must be its own.
        if c.timed.len() == 1 && !c.top_plain && c.late.is_none() && (matches!(c.timed[0].kind, 0 | 2) || (c.timed[0].kind == 1 && c.timed[0].count >= 2)) {
            let t0k = &c.timed[0];
            let n = SIZES[t0k.size as usize].div_ceil(4).max(1);
            let mut sent = 0usize; // packets of the timed object so far
            let mut last_start_poll: Option<usize> = None;
            let mut i = 0usize;
            for poll in 0..c.polls {
                let t = poll as u64 * c.step_ms;
                let idle = sent % n == 0;
                // inside a carousel turn (max_transfer_count back-to-back transfers) the next transfer waits for nothing
                let in_turn = (sent / n) % t0k.count.max(1) as usize != 0;
                let ready = idle
                    && match t0k.kind {
                        0 => sent == 0 && t >= t0k.param_ms,
                        1 => in_turn,
                        _ => {
                            in_turn
                                || match last_start_poll {
                                    None => true,
                                    Some(sp) => t > sp as u64 * c.step_ms + t0k.param_ms,
                                }
                        }
                    };
                if ready && in_turn {
                    g.ready_inside_a_turn += 1;
                }
                let first = full.get(i).filter(|x| x.0 == poll);
                if ready {
                    if let Some(x) = first {
                        if x.2 != 0 {
                            return Some((
                                "C13/timed/lower-priority-packet-while-higher-ready".into(),
                                format!("poll {} (t = {} ms): the timed object of the top queue ({:?}, {} packets sent, previous transfer started at poll {:?}) is ready, yet the first packet of the poll belongs to queue {}", poll, t, t0k, sent, last_start_poll, prio_of(x.2)),
                            ));
                        }
                    }
                }
                while i < full.len() && full[i].0 == poll {
                    if full[i].2 == 0 {
                        if sent % n == 0 {
                            last_start_poll = Some(poll);
                        }
                        sent += 1;
                    }
                    i += 1;
                }
            }
        }
        // absolute readiness of a PACED object alone in the top queue: packet i is due at start + i * target / n,
        // "due" includes the instant of exact equality; at a poll where its next packet is due, the first object
        // packet of the poll is its own
        if c.timed.len() == 1 && !c.top_plain && c.late.is_none() && matches!(c.timed[0].kind, 3 | 4) && c.timed[0].count <= 1 {
            let t0k = &c.timed[0];
            let n = if t0k.cenc { timed_obj(t0k, 1, 0).desc(None).map(|d| d.transfer_length as usize).unwrap_or(0).div_ceil(4).max(1) as u64 } else { SIZES[t0k.size as usize].div_ceil(4).max(1) as u64 };
            let mut sent = 0u64;
            let mut start: Option<u64> = None;
            let mut i = 0usize;
            for poll in 0..c.polls {
                let t = poll as u64 * c.step_ms;
                let due = sent < n
                    && match start {
                        None => t0k.kind == 3 || t >= t0k.param_ms / 2,
                        // flute derives the tick with floating point: a later packet may be due up to a few ns after
                        // the exact instant, so equality within 1 us is not claimed (the first packet's instant is exact)
                        Some(s) => (t - s) * 1_000_000 >= sent * t0k.param_ms * 1_000_000 / n + 1_000,
                    };
                if due {
                    g.paced_due_polls += 1;
                    if let Some(x) = full.get(i).filter(|x| x.0 == poll) {
                        if x.2 != 0 {
                            return Some((
                                "C13/timed/lower-priority-packet-while-higher-ready".into(),
                                format!("poll {} (t = {} ms): packet #{} of the paced object of the top queue ({:?}, {} packets, transfer started at {:?} ms) is due, yet the first packet of the poll belongs to queue {}", poll, t, sent, t0k, n, start, prio_of(x.2)),
                            ));
                        }
                    }
                }
                while i < full.len() && full[i].0 == poll {
                    if full[i].2 == 0 {
                        if sent == 0 {
                            start = Some(t);
                        }
                        sent += 1;
                    }
                    i += 1;
                }
            }
        }
        for q in 1..nq {
            let part = match timed_run(c, q) {
                Ok(t) => t,
                Err(e) => return Some(e),
            };
            g.runs += 1;
            let proj: Vec<(usize, usize, u32, u32)> = full.iter().filter(|x| prio_of(x.2) < q).map(|x| (x.0, x.2, x.3, x.4)).collect();
            let alone: Vec<(usize, usize, u32, u32)> = part.iter().map(|x| (x.0, x.2, x.3, x.4)).collect();
            if proj != alone {
                let i = proj.iter().zip(alone.iter()).position(|(a, b)| a != b).unwrap_or(proj.len().min(alone.len()));
                return Some((
                    "C13/timed/higher-queues-disturbed-by-lower".into(),
                    format!(
                        "queues 0..{}: with the lower queues present their packet #{} is {:?}, without them {:?} ((poll, object, sbn, esi); poll step {} ms, {} object packets per poll)",
                        q,
                        i,
                        proj.get(i),
                        alone.get(i),
                        c.step_ms,
                        c.budget
                    ),
                ));
            }
        }
        let last_poll_of_higher = full.iter().filter(|x| prio_of(x.2) < c.timed.len()).map(|x| x.0).max();
        let first_poll_of_lowest = full.iter().filter(|x| prio_of(x.2) == c.timed.len()).map(|x| x.0).min();
        if let (Some(h), Some(l)) = (last_poll_of_higher, first_poll_of_lowest) {
            if l < h {
                g.lower_sent_while_higher_waited += 1;
                g.higher_resumed_after_lower += 1;
            }
        }
        None
    });
    match r {
        Ok(v) => v,
        Err(p) => Some((format!("C13/panic/{}", panic_sig(&p)), format!("panic: {}", p))),
    }
}

pub fn replay_timed(v: &serde_json::Value) -> Vec<Violation> {
    let c: TimedCase = serde_json::from_value(v["case"].clone()).expect("case");
    let mut g = TG::default();
    run_timed(&c, &mut g).into_iter().map(|(key, what)| Violation { key, what, case: v.clone() }).collect()
}

pub fn timed_cases(thorough: bool) -> Vec<TimedCase> {
    let mut v = Vec::new();
    let params: &[u64] = if thorough { &[0, 100, 300, 1000, 2500] } else { &[0, 300, 1000] };
    let steps: &[u64] = if thorough { &[50, 100, 250, 700] } else { &[100, 250, 700] };
    let mut tops: Vec<Timed> = Vec::new();
    for kind in 0..5u8 {
        for &param_ms in params {
            for size in 1..4u8 {
                tops.push(Timed { kind, param_ms, size, count: 0, cenc: false });
                if kind == 3 && size == 3 {
                    tops.push(Timed { kind, param_ms, size, count: 0, cenc: true });
                }
            }
        }
    }
    for kind in [1u8, 2] {
        for count in [2u32, 3] {
            for &param_ms in params {
                for size in 1..3u8 {
                    tops.push(Timed { kind, param_ms, size, count, cenc: false });
                }
            }
        }
    }
    let mids = [Timed { kind: 1, param_ms: 500, size: 2, count: 0, cenc: false }, Timed { kind: 3, param_ms: 1200, size: 3, count: 0, cenc: false }, Timed { kind: 0, param_ms: 400, size: 1, count: 0, cenc: false }, Timed { kind: 2, param_ms: 600, size: 2, count: 2, cenc: false }];
    for t in &tops {
        for &step_ms in steps {
            for budget in [1usize, 2, 5] {
                for multiplex in [1u32, 2] {
                    for low_objs in [1usize, 2] {
                        if low_objs == 2 && multiplex == 1 && !thorough {
                            continue;
                        }
                        v.push(TimedCase { timed: vec![t.clone()], step_ms, budget, multiplex, low_objs, polls: 14, top_plain: false, late: None });
                        // a plain object added while the timed one is at work, published at once or some polls later
                        if t.kind <= 2 && low_objs == 1 {
                            for late in [(1usize, 1usize), (1, 3), (2, 6), (4, 4)] {
                                if !thorough && budget == 5 {
                                    continue;
                                }
                                v.push(TimedCase { timed: vec![t.clone()], step_ms, budget, multiplex, low_objs, polls: 14, top_plain: false, late: Some(late) });
                            }
                        }
                        v.push(TimedCase { timed: vec![t.clone()], step_ms, budget, multiplex, low_objs, polls: 14, top_plain: true, late: None });
                        for m in &mids {
                            if !thorough && (budget == 5 || low_objs == 2) {
                                continue;
                            }
                            v.push(TimedCase { timed: vec![t.clone(), m.clone()], step_ms, budget, multiplex, low_objs, polls: 14, top_plain: budget == 2, late: None });
                            if thorough {
                                v.push(TimedCase { timed: vec![m.clone(), t.clone()], step_ms, budget, multiplex, low_objs, polls: 14, top_plain: budget == 1, late: None });
                            }
                        }
                    }
                }
            }
        }
    }
    v
}
