//! C11 — announce before send. Engine: E2 explicit-state BFS over the real Sender (statex), states
//! merged on the canonical `{:#?}` fingerprint of the sender + the monitor state.
use crate::report::*;
use crate::sendsys::*;
use crate::sess::*;
use crate::statex::*;
use crate::util::*;
use serde::{Deserialize, Serialize};
use serde_json::json;
use std::collections::{BTreeMap, BTreeSet};
use std::sync::Arc;

#[derive(Serialize, Deserialize, Clone, Debug)]
pub struct Cfg {
    pub full_fdt: bool,
    pub multiplex: u32,
    pub queues: usize,
    /// FDT symbol size: 512 => an instance is several packets ("mid-FDT" exists)
    pub fdt_e: u16,
    /// 0 = three plain objects; 1 = the first is transferred twice, the second is a carousel object
    /// (1 s between transfers), the third has a start time 1 s after t0; 2 = transfer counts 0 and 3, a
    /// carousel with a zero delay; 3 = other add order; 4 = target acquisition: deadline passed / deadline now / zero
    /// duration; 5 = target acquisition: duration 1 s / deadline in 1.5 s / as fast as possible; 6 = Reed-Solomon, RaptorQ (FDT-only FTI) and a
    /// gzip-encoded object
    #[serde(default)]
    pub catalog_kind: u8,
    /// session OTI = Reed-Solomon without parity symbols, under which no FDT instance can be encoded: every
    /// publication (explicit or automatic) fails. (The field name is historical.)
    #[serde(default)]
    pub sess_raptor: bool,
    /// session OTI = Reed-Solomon GF(2^8) with two parity symbols: the FDT instances carry repair packets
    #[serde(default)]
    pub sess_rs: bool,
    /// the FDT's own carousel: 0 = 1 s between transfers (default), 1 = 2 s between start times, 2 = zero delay,
    /// 3 = zero interval
    #[serde(default)]
    pub fdt_carousel: u8,
    /// session OTI = Raptor (16, 64, parity 1): the FDT instances are Raptor-coded
    #[serde(default)]
    pub sess_real_raptor: bool,
}

pub fn catalog_of(kind: u8) -> Vec<ObjSpec> {
    let mut v = catalog();
    if kind == 1 {
        v[0].count = 2;
        v[1].carousel = Some(Carousel::Delay(1000));
        v[2].start_ms = Some(1000);
    }
    if kind == 3 {
        // other add order (the search adds objects in catalogue order): low priority first
        v.swap(0, 1);
    }
    if kind == 4 {
        // target acquisition in every form: a deadline already passed, a deadline at the very instant of the first
        // poll, a zero duration (the pacing bookkeeping must not disturb "announce before send")
        v[0].target = Some(Target::AtMs(-1000));
        v[1].target = Some(Target::AtMs(0));
        v[2].target = Some(Target::WithinMs(0));
    }
    if kind == 5 {
        v[0].target = Some(Target::WithinMs(1000));
        v[1].target = Some(Target::AtMs(1500));
        v[2].target = Some(Target::Asap);
    }
    if kind == 6 {
        // other FEC schemes and a content encoding (announce-before-send must not depend on them)
        v[0].oti = Some(OtiSpec::new(Scheme::Rs28, 4, 2, 1, true));
        v[1].oti = Some(OtiSpec::new(Scheme::RaptorQ, 4, 2, 1, false));
        v[2].cenc = 3;
        v[2].text = true;
    }
    if kind == 2 {
        // degenerate and extreme transfer counts: 0 (flute sends such an object once) and a large one
        v[0].count = 0;
        v[1].count = 3;
        v[2].carousel = Some(Carousel::Delay(0));
    }
    v
}

pub fn catalog() -> Vec<ObjSpec> {
    let mk = |len: usize, salt: u8, prio: u32| {
        let mut o = ObjSpec::simple(len, salt);
        o.oti = Some(OtiSpec::new(Scheme::NoCode, 4, 2, 0, true));
        o.prio = prio;
        o
    };
    vec![mk(7, 1, 0), mk(11, 2, 1), mk(3, 3, 0)]
}

pub fn sess(c: &Cfg) -> SessSpec {
    let mut s = SessSpec::basic(if c.sess_real_raptor { OtiSpec::new(Scheme::Raptor, 16, 64, 1, true) } else if c.sess_rs { OtiSpec::new(Scheme::Rs28, 256, 64, 2, true) } else if c.sess_raptor { OtiSpec::new(Scheme::Rs28, 512, 64, 0, true) } else { OtiSpec::new(Scheme::NoCode, c.fdt_e, 64, 0, true) });
    s.full_fdt = c.full_fdt;
    s.fdt_carousel = match c.fdt_carousel {
        1 => Carousel::Interval(2000),
        2 => Carousel::Delay(0),
        3 => Carousel::Interval(0),
        _ => Carousel::Delay(1000),
    };
    s.queues = (0..c.queues).map(|q| (q as u32, c.multiplex)).collect();
    s
}

/// monitor computed from the whole observation log (stateless function of the log)
#[derive(Default, Debug, Clone, PartialEq, Eq, Hash)]
pub struct Mon11 {
    pub announced: BTreeSet<u128>,
    pub done_ids: BTreeSet<u32>,
    pub in_progress: BTreeMap<u32, u64>,
    pub must_fdt: bool,
    pub ids_seen: BTreeSet<u32>,
    pub ids_at_publish: BTreeSet<u32>,
    pub violation: Option<(String, String)>,
    pub wit_obj_between_fdts: bool,
    pub wit_add_mid_transfer: bool,
    pub wit_auto_publish: bool,
}

pub fn monitor(log: &[Item], full_fdt: bool) -> Mon11 {
    let mut m = Mon11::default();
    // assemble FDT emissions incrementally
    let mut asm: BTreeMap<u32, FdtAsm> = BTreeMap::new();
    let mut open_transfers: BTreeSet<u128> = BTreeSet::new();
    let mut fdt_done_count = 0;
    let mut obj_after_first_fdt = false;
    for it in log.iter() {
        match it {
            Item::Api(Ev::Publish, r) => {
                if r == "true" {
                    m.must_fdt = true;
                    m.ids_at_publish = m.ids_seen.clone();
                }
            }
            Item::Api(Ev::Add(_), _) => {
                if !open_transfers.is_empty() {
                    m.wit_add_mid_transfer = true;
                }
            }
            Item::Start(t, _) => {
                open_transfers.insert(*t);
                if !full_fdt {
                    // ObjectsBeingTransferred: every transfer start publishes a new instance
                    m.must_fdt = true;
                    m.ids_at_publish = m.ids_seen.clone();
                    m.wit_auto_publish = true;
                }
            }
            Item::Stop(t, _) => {
                open_transfers.remove(t);
            }
            Item::Pkt(p) if p.toi == 0 => {
                let id = match p.fdt_id {
                    Some(i) => i,
                    None => {
                        m.violation.get_or_insert(("C11/fdt-packet-without-ext-fdt".into(), "TOI 0 packet without EXT_FDT".into()));
                        continue;
                    }
                };
                m.ids_seen.insert(id);
                let a = asm.entry(id).or_insert_with(|| {
                    let (l, e, b) = p.fti.unwrap_or((0, 0, 0));
                    FdtAsm { id, l, e, b, cenc: p.cenc.unwrap_or(0), ..Default::default() }
                });
                if !a.is_source(p.sbn, p.esi) {
                    continue; // repair symbol of an FEC-protected instance
                }
                if a.done_at_index.is_some() {
                    // carousel repetition of a complete instance: restart assembly
                    a.symbols.clear();
                    a.done_at_index = None;
                }
                a.symbols.insert((p.sbn, p.esi), p.payload.clone());
                if a.complete() {
                    a.done_at_index = Some(0);
                    m.in_progress.remove(&id);
                    m.done_ids.insert(id);
                    m.announced.extend(a.tois());
                    fdt_done_count += 1;
                    if obj_after_first_fdt {
                        m.wit_obj_between_fdts = true;
                    }
                    if m.must_fdt && !m.ids_at_publish.contains(&id) {
                        m.must_fdt = false;
                    }
                } else {
                    m.in_progress.insert(id, a.symbols.len() as u64);
                }
            }
            Item::Pkt(p) => {
                if fdt_done_count > 0 {
                    obj_after_first_fdt = true;
                }
                if m.violation.is_none() {
                    if !m.announced.contains(&p.toi) {
                        m.violation = Some((
                            "C11/object-packet-before-announcing-fdt".into(),
                            format!("packet of TOI {} (sbn {} esi {}) at t={}ms but no completely emitted FDT instance lists it (announced so far: {:?})", p.toi, p.sbn, p.esi, p.t_ms, m.announced),
                        ));
                    } else if let Some((id, n)) = m.in_progress.iter().next() {
                        m.violation = Some((
                            "C11/object-packet-inside-fdt-instance".into(),
                            format!("packet of TOI {} emitted while FDT instance {} is only partly sent ({} symbol(s))", p.toi, id, n),
                        ));
                    } else if m.must_fdt {
                        m.violation = Some((
                            "C11/object-packet-while-new-fdt-pending".into(),
                            format!("packet of TOI {} emitted after a publication whose FDT instance has not been sent yet (instances seen before the publication: {:?})", p.toi, m.ids_at_publish),
                        ));
                    }
                }
            }
            _ => {}
        }
    }
    m
}

pub struct Sys11 {
    pub cfg: Cfg,
    pub s: SendSys,
    pub mon: Mon11,
}

impl Sys for Sys11 {
    type Ev = Ev;
    fn enabled(&self) -> Vec<Ev> {
        let mut v = vec![Ev::Read1];
        // objects are added in catalogue order (symmetry reduction: the catalogue is an ordered list)
        if let Some(k) = (0..self.s.catalog.len()).find(|k| self.s.toi_of[*k].is_none() && (self.s.catalog[*k].prio as usize) < self.cfg.queues) {
            v.push(Ev::Add(k));
        }
        v.push(Ev::Publish);
        for k in 0..self.s.catalog.len() {
            if self.s.toi_of[k].is_some() && !self.s.removed[k] {
                v.push(Ev::Remove(k));
            }
        }
        v.push(Ev::Tick(1500));
        // set_complete (once): the instances published afterwards carry Complete="true"; objects added before it are
        // still announced before they are sent
        // (in the core configurations: plain catalogue, default FDT carousel, No-Code session)
        let core = self.cfg.catalog_kind == 0 && self.cfg.fdt_carousel == 0 && !self.cfg.sess_rs && !self.cfg.sess_real_raptor && !self.cfg.sess_raptor;
        if core && !self.s.log.iter().any(|i| matches!(i, Item::Api(Ev::SetComplete, _))) {
            v.push(Ev::SetComplete);
        }
        // read-only API calls between the others (not twice in a row: the second one cannot differ)
        if !matches!(self.s.log.last(), Some(Item::Api(Ev::Query, _))) {
            v.push(Ev::Query);
        }
        v
    }
    fn apply(&mut self, ev: &Ev) {
        self.s.apply(ev);
    }
    fn settle(&mut self) {
        self.mon = monitor(&self.s.log, self.cfg.full_fdt);
    }
    fn fingerprint(&self) -> u64 {
        h64(&(self.s.sender_fp(), self.s.now_ms, &self.mon, self.s.toi_of.clone(), self.s.removed.clone(), self.s.panicked.clone()))
    }
    fn verdicts(&self) -> Vec<(String, String)> {
        let mut v = Vec::new();
        if let Some(p) = &self.s.panicked {
            v.push((format!("C11/panic/{}", panic_sig(p)), format!("panic: {}", p)));
        }
        if let Some(mut x) = self.mon.violation.clone() {
            // known finding (DESIGN section 9): in ObjectsBeingTransferred mode the publication made at the start
            // of a transfer may fail (session OTI unable to carry the FDT) and the error is dropped: the object
            // goes out unannounced. Narrow signature, so that anything else under this configuration still alarms.
            if self.cfg.sess_raptor && !self.cfg.full_fdt && x.0 == "C11/object-packet-before-announcing-fdt" {
                x.0 = "C11/object-packet-before-announcing-fdt/obt-mode-automatic-publication-failed".into();
            }
            v.push(x);
        }
        v
    }
    fn witnesses(&self) -> Vec<&'static str> {
        let m = &self.mon;
        let mut w = Vec::new();
        if m.wit_obj_between_fdts {
            w.push("object_packet_between_two_fdt_instances");
        }
        if m.wit_add_mid_transfer {
            w.push("add_while_other_object_mid_transfer");
        }
        if m.wit_auto_publish {
            w.push("automatic_publication");
        }
        if !m.in_progress.is_empty() {
            w.push("state_inside_fdt_instance");
        }
        w
    }
}

pub fn make(cfg: &Cfg) -> Sys11 {
    Sys11 { cfg: cfg.clone(), s: SendSys::new(&sess(cfg), Arc::new(catalog_of(cfg.catalog_kind))), mon: Mon11::default() }
}

pub fn replay(v: &serde_json::Value) -> Vec<Violation> {
    let cfg: Cfg = serde_json::from_value(v["case"]["cfg"].clone()).expect("cfg");
    let hist: Vec<Ev> = serde_json::from_value(v["case"]["history"].clone()).expect("history");
    let mut s = make(&cfg);
    for e in &hist {
        s.apply(e);
    }
    s.settle();
    if std::env::var("VERIF_DEBUG").is_ok() {
        for it in &s.s.log {
            match it {
                Item::Pkt(p) => eprintln!("  pkt t={} toi={} sbn={} esi={} b={} fdt={:?} len={}", p.t_ms, p.toi, p.sbn, p.esi, p.b, p.fdt_id, p.payload.len()),
                other => eprintln!("  {:?}", other),
            }
        }
    }
    s.verdicts().into_iter().map(|(key, what)| Violation { key, what, case: v.clone() }).collect()
}

pub fn configs() -> Vec<Cfg> {
    let mut v = Vec::new();
    for full_fdt in [true, false] {
        for multiplex in [1u32, 2] {
            for queues in [1usize, 2] {
                for fdt_e in [512u16, 1424] {
                    if fdt_e == 1424 && (multiplex == 2 || queues == 1) {
                        continue;
                    }
                    v.push(Cfg { full_fdt, multiplex, queues, fdt_e, catalog_kind: 0, sess_raptor: false, sess_rs: false, fdt_carousel: 0, sess_real_raptor: false });
                    if fdt_e == 512 {
                        v.push(Cfg { full_fdt, multiplex, queues, fdt_e, catalog_kind: 1, sess_raptor: false, sess_rs: false, fdt_carousel: 0, sess_real_raptor: false });
                        v.push(Cfg { full_fdt, multiplex, queues, fdt_e, catalog_kind: 2, sess_raptor: false, sess_rs: false, fdt_carousel: 0, sess_real_raptor: false });
                        if queues == 2 {
                            v.push(Cfg { full_fdt, multiplex, queues, fdt_e, catalog_kind: 3, sess_raptor: false, sess_rs: false, fdt_carousel: 0, sess_real_raptor: false });
                        }
                    }
                }
            }
        }
    }
    // FDT instances protected by repair packets
    for full_fdt in [true, false] {
        v.push(Cfg { full_fdt, multiplex: 2, queues: 1, fdt_e: 512, catalog_kind: 0, sess_raptor: false, sess_rs: true, fdt_carousel: 0, sess_real_raptor: false });
        v.push(Cfg { full_fdt, multiplex: 1, queues: 2, fdt_e: 512, catalog_kind: 1, sess_raptor: false, sess_rs: true, fdt_carousel: 0, sess_real_raptor: false });
    }
    // the FDT's own carousel mode
    for full_fdt in [true, false] {
        for fdt_carousel in 1..=3u8 {
            v.push(Cfg { full_fdt, multiplex: 1, queues: 1, fdt_e: 512, catalog_kind: 0, sess_raptor: false, sess_rs: false, fdt_carousel, sess_real_raptor: false });
        }
        v.push(Cfg { full_fdt, multiplex: 2, queues: 2, fdt_e: 1424, catalog_kind: 1, sess_raptor: false, sess_rs: false, fdt_carousel: 1, sess_real_raptor: false });
    }
    // objects with a target acquisition (pacing)
    for full_fdt in [true, false] {
        for catalog_kind in [4u8, 5, 6] {
            v.push(Cfg { full_fdt, multiplex: 1, queues: 2, fdt_e: 1424, catalog_kind, sess_raptor: false, sess_rs: false, fdt_carousel: 0, sess_real_raptor: false });
        }
    }
    // Raptor-coded FDT instances
    for full_fdt in [true, false] {
        v.push(Cfg { full_fdt, multiplex: 1, queues: 2, fdt_e: 512, catalog_kind: 0, sess_raptor: false, sess_rs: false, fdt_carousel: 0, sess_real_raptor: true });
    }
    // publications that fail (see `sess_raptor`)
    for full_fdt in [true, false] {
        v.push(Cfg { full_fdt, multiplex: 1, queues: 1, fdt_e: 512, catalog_kind: 0, sess_raptor: true, sess_rs: false, fdt_carousel: 0, sess_real_raptor: false });
        v.push(Cfg { full_fdt, multiplex: 2, queues: 2, fdt_e: 512, catalog_kind: 0, sess_raptor: true, sess_rs: false, fdt_carousel: 0, sess_real_raptor: false });
    }
    v
}

pub fn run(thorough: bool) -> i32 {
    let mut rep = Report::new("C11", "model_checking", if thorough { "thorough" } else { "quick" });
    let depth = if thorough { 11 } else { 8 };
    let cap = if thorough { 600_000 } else { 60_000 };
    let mut states = 0u64;
    let mut trans = 0u64;
    let mut per_cfg = Vec::new();
    let mut wit: BTreeMap<String, u64> = BTreeMap::new();
    for cfg in configs() {
        // thorough: the dimensions added later (FDT carousel, target acquisition, FEC-coded FDT sessions) are searched
        // two levels less deep than the core configurations (the whole tier stays within minutes)
        let later = cfg.fdt_carousel != 0 || cfg.sess_real_raptor || cfg.sess_rs || cfg.catalog_kind >= 4;
        let depth = if thorough && later { depth - 2 } else { depth };
        let (st, found) = bfs(|| make(&cfg), depth, cap);
        // determinism of the merge: two further runs at a smaller depth must give the same counts
        if per_cfg.is_empty() {
            if let Some(e) = fp_self_check(&cfg, 4) {
                rep.machinery(e);
            }
            let (st2, _) = bfs(|| make(&cfg), 5, cap);
            let (st3, _) = bfs(|| make(&cfg), 5, cap);
            if st2.states != st3.states || st2.transitions != st3.transitions {
                rep.machinery(format!("BFS not reproducible for {:?}: {} vs {} states", cfg, st2.states, st3.states));
            }
        }
        states += st.states;
        trans += st.transitions;
        for (k, n) in &st.witnesses {
            *wit.entry(k.clone()).or_insert(0) += n;
        }
        per_cfg.push(json!({"cfg": cfg, "states": st.states, "transitions": st.transitions, "depth_completed": st.depth_completed, "capped": st.capped, "per_depth": st.per_depth}));
        for f in found {
            rep.add(Violation { key: f.sig, what: f.what, case: json!({"check": "bfs", "case": {"cfg": cfg, "history": f.history}}) });
        }
    }
    rep.cov("states", states);
    rep.cov("transitions", trans);
    rep.cov("traces_validated_against_impl", trans);
    rep.cov("evaluations", trans);
    rep.cov("distinct_nontrivial", states);
    rep.cov("explanation", "explicit-state BFS whose transition function is the real Sender (history replayed into a fresh Sender per transition); states merged on the canonicalised {:#?} of the whole Sender + monitor state + virtual time; every transition is an implementation step, so every explored path is an implementation trace");
    rep.cov("depth_bound", depth as u64);
    rep.cov("depth_bound_later_dimensions", if thorough { depth as u64 - 2 } else { depth as u64 });
    rep.cov("per_config", json!(per_cfg));
    rep.cov("exhaustive", per_cfg.iter().all(|c| c["capped"] == false));
    for w in ["object_packet_between_two_fdt_instances", "add_while_other_object_mid_transfer", "automatic_publication", "state_inside_fdt_instance"] {
        rep.guard(w, *wit.get(w).unwrap_or(&0));
    }
    rep.sample(json!({"cfg": configs()[0], "history": [Ev::Add(0), Ev::Publish, Ev::Read1, Ev::Add(1), Ev::Read1]}));
    rep.assume("alphabet: add (catalogue order), publish, remove, one read, tick 1.5 s; 3 objects of 1-3 packets over 1-2 queues; FDT instance of 3-4 packets (E=512) or 1 packet");
    rep.finish()
}

/// the fast fingerprint and the general canonicaliser must induce the same partition of states
pub fn fp_self_check(cfg: &Cfg, depth: usize) -> Option<String> {
    let mut hists: Vec<Vec<Ev>> = vec![vec![]];
    let mut fast_to_slow: BTreeMap<u64, u64> = BTreeMap::new();
    let mut slow_to_fast: BTreeMap<u64, u64> = BTreeMap::new();
    let mut n = 0;
    for _ in 0..=depth {
        let mut next = Vec::new();
        for h in &hists {
            let mut s = make(cfg);
            for e in h {
                s.apply(e);
            }
            s.settle();
            let (f, sl) = (s.s.sender_fp(), s.s.sender_fp_slow());
            n += 1;
            if *fast_to_slow.entry(f).or_insert(sl) != sl {
                return Some(format!("fast fingerprint merges states the general canonicaliser separates (history {:?})", h));
            }
            if *slow_to_fast.entry(sl).or_insert(f) != f {
                return Some(format!("fast fingerprint separates states the general canonicaliser merges: nondeterministic Debug order? (history {:?})", h));
            }
            for e in s.enabled() {
                let mut h2 = h.clone();
                h2.push(e);
                next.push(h2);
            }
        }
        hists = next;
    }
    if n < 50 {
        return Some("fingerprint self-check visited too few states".into());
    }
    None
}
