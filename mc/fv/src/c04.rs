//! C04 — no packet sequence can panic, hang, overflow or blow up the receiver; a rejected packet
//! leaves it usable. Engine: exhaustive finite grids (E4) + histories of depth <= 3 (E1):
//!  1. every byte string of length 0..=3;
//!  2. every packet x every header byte x substitutions of a corpus of valid sessions, in context;
//!  3. field-aware grids built with the independent codec (EXT_FTI / payload id / payload length /
//!     HDR_LEN / HEL / flags / version), as 1-, 2- and 3-packet histories;
//!  4. crafted FDT instances (attribute grids, malformed and truncated XML).
use crate::alloc;
use crate::chan::*;
use crate::fdtxml::*;
use crate::monitor::*;
use crate::report::*;
use crate::rfc;
use crate::sess::*;
use crate::util::*;
use flute::receiver::MultiReceiver;
use serde::{Deserialize, Serialize};
use serde_json::json;
use std::collections::BTreeMap;
use std::sync::Arc;
use std::time::{Duration, SystemTime};

const HEAP_LIMIT: isize = 64 << 20;
const CACHE_SIZE: usize = 64 << 10;

thread_local! {
    /// receiver configuration variant of the histories run by this thread: 0 = the base configuration, 1 = FDT
    /// expiry check off, receive-once off, no error memory, no object time-out (recorded in the replay case)
    static RXV: std::cell::Cell<u8> = const { std::cell::Cell::new(0) };
}
fn set_rxv(v: u8) {
    RXV.with(|c| c.set(v));
}
fn rxv() -> u8 {
    RXV.with(|c| c.get())
}

fn rx_config() -> flute::receiver::Config {
    if rxv() == 1 {
        return flute::receiver::Config {
            max_objects_error: 0,
            session_timeout: Some(Duration::from_secs(5)),
            object_timeout: None,
            object_max_cache_size: Some(CACHE_SIZE),
            object_receive_once: false,
            enable_fdt_expiration_check: false,
        };
    }
    flute::receiver::Config {
        max_objects_error: 2,
        session_timeout: None,
        object_timeout: Some(Duration::from_secs(10)),
        object_max_cache_size: Some(CACHE_SIZE),
        object_receive_once: true,
        enable_fdt_expiration_check: true,
    }
}

/// a valid follow-up session (fresh TOIs, later FDT id, same TSI) used to test "still usable"
pub struct FollowUp {
    pub pkts: Vec<Vec<u8>>,
    pub content: Vec<u8>,
    pub toi: u128,
}

pub fn follow_up() -> FollowUp {
    let mut o = ObjSpec::simple(21, 9);
    o.oti = Some(OtiSpec::new(Scheme::NoCode, 8, 2, 0, true));
    let mut s = SessSpec::basic(OtiSpec::new(Scheme::NoCode, 1424, 64, 0, true));
    s.fdt_start_id = 500;
    s.toi_init = Some(format!("{}", 0x7777));
    let spec = RecSpec { sess: s, objs: vec![o.clone()], polls_ms: vec![60_000] };
    let rec = record(&spec).expect("follow-up session");
    FollowUp { pkts: rec.pkts.iter().map(|p| p.1.clone()).collect(), content: o.content(), toi: rec.objs[0].0 }
}

#[derive(Default, Clone, Debug)]
pub struct G {
    pub pushes: u64,
    pub ok: u64,
    pub err: u64,
    pub histories: u64,
    pub reached_blocks: u64,
    pub reached_writer: u64,
    pub fdt_parsed: u64,
    pub usable_checked: u64,
    pub max_peak: isize,
}
impl G {
    pub fn merge(&mut self, o: &G) {
        self.pushes += o.pushes;
        self.ok += o.ok;
        self.err += o.err;
        self.histories += o.histories;
        self.reached_blocks += o.reached_blocks;
        self.reached_writer += o.reached_writer;
        self.fdt_parsed += o.fdt_parsed;
        self.usable_checked += o.usable_checked;
        self.max_peak = self.max_peak.max(o.max_peak);
    }
}

/// Push a history of raw datagrams into a fresh receiver under the oracle of C04.
/// `check_usable`: push the follow-up session afterwards and require its delivery.
pub fn run_history(hist: &[&[u8]], fu: Option<&FollowUp>, g: &mut G) -> Option<(String, String)> {
    g.histories += 1;
    let mon = Mon::new(true);
    alloc::start();
    let base = alloc::live();
    let mut rx = MultiReceiver::new(mon.builder(), Some(rx_config()), false);
    let ep = endpoint();
    let mut any_err = false;
    let t = at_ms(60_000);
    for (i, p) in hist.iter().enumerate() {
        g.pushes += 1;
        match catch(|| rx.push(&ep, p, t + Duration::from_millis(i as u64))) {
            Ok(Ok(())) => g.ok += 1,
            Ok(Err(_)) => {
                g.err += 1;
                any_err = true;
            }
            Err(pm) => {
                alloc::stop();
                std::mem::forget(rx);
                return Some((format!("C04/panic/{}", panic_sig(&pm)), format!("push #{} panicked: {}", i, pm)));
            }
        }
        let peak = alloc::peak() - base;
        if peak > HEAP_LIMIT {
            alloc::stop();
            std::mem::forget(rx);
            return Some((
                "C04/memory-blow-up".into(),
                format!("receiver heap peaked at {} MB after push #{} (object_max_cache_size = 64 kB, limit 64 MB; largest single request {} bytes)", peak >> 20, i, alloc::biggest()),
            ));
        }
    }
    if let Err(pm) = catch(|| rx.cleanup(t + Duration::from_millis(100))) {
        alloc::stop();
        std::mem::forget(rx);
        return Some((format!("C04/panic/{}", panic_sig(&pm)), format!("cleanup panicked: {}", pm)));
    }
    g.max_peak = g.max_peak.max(alloc::peak() - base);
    alloc::stop();
    if mon.0.writers.borrow().iter().any(|w| !w.calls.is_empty()) {
        g.reached_writer += 1;
    }
    if !mon.0.fdts.borrow().is_empty() {
        g.fdt_parsed += 1;
    }
    // usability after a rejected packet
    if let (Some(fu), true) = (fu, any_err) {
        g.usable_checked += 1;
        for p in &fu.pkts {
            match catch(|| rx.push(&ep, p, t + Duration::from_secs(1))) {
                Ok(_) => {}
                Err(pm) => {
                    std::mem::forget(rx);
                    return Some((format!("C04/panic/{}", panic_sig(&pm)), format!("push of the follow-up session panicked: {}", pm)));
                }
            }
        }
        let ok = mon.0.writers.borrow().iter().any(|w| w.toi == fu.toi && w.is_complete() && w.data() == fu.content);
        if !ok {
            if let Err(pm) = catch(move || drop(rx)) {
                return Some((format!("C04/panic/{}", panic_sig(&pm)), format!("drop panicked: {}", pm)));
            }
            return Some(("C04/unusable-after-rejected-packet".into(), "a valid session (fresh TOI, later FDT id, same TSI) pushed after a rejected packet was not delivered".into()));
        }
    }
    if let Err(pm) = catch(move || drop(rx)) {
        return Some((format!("C04/panic/{}", panic_sig(&pm)), format!("drop panicked: {}", pm)));
    }
    None
}


/// "A rejected packet leaves the receiver usable" in its sharpest form: ONE mutated packet, rejected with Err,
/// then a cleanup, then the clean session the packet was taken from (same FDT instance id, same TOIs). What the
/// clean session delivers to a fresh receiver (differential reference, no hand-written expectation) must be
/// delivered here too. Nothing is claimed when the mutated packet is accepted.
pub fn run_lone_then_clean(hist: &[&[u8]], g: &mut G) -> Option<(String, String)> {
    g.histories += 1;
    let (m, clean) = (hist[0], &hist[1..]);
    let ep = endpoint();
    let t = at_ms(60_000);
    let completes = |mon: &Mon| -> Vec<(u128, Vec<u8>)> {
        let mut v: Vec<(u128, Vec<u8>)> = mon.writers().iter().filter(|w| w.is_complete()).map(|w| (w.toi, w.data())).collect();
        v.sort();
        v.dedup();
        v
    };
    let r = catch(|| -> Option<(String, String)> {
        let mon = Mon::new(true);
        let mut rx = MultiReceiver::new(mon.builder(), Some(rx_config()), false);
        g.pushes += 1;
        if rx.push(&ep, m, t).is_ok() {
            return None;
        }
        g.err += 1;
        rx.cleanup(t + Duration::from_millis(100));
        for (i, p) in clean.iter().enumerate() {
            let _ = rx.push(&ep, p, t + Duration::from_millis(1000 + i as u64));
        }
        let got = completes(&mon);
        let mon2 = Mon::new(true);
        let mut rx2 = MultiReceiver::new(mon2.builder(), Some(rx_config()), false);
        for (i, p) in clean.iter().enumerate() {
            let _ = rx2.push(&ep, p, t + Duration::from_millis(1000 + i as u64));
        }
        let want = completes(&mon2);
        g.usable_checked += 1;
        if let Some(miss) = want.iter().find(|w| !got.contains(w)) {
            return Some((
                "C04/unusable-after-rejected-packet/same-session".into(),
                format!("one packet ({} bytes, header-mutated copy of a packet of the session) was rejected with Err; after a cleanup the clean session itself (same FDT instance id) was pushed and object TOI {} ({} bytes), which a fresh receiver completes, was not delivered", m.len(), miss.0, miss.1.len()),
            ));
        }
        None
    });
    match r {
        Ok(v) => v,
        Err(pm) => Some((format!("C04/panic/{}", panic_sig(&pm)), format!("lone-packet history panicked: {}", pm))),
    }
}

/// Same oracle (no panic in push / cleanup / drop) with flute's OWN writers behind the receiver:
/// `kind` 0 = ObjectWriterBufferBuilder, 1 = ObjectWriterFSBuilder on a scratch directory.
pub fn run_history_real_writer(hist: &[&[u8]], kind: u8, g: &mut G) -> Option<(String, String)> {
    g.histories += 1;
    let dir = if kind == 1 { Some(crate::c01::fresh_tmp("c04w")) } else { None };
    let r = (|| {
        let builder: std::rc::Rc<dyn flute::receiver::writer::ObjectWriterBuilder> = match &dir {
            Some(d) => match flute::receiver::writer::ObjectWriterFSBuilder::new(d, true) {
                Ok(b) => std::rc::Rc::new(b),
                Err(e) => return Some(("C04/harness".to_string(), format!("{:?}", e))),
            },
            None => std::rc::Rc::new(flute::receiver::writer::ObjectWriterBufferBuilder::new(true)),
        };
        let mut rx = MultiReceiver::new(builder, Some(rx_config()), false);
        let ep = endpoint();
        let t = at_ms(60_000);
        let w = if kind == 1 { "filesystem writer" } else { "buffer writer" };
        for (i, p) in hist.iter().enumerate() {
            g.pushes += 1;
            match catch(|| rx.push(&ep, p, t + Duration::from_millis(i as u64))) {
                Ok(Ok(())) => g.ok += 1,
                Ok(Err(_)) => g.err += 1,
                Err(pm) => {
                    std::mem::forget(rx);
                    return Some((format!("C04/panic/{}", panic_sig(&pm)), format!("push #{} panicked ({}): {}", i, w, pm)));
                }
            }
        }
        if let Err(pm) = catch(|| {
            flute::verif::clock_advance(Duration::from_secs(11));
            rx.cleanup(t + Duration::from_secs(11))
        }) {
            std::mem::forget(rx);
            return Some((format!("C04/panic/{}", panic_sig(&pm)), format!("cleanup panicked ({}): {}", w, pm)));
        }
        if let Err(pm) = catch(move || drop(rx)) {
            return Some((format!("C04/panic/{}", panic_sig(&pm)), format!("drop panicked ({}): {}", w, pm)));
        }
        None
    })();
    if let Some(d) = dir {
        std::fs::remove_dir_all(d).ok();
    }
    r
}

// ------------------------------------------------------------------------------------------------
// replayable case

#[derive(Serialize, Deserialize, Clone, Debug)]
pub struct Case {
    /// datagrams as hex strings
    pub hist: Vec<String>,
    #[serde(default)]
    pub kind: u8,
}

fn case_of(hist: &[&[u8]]) -> serde_json::Value {
    json!({"check": "history", "case": {"hist": hist.iter().map(|p| hex(p)).collect::<Vec<_>>(), "rxv": rxv()}})
}

pub fn replay(v: &serde_json::Value) -> Vec<Violation> {
    let c: Case = serde_json::from_value(v["case"].clone()).expect("case");
    let pk: Vec<Vec<u8>> = c.hist.iter().map(|h| unhex(h)).collect();
    let refs: Vec<&[u8]> = pk.iter().map(|p| &p[..]).collect();
    let mut g = G::default();
    if v["check"] == "lone" {
        set_rxv(v["case"]["rxv"].as_u64().unwrap_or(0) as u8);
        return run_lone_then_clean(&refs, &mut g).into_iter().map(|(key, what)| Violation { key, what, case: v.clone() }).collect();
    }
    if v["check"] == "real-writer" {
        return run_history_real_writer(&refs, v["case"]["kind"].as_u64().unwrap_or(0) as u8, &mut g).into_iter().map(|(key, what)| Violation { key, what, case: v.clone() }).collect();
    }
    let fu = follow_up();
    set_rxv(v["case"]["rxv"].as_u64().unwrap_or(0) as u8);
    run_history(&refs, Some(&fu), &mut g).into_iter().map(|(key, what)| Violation { key, what, case: v.clone() }).collect()
}

type Found = BTreeMap<String, (String, serde_json::Value, u64)>;
fn note(found: &mut Found, r: Option<(String, String)>, hist: &[&[u8]]) {
    if let Some((k, w)) = r {
        found.entry(k).and_modify(|e| e.2 += 1).or_insert_with(|| (w, case_of(hist), 1));
    }
}

// ------------------------------------------------------------------------------------------------
// part 2: corpus of valid sessions

pub fn corpus() -> Vec<(String, Vec<Vec<u8>>)> {
    let mut v = Vec::new();
    for scheme in ALL_SCHEMES {
        for inband in [true, false] {
            for cenc in [0u8, 3] {
                let (e, b, parity, len) = match scheme {
                    Scheme::NoCode => (8u16, 2u16, 0u16, 21usize),
                    Scheme::Raptor => (4, 4, 1, 15),
                    _ => (8, 2, 1, 21),
                };
                let mut o = ObjSpec::simple(len, 2);
                o.oti = Some(OtiSpec::new(scheme, e, b, parity, inband));
                o.cenc = cenc;
                o.text = cenc != 0;
                o.inband_cenc = inband;
                let s = SessSpec::basic(OtiSpec::new(Scheme::NoCode, 1424, 64, 0, true));
                let spec = RecSpec { sess: s, objs: vec![o], polls_ms: vec![60_000] };
                if let Ok(rec) = record(&spec) {
                    v.push((format!("{:?}/{}/cenc{}", scheme, if inband { "inband" } else { "fdt-only" }, cenc), rec.pkts.iter().map(|p| p.1.clone()).collect()));
                }
            }
        }
    }
    // empty object + close session
    {
        let mut o = ObjSpec::simple(0, 2);
        o.oti = Some(OtiSpec::new(Scheme::NoCode, 8, 2, 0, true));
        let s = SessSpec::basic(OtiSpec::new(Scheme::NoCode, 1424, 64, 0, true));
        let spec = RecSpec { sess: s.clone(), objs: vec![o], polls_ms: vec![60_000] };
        if let Ok(rec) = record(&spec) {
            let mut p: Vec<Vec<u8>> = rec.pkts.iter().map(|p| p.1.clone()).collect();
            let mut snd = s.sender().unwrap();
            p.push(snd.read_close_session(at_ms(60_000)));
            v.push(("empty+close-session".into(), p));
        }
    }
    v
}

fn substitutions(orig: u8, thorough: bool) -> Vec<u8> {
    if thorough {
        (0..=255u8).filter(|x| *x != orig).collect()
    } else {
        let mut v = vec![0u8, 1, 0x7F, 0x80, 0xFF, orig.wrapping_add(1), orig.wrapping_sub(1), orig ^ 0x40, orig ^ 0x04];
        v.sort();
        v.dedup();
        v.retain(|x| *x != orig);
        v
    }
}

// ------------------------------------------------------------------------------------------------
// part 3: field-aware grids

fn fti_grid(cp: u8, thorough: bool) -> Vec<Vec<u8>> {
    let ls: Vec<u64> = if thorough { vec![0, 1, 16, 65536, 1 << 32, (1 << 40) - 1, (1 << 48) - 1] } else { vec![0, 16, 1 << 32, (1 << 48) - 1] };
    let es: Vec<u16> = vec![0, 1, 3, 4, 65535];
    let mut v = Vec::new();
    for l in &ls {
        for e in &es {
            match cp {
                rfc::FEC_NOCODE => {
                    for b in [0u32, 1, 2, 255, 256, 65535, u32::MAX] {
                        v.push(rfc::fti_nocode(*l, *e, b));
                    }
                }
                rfc::FEC_RS28 => {
                    for b in [0u8, 1, 2, 255] {
                        for n in [0u8, 1, 2, 3, 255] {
                            v.push(rfc::fti_rs28(*l, *e, b, n));
                        }
                    }
                }
                rfc::FEC_SBS => {
                    for b in [0u16, 1, 2, 255, 256, 65535] {
                        for n in [0u16, 1, 3, 256, 65535] {
                            v.push(rfc::fti_sbs(*l, 0, *e, b, n));
                        }
                    }
                }
                rfc::FEC_RS2M => {
                    for m in [0u8, 1, 8, 16, 31, 32, 255] {
                        for b in [0u16, 2, 65535] {
                            for n in [0u16, 3, 65535] {
                                v.push(rfc::fti_rs2m(*l, m, 1, *e, b, n));
                            }
                        }
                    }
                }
                rfc::FEC_RAPTORQ => {
                    for z in [0u8, 1, 2, 255] {
                        for n in [0u16, 1, 65535] {
                            for al in [0u8, 1, 3, 4, 255] {
                                v.push(rfc::fti_raptorq(*l & ((1 << 40) - 1), *e, z, n, al));
                            }
                        }
                    }
                }
                _ => {
                    for z in [0u16, 1, 2, 255, 65535] {
                        for n in [0u8, 1, 255] {
                            for al in [0u8, 1, 4, 255] {
                                v.push(rfc::fti_raptor_flute(*l & ((1 << 40) - 1), *e, z, n, al));
                            }
                        }
                    }
                }
            }
        }
    }
    v
}

fn pid_grid(cp: u8) -> Vec<Vec<u8>> {
    let (sb, eb): (u32, u32) = match cp {
        rfc::FEC_NOCODE | rfc::FEC_RAPTOR => (16, 16),
        rfc::FEC_RS28 | rfc::FEC_RS2M => (24, 8),
        rfc::FEC_RAPTORQ => (8, 24),
        _ => (32, 16),
    };
    let maxv = |bits: u32| if bits == 32 { u32::MAX } else { (1u32 << bits) - 1 };
    let mut sbns = vec![0u32, 1, 2, 3, 4096, 4097, 8193, maxv(sb)];
    sbns.retain(|s| *s <= maxv(sb));
    sbns.dedup();
    let mut esis = vec![0u32, 1, 2, 3, 255, 256, 65535, maxv(eb)];
    esis.retain(|s| *s <= maxv(eb));
    esis.sort();
    esis.dedup();
    let mut v = Vec::new();
    for s in &sbns {
        for e in &esis {
            if cp == rfc::FEC_SBS {
                for sbl in [0u32, 1, 2, 65535] {
                    v.push(rfc::pid(cp, *s, *e, sbl, 8));
                }
            } else {
                v.push(rfc::pid(cp, *s, *e, 0, 8));
            }
        }
    }
    v
}

fn e_of_fti(cp: u8, fti: &[u8]) -> usize {
    rfc::decode_fti(cp, fti, false).map(|f| f.e as usize).unwrap_or(0)
}

/// FDT instance listing `toi` with in-band OTI expected (no OTI attributes), valid for an hour
fn simple_fdt(toi: u128, tl: u64, id: u32) -> Vec<u8> {
    let exp = unix_to_ntp_secs(EPOCH_2027 + 7200).to_string();
    let x = FdtX::new(&exp).file(FileX::new(&toi.to_string(), "file:///x").attr("Content-Length", &tl.min(1 << 20).to_string()).attr("Transfer-Length", &tl.to_string()));
    fdt_packets(TSI, id, x.xml().as_bytes(), 4096, None, None).remove(0)
}

const CPS: [u8; 6] = [rfc::FEC_NOCODE, rfc::FEC_RAPTOR, rfc::FEC_RS2M, rfc::FEC_RS28, rfc::FEC_RAPTORQ, rfc::FEC_SBS];

pub fn run(thorough: bool) -> i32 {
    let mut rep = Report::new("C04", "exploration", if thorough { "thorough" } else { "quick" });
    let fu = Arc::new(follow_up());
    let mut g = G::default();
    let mut found: Found = BTreeMap::new();

    // ---- part 1: every byte string of length 0..=3, one work item per first byte --------------
    {
        let items: Vec<u32> = (0..=256).collect(); // 256 = the strings shorter than 3 bytes
        let fu2 = fu.clone();
        let res = par_map_wd(
            Arc::new(items),
            Duration::from_secs(60),
            move |_, first| {
                let mut g = G::default();
                let mut found: Found = BTreeMap::new();
                let mon = Mon::new(true);
                let mut rx = MultiReceiver::new(mon.builder(), Some(rx_config()), false);
                let ep = endpoint();
                let t = at_ms(60_000);
                let mut strings: Vec<Vec<u8>> = Vec::new();
                if *first == 256 {
                    strings.push(vec![]);
                    for a in 0..=255u8 {
                        strings.push(vec![a]);
                        for b in 0..=255u8 {
                            strings.push(vec![a, b]);
                        }
                    }
                } else {
                    for b in 0..=255u8 {
                        for c in 0..=255u8 {
                            strings.push(vec![*first as u8, b, c]);
                        }
                    }
                }
                let mut dead = false;
                for s in &strings {
                    g.pushes += 1;
                    g.histories += 1;
                    match catch(|| rx.push(&ep, s, t)) {
                        Ok(Ok(())) => g.ok += 1,
                        Ok(Err(_)) => g.err += 1,
                        Err(pm) => {
                            note(&mut found, Some((format!("C04/panic/{}", panic_sig(&pm)), format!("push of a {}-byte datagram panicked: {}", s.len(), pm))), &[&s[..]]);
                            // the receiver may be poisoned by the unwind: start a new one
                            dead = true;
                        }
                    }
                    if dead {
                        let old = std::mem::replace(&mut rx, MultiReceiver::new(mon.builder(), Some(rx_config()), false));
                        std::mem::forget(old);
                        dead = false;
                    }
                }
                // the receiver that swallowed 65k rejected datagrams must still work
                for p in &fu2.pkts {
                    let _ = catch(|| rx.push(&ep, p, t));
                }
                g.usable_checked += 1;
                if !mon.0.writers.borrow().iter().any(|w| w.toi == fu2.toi && w.is_complete() && w.data() == fu2.content) {
                    note(&mut found, Some(("C04/unusable-after-rejected-packet".into(), format!("after all short datagrams starting with byte {} a valid session is not delivered", first))), &[]);
                }
                std::mem::forget(rx);
                (g, found)
            },
            |_, first| {
                let mut f: Found = BTreeMap::new();
                f.insert("C04/hang/short-datagram".into(), (format!("short datagrams starting with {} did not finish in 60 s", first), json!({"check": "history", "case": {"hist": []}}), 1));
                (G::default(), f)
            },
        );
        for (gg, ff) in res {
            g.merge(&gg);
            for (k, v) in ff {
                found.entry(k).and_modify(|e| e.2 += v.2).or_insert(v);
            }
        }
        rep.cov("part1_byte_strings_len_0_to_3", g.pushes);
    }

    // ---- part 2: single-byte substitutions of valid sessions, in context ----------------------
    let corp = corpus();
    {
        let mut items: Vec<(usize, usize)> = Vec::new(); // (session, packet)
        for (si, (_, pk)) in corp.iter().enumerate() {
            for pi in 0..pk.len() {
                items.push((si, pi));
            }
        }
        let corp2 = Arc::new(corp.clone());
        let corp3 = corp2.clone();
        let fu2 = fu.clone();
        let res = par_map_wd(
            Arc::new(items),
            Duration::from_secs(120),
            move |_, (si, pi)| {
                let (_, pk) = &corp2[*si];
                let mut g = G::default();
                let mut found: Found = BTreeMap::new();
                let info = info_of(&pk[*pi]);
                let hdr = info.as_ref().map(|i| i.hdr_len).unwrap_or(pk[*pi].len()).min(pk[*pi].len());
                for pos in 0..hdr {
                    for sub in substitutions(pk[*pi][pos], thorough) {
                        let mut m = pk[*pi].clone();
                        m[pos] = sub;
                        let hist: Vec<&[u8]> = pk.iter().enumerate().map(|(j, p)| if j == *pi { &m[..] } else { &p[..] }).collect();
                        let r = run_history(&hist, Some(&fu2), &mut g);
                        note(&mut found, r, &hist);
                        // the mutated packet alone, then the clean session (FDT packets and the first object packet)
                        if *pi <= 1 || info.as_ref().map(|i| i.toi == 0).unwrap_or(false) {
                            let mut lone: Vec<&[u8]> = vec![&m[..]];
                            lone.extend(pk.iter().map(|p| &p[..]));
                            if let Some((k, w)) = run_lone_then_clean(&lone, &mut g) {
                                let mut c = case_of(&lone);
                                c["check"] = json!("lone");
                                found.entry(k).and_modify(|e| e.2 += 1).or_insert_with(|| (w, c, 1));
                            }
                        }
                    }
                }
                // truncation of this packet at every length, in context
                for cut in 0..pk[*pi].len() {
                    let m = pk[*pi][..cut].to_vec();
                    let hist: Vec<&[u8]> = pk.iter().enumerate().map(|(j, p)| if j == *pi { &m[..] } else { &p[..] }).collect();
                    let r = run_history(&hist, Some(&fu2), &mut g);
                    note(&mut found, r, &hist);
                }
                (g, found)
            },
            move |_, (si, pi)| {
                let mut f: Found = BTreeMap::new();
                f.insert(format!("C04/hang/substitution/{}", corp3[*si].0), (format!("substitution sweep of packet {} of session {} did not finish in 120 s", pi, corp3[*si].0), json!({"check": "history", "case": {"hist": corp3[*si].1.iter().map(|p| hex(p)).collect::<Vec<_>>()}}), 1));
                (G::default(), f)
            },
        );
        let before = g.histories;
        for (gg, ff) in res {
            g.merge(&gg);
            for (k, v) in ff {
                found.entry(k).and_modify(|e| e.2 += v.2).or_insert(v);
            }
        }
        rep.cov("part2_substitution_histories", g.histories - before);
        rep.cov("part2_corpus_sessions", corp.len() as u64);
    }

    // ---- part 3: field-aware grids ------------------------------------------------------------
    {
        // (a) FTI x payload id x payload length, header valid; one work item per (cp, fti)
        let mut items: Vec<(u8, Vec<u8>)> = Vec::new();
        for cp in CPS {
            for f in fti_grid(cp, thorough) {
                items.push((cp, f));
            }
        }
        let fu2 = fu.clone();
        let res = par_map_wd(
            Arc::new(items),
            Duration::from_secs(120),
            move |_, (cp, fti)| {
                let mut g = G::default();
                let mut found: Found = BTreeMap::new();
                let e = e_of_fti(*cp, fti);
                let mut lens = vec![0usize, 1, e.saturating_sub(1), e, e + 1];
                lens.retain(|l| *l <= 2000);
                lens.push(if e > 2000 { 1500 } else { 7 });
                lens.sort();
                lens.dedup();
                let tl = rfc::decode_fti(*cp, fti, false).map(|f| f.l).unwrap_or(0);
                let fdt = simple_fdt(5, tl, 3);
                for pid in pid_grid(*cp) {
                    for plen in &lens {
                        let mut sp = rfc::Spec::minimal(*cp, TSI, 5);
                        sp.exts = vec![fti.clone()];
                        sp.payload_id = pid.clone();
                        sp.payload = vec![0xAB; *plen];
                        let pkt = rfc::encode(&sp);
                        alloc::set_context(Some(format!("C04|{}", case_of(&[&fdt[..], &pkt[..], &pkt[..]]))));
                        for hist in [vec![&pkt[..]], vec![&pkt[..], &pkt[..]], vec![&fdt[..], &pkt[..]], vec![&pkt[..], &fdt[..], &pkt[..]]] {
                            let r = run_history(&hist, Some(&fu2), &mut g);
                            note(&mut found, r, &hist);
                        }
                    }
                }
                alloc::set_context(None);
                (g, found)
            },
            |_, (cp, fti)| {
                let mut f: Found = BTreeMap::new();
                f.insert(format!("C04/hang/fti-grid/cp{}", cp), (format!("FTI {} did not finish in 120 s", hex(fti)), json!({"check": "history", "case": {"hist": []}}), 1));
                (G::default(), f)
            },
        );
        let before = g.histories;
        for (gg, ff) in res {
            g.merge(&gg);
            for (k, v) in ff {
                found.entry(k).and_modify(|e| e.2 += v.2).or_insert(v);
            }
        }
        rep.cov("part3a_fti_payloadid_histories", g.histories - before);

        // (b) header fields x FTI corners
        let mut cases: Vec<Vec<u8>> = Vec::new();
        for cp in CPS {
            let corners: Vec<Vec<u8>> = {
                let gfti = fti_grid(cp, false);
                vec![gfti[0].clone(), gfti[gfti.len() / 3].clone(), gfti[2 * gfti.len() / 3].clone(), gfti[gfti.len() - 1].clone()]
            };
            for fti in corners {
                for version in [0u8, 1, 2, 15] {
                    for (a, b) in [(false, false), (true, false), (false, true), (true, true)] {
                        for c in 0..4u8 {
                            for (s, o, h) in [(0u8, 0u8, 0u8), (0, 0, 1), (1, 0, 0), (0, 1, 1), (1, 3, 1), (1, 3, 0)] {
                                for hdr in [Some(0u8), None, Some(255), Some(1), Some(254)] {
                                    for hel in [None, Some(0u8), Some(1), Some(63), Some(64), Some(255)] {
                                        let mut sp = rfc::Spec::minimal(cp, TSI, 5);
                                        sp.version = version;
                                        sp.a = a;
                                        sp.b = b;
                                        sp.c = c;
                                        sp.s = s;
                                        sp.o = o;
                                        sp.h = h;
                                        let mut f = fti.clone();
                                        if let Some(h) = hel {
                                            f[1] = h;
                                        }
                                        sp.exts = vec![f];
                                        sp.payload = vec![1, 2, 3, 4];
                                        let true_hdr = (rfc::encode(&sp).len() - 8) / 4;
                                        sp.hdr_len_override = match hdr {
                                            None => None,
                                            Some(1) => Some((true_hdr as u8).wrapping_sub(1)),
                                            Some(254) => Some((true_hdr as u8).wrapping_add(1)),
                                            x => x,
                                        };
                                        cases.push(rfc::encode(&sp));
                                    }
                                }
                            }
                        }
                    }
                }
            }
        }
        let fu2 = fu.clone();
        let res = par_map(&cases, |_, pkt| {
            let mut g = G::default();
            let mut found: Found = BTreeMap::new();
            for hist in [vec![&pkt[..]], vec![&pkt[..], &pkt[..]]] {
                let r = run_history(&hist, Some(&fu2), &mut g);
                note(&mut found, r, &hist);
            }
            (g, found)
        });
        let before = g.histories;
        for (gg, ff) in res {
            g.merge(&gg);
            for (k, v) in ff {
                found.entry(k).and_modify(|e| e.2 += v.2).or_insert(v);
            }
        }
        rep.cov("part3b_header_field_histories", g.histories - before);
    }

    // ---- part 4: crafted FDT instances --------------------------------------------------------
    {
        let exp_ok = unix_to_ntp_secs(EPOCH_2027 + 7200).to_string();
        // the object packets that follow every crafted FDT: No-Code, TOI 5, no in-band FTI/CENC
        let obj_pkts: Vec<Vec<u8>> = {
            let content = obj_bytes(21, 3);
            (0..3)
                .map(|j| {
                    let mut sp = rfc::Spec::minimal(rfc::FEC_NOCODE, TSI, 5);
                    sp.payload_id = rfc::pid(rfc::FEC_NOCODE, (j / 2) as u32, (j % 2) as u32, 0, 8);
                    sp.payload = content[j * 8..((j + 1) * 8).min(21)].to_vec();
                    rfc::encode(&sp)
                })
                .collect()
        };
        // the same packets with in-band FTI (L=21, E=8, B=2): what the receiver learnt from them must survive
        // whatever the FDT says afterwards
        let obj_pkts_fti: Vec<Vec<u8>> = {
            let content = obj_bytes(21, 3);
            (0..3)
                .map(|j| {
                    let mut sp = rfc::Spec::minimal(rfc::FEC_NOCODE, TSI, 5);
                    sp.exts.push(rfc::fti_nocode(21, 8, 2));
                    sp.payload_id = rfc::pid(rfc::FEC_NOCODE, (j / 2) as u32, (j % 2) as u32, 0, 8);
                    sp.payload = content[j * 8..((j + 1) * 8).min(21)].to_vec();
                    rfc::encode(&sp)
                })
                .collect()
        };
        let mut xmls: Vec<String> = Vec::new();
        // (a) OTI attribute product at File level and at instance level
        let ids: Vec<Option<&str>> = vec![None, Some("0"), Some("1"), Some("2"), Some("5"), Some("6"), Some("129"), Some("7"), Some("255"), Some("256")];
        let bs: Vec<&str> = vec!["0", "1", "2", "4294967295", "4294967296", "18446744073709551615"];
        let es: Vec<&str> = vec!["0", "1", "8", "65535", "65536"];
        let ns: Vec<Option<&str>> = vec![None, Some("0"), Some("1"), Some("2"), Some("4"), Some("18446744073709551615")];
        let ssis: Vec<Option<&str>> = vec![None, Some(""), Some("AAAA"), Some("AAEAAQ=="), Some("AQABAQ=="), Some("CAE="), Some("IAE="), Some("!!!")];
        let tls: Vec<&str> = if thorough { vec!["0", "1", "8", "17", "21", "65536", "9223372036854775808", "18446744073709551615"] } else { vec!["21", "18446744073709551615", "0", "8"] };
        for id in &ids {
            for b in &bs {
                for e in &es {
                    for n in &ns {
                        for ssi in &ssis {
                            if !thorough && (ssi.is_some() && !matches!(*id, Some("1") | Some("2") | Some("6"))) {
                                continue;
                            }
                            for tl in &tls {
                                for level in 0..2 {
                                    let oti_attrs = |mut x: Vec<(String, String)>| {
                                        if let Some(i) = id {
                                            x.push(("FEC-OTI-FEC-Encoding-ID".into(), i.to_string()));
                                        }
                                        x.push(("FEC-OTI-Maximum-Source-Block-Length".into(), b.to_string()));
                                        x.push(("FEC-OTI-Encoding-Symbol-Length".into(), e.to_string()));
                                        if let Some(n) = n {
                                            x.push(("FEC-OTI-Max-Number-of-Encoding-Symbols".into(), n.to_string()));
                                        }
                                        if let Some(s) = ssi {
                                            x.push(("FEC-OTI-Scheme-Specific-Info".into(), s.to_string()));
                                        }
                                        x
                                    };
                                    let mut f = FileX::new("5", "file:///x").attr("Content-Length", "21").attr("Transfer-Length", tl);
                                    let mut x = FdtX::new(&exp_ok);
                                    if level == 0 {
                                        f.attrs = oti_attrs(f.attrs);
                                    } else {
                                        x.attrs = oti_attrs(x.attrs);
                                    }
                                    xmls.push(x.file(f).xml());
                                }
                            }
                        }
                    }
                }
            }
        }
        let n_oti = xmls.len();
        // (b) TOI x lengths x Expires x Content-Encoding
        for toi in ["", "0", "1", "5", "-1", "340282366920938463463374607431768211456", "x"] {
            for cl in [None, Some("0"), Some("1"), Some("21"), Some("9223372036854775808"), Some("18446744073709551615")] {
                for tl in [None, Some("0"), Some("1"), Some("21"), Some("18446744073709551615")] {
                    for exp in ["", "0", "3999999999", "4294967295", "4294967296", "x"] {
                        for cenc in [None, Some("gzip"), Some("unknown")] {
                            let mut f = FileX::new(toi, "file:///x").attr("FEC-OTI-FEC-Encoding-ID", "0").attr("FEC-OTI-Maximum-Source-Block-Length", "2").attr("FEC-OTI-Encoding-Symbol-Length", "8");
                            f = f.attr_opt("Content-Length", cl.map(|s| s.to_string())).attr_opt("Transfer-Length", tl.map(|s| s.to_string())).attr_opt("Content-Encoding", cenc.map(|s| s.to_string()));
                            let e2 = if exp == "3999999999" { exp_ok.clone() } else { exp.to_string() };
                            xmls.push(FdtX::new(&e2).file(f).xml());
                        }
                    }
                }
            }
        }
        // (b2) Expires at every boundary of its representations (32-bit NTP seconds, the NTP/Unix epoch offset,
        // i64, u64, not a number), on a File that is otherwise valid
        for exp in ["1", "2208988799", "2208988800", "2208988801", "2147483647", "2147483648", "4294967295", "4294967296", "4294967297", "6503956096", "9223372036854775807", "9223372036854775808", "9223372039063764607", "9223372039063764608", "9223372039063764609", "18446744073709551615", "18446744073709551616", "-1", "1e3", " 5", "0x10"] {
            let f = FileX::new("5", "file:///x").attr("Content-Length", "21").attr("Transfer-Length", "21").attr("FEC-OTI-FEC-Encoding-ID", "0").attr("FEC-OTI-Maximum-Source-Block-Length", "2").attr("FEC-OTI-Encoding-Symbol-Length", "8");
            xmls.push(FdtX::new(exp).file(f).xml());
        }
        // (c) malformed XML: truncation at every byte, wrong root, duplicate attributes, junk
        let valid = FdtX::new(&exp_ok)
            .file(FileX::new("5", "file:///x").attr("Content-Length", "21").attr("Transfer-Length", "21").attr("FEC-OTI-FEC-Encoding-ID", "0").attr("FEC-OTI-Maximum-Source-Block-Length", "2").attr("FEC-OTI-Encoding-Symbol-Length", "8"))
            .xml();
        let mut raw: Vec<Vec<u8>> = Vec::new();
        for cut in 0..valid.len() {
            raw.push(valid.as_bytes()[..cut].to_vec());
        }
        // every byte of a valid instance x a set of XML-relevant substitutions
        for pos in 0..valid.len() {
            let orig = valid.as_bytes()[pos];
            let subs: Vec<u8> = if thorough { (0..=255u8).collect() } else { vec![0x00, b'<', b'>', b'"', b'&', b'\'', b' ', b'/', b'=', 0xFF, orig ^ 0x20, orig.wrapping_add(1)] };
            for sub in subs {
                if sub != orig {
                    let mut m = valid.as_bytes().to_vec();
                    m[pos] = sub;
                    raw.push(m);
                }
            }
        }
        raw.push(valid.replace("FDT-Instance", "Other").into_bytes());
        raw.push(valid.replace("TOI=\"5\"", "TOI=\"5\" TOI=\"6\"").into_bytes());
        raw.push(valid.replace("Expires=", "Expires=\"1\" Expires=").into_bytes());
        raw.push(vec![0xFF, 0xFE, 0x00, 0x3C]);
        raw.push(b"<FDT-Instance Expires=\"1\"><File TOI=\"5\" Content-Location=\"a\"><File/></File></FDT-Instance>".to_vec());
        raw.push(format!("<!DOCTYPE x [<!ENTITY a \"{}\">]><FDT-Instance Expires=\"&a;&a;&a;\"/>", "A".repeat(1000)).into_bytes());
        let mut docs: Vec<Vec<u8>> = xmls.into_iter().map(|s| s.into_bytes()).collect();
        docs.extend(raw);
        let docs = Arc::new(docs);
        let docs2 = docs.clone();
        let fu2 = fu.clone();
        let res = par_map_wd(
            docs.clone(),
            Duration::from_secs(60),
            move |i, xml| {
                let mut g = G::default();
                let mut found: Found = BTreeMap::new();
                let fdt = fdt_packets(TSI, 7, xml, 8192, None, None);
                let gz = if i % 7 == 0 {
                    // the same instance, gzip-encoded, with EXT_CENC
                    use std::io::Write;
                    let mut enc = flate2::write::GzEncoder::new(Vec::new(), flate2::Compression::default());
                    enc.write_all(xml).unwrap();
                    Some(fdt_packets(TSI, 7, &enc.finish().unwrap(), 8192, None, Some(3)))
                } else {
                    None
                };
                for f in [Some(fdt), gz].into_iter().flatten() {
                    let mut h1: Vec<&[u8]> = f.iter().map(|p| &p[..]).collect();
                    h1.extend(obj_pkts.iter().map(|p| &p[..]));
                    let mut h2: Vec<&[u8]> = obj_pkts.iter().map(|p| &p[..]).collect();
                    h2.extend(f.iter().map(|p| &p[..]));
                    // first symbol with in-band FTI, then the FDT, then the last block, then the rest
                    let mut h3: Vec<&[u8]> = vec![&obj_pkts_fti[0][..]];
                    h3.extend(f.iter().map(|p| &p[..]));
                    h3.push(&obj_pkts_fti[2][..]);
                    h3.push(&obj_pkts_fti[1][..]);
                    // both receiver configurations (the second one: expiry check off, receive-once off, ...)
                    for v in [0u8, 1] {
                        set_rxv(v);
                        alloc::set_context(Some(format!("C04|{}", case_of(&h1))));
                        for hist in [&h1, &h2, &h3] {
                            let r = run_history(hist, Some(&fu2), &mut g);
                            note(&mut found, r, hist);
                        }
                    }
                    set_rxv(0);
                }
                alloc::set_context(None);
                (g, found)
            },
            move |i, _| {
                let mut f: Found = BTreeMap::new();
                let fdt = fdt_packets(TSI, 7, &docs2[i], 8192, None, None);
                let h: Vec<&[u8]> = fdt.iter().map(|p| &p[..]).collect();
                f.insert("C04/hang/crafted-fdt".into(), ("a crafted FDT history did not finish in 60 s".into(), case_of(&h), 1));
                (G::default(), f)
            },
        );
        let before = g.histories;
        for (gg, ff) in res {
            g.merge(&gg);
            for (k, v) in ff {
                found.entry(k).and_modify(|e| e.2 += v.2).or_insert(v);
            }
        }
        rep.cov("part4_crafted_fdt_histories", g.histories - before);
        rep.cov("part4_oti_attribute_documents", n_oti as u64);
    }

    // ---- part 5: valid FDT (OTI and content encoding in the FDT) x every payload length pattern ----
    {
        let exp_ok = unix_to_ntp_secs(EPOCH_2027 + 7200).to_string();
        let mut hists: Vec<Vec<Vec<u8>>> = Vec::new();
        for cenc in [None, Some("gzip"), Some("zlib"), Some("deflate")] {
            for tl in ["21", "16", "1", "0"] {
                for cl in [None, Some("0"), Some("5"), Some("100000")] {
                    let mut f = FileX::new("5", "file:///x").attr("Transfer-Length", tl).attr("FEC-OTI-FEC-Encoding-ID", "0").attr("FEC-OTI-Maximum-Source-Block-Length", "2").attr("FEC-OTI-Encoding-Symbol-Length", "8");
                    f = f.attr_opt("Content-Length", cl.map(|s| s.to_string())).attr_opt("Content-Encoding", cenc.map(|s| s.to_string()));
                    let fdt = fdt_packets(TSI, 7, FdtX::new(&exp_ok).file(f).xml().as_bytes(), 8192, None, None).remove(0);
                    // payload length of each of the 3 symbols: every combination of {0, 1, 7, 8, 9}
                    let lens = [0usize, 1, 7, 8, 9];
                    for a in lens {
                        for b in lens {
                            for c in lens {
                                let mut h = vec![fdt.clone()];
                                for (j, l) in [a, b, c].into_iter().enumerate() {
                                    let mut sp = rfc::Spec::minimal(rfc::FEC_NOCODE, TSI, 5);
                                    sp.payload_id = rfc::pid(rfc::FEC_NOCODE, (j / 2) as u32, (j % 2) as u32, 0, 8);
                                    sp.payload = vec![0x1f; l];
                                    sp.b = j == 2;
                                    h.push(rfc::encode(&sp));
                                }
                                hists.push(h);
                            }
                        }
                    }
                }
            }
        }
        let fu2 = fu.clone();
        let res = par_map(&hists, |_, h| {
            let mut g = G::default();
            let mut found: Found = BTreeMap::new();
            let refs: Vec<&[u8]> = h.iter().map(|p| &p[..]).collect();
            let r = run_history(&refs, Some(&fu2), &mut g);
            note(&mut found, r, &refs);
            (g, found)
        });
        let before = g.histories;
        for (gg, ff) in res {
            g.merge(&gg);
            for (k, v) in ff {
                found.entry(k).and_modify(|e| e.2 += v.2).or_insert(v);
            }
        }
        rep.cov("part5_payload_length_x_cenc_histories", g.histories - before);
    }

    // (6) flute's own writers behind the receiver: every session of the corpus delivered with each packet
    // lost, each packet's close-object bit flipped, reversed, and doubled
    {
        let before = g.histories;
        let items: Vec<(usize, u8)> = (0..corp.len()).flat_map(|i| [(i, 0u8), (i, 1u8)]).collect();
        let corp2 = corp.clone();
        let res = par_map(&items, move |_, (ci, kind)| {
            let mut gg = G::default();
            let mut ff: Found = Default::default();
            let pk = &corp2[*ci].1;
            let n = pk.len();
            let mut hists: Vec<Vec<Vec<u8>>> = Vec::new();
            hists.push(pk.clone());
            hists.push(pk.iter().rev().cloned().collect());
            hists.push(pk.iter().flat_map(|p| [p.clone(), p.clone()]).collect());
            for i in 0..n {
                let mut h = pk.clone();
                h.remove(i);
                hists.push(h);
                let mut h = pk.clone();
                h[i][1] ^= 0x01; // LCT close-object flag
                hists.push(h);
                // lost packet AND the flag raised early on the packet before it
                if i > 0 {
                    let mut h = pk.clone();
                    h[i - 1][1] |= 0x01;
                    h.remove(i);
                    hists.push(h);
                }
            }
            for h in &hists {
                let refs: Vec<&[u8]> = h.iter().map(|p| &p[..]).collect();
                let r = run_history_real_writer(&refs, *kind, &mut gg);
                if let Some((k, w)) = r {
                    let case = json!({"check": "real-writer", "case": {"hist": refs.iter().map(|p| hex(p)).collect::<Vec<_>>(), "kind": kind}});
                    ff.entry(k).and_modify(|e| e.2 += 1).or_insert((w, case, 1));
                }
            }
            (gg, ff)
        });
        for (gg, ff) in res {
            g.merge(&gg);
            for (k, v) in ff {
                found.entry(k).and_modify(|e| e.2 += v.2).or_insert(v);
            }
        }
        rep.cov("part6_real_writer_histories", g.histories - before);
    }

    // (7) two complete, valid FDT instances in a row with every ordered pair of instance ids from a boundary set
    // (lower after higher, equal, the 20-bit wrap), then the object packets and a third instance
    {
        let before = g.histories;
        let exp_ok = unix_to_ntp_secs(EPOCH_2027 + 7200).to_string();
        let ids: Vec<u32> = vec![0, 1, 2, 7, 0x7FFFF, 0x80000, 0xFFFFE, 0xFFFFF];
        let mk = |toi: &str, exp: &str| -> String {
            FdtX::new(exp)
                .file(FileX::new(toi, "file:///two").attr("Content-Length", "21").attr("Transfer-Length", "21").attr("FEC-OTI-FEC-Encoding-ID", "0").attr("FEC-OTI-Maximum-Source-Block-Length", "2").attr("FEC-OTI-Encoding-Symbol-Length", "8"))
                .xml()
        };
        let obj_pkts: Vec<Vec<u8>> = {
            let content = obj_bytes(21, 3);
            (0..3)
                .map(|j| {
                    let mut sp = rfc::Spec::minimal(rfc::FEC_NOCODE, TSI, 5);
                    sp.payload_id = rfc::pid(rfc::FEC_NOCODE, (j / 2) as u32, (j % 2) as u32, 0, 8);
                    sp.payload = content[j * 8..((j + 1) * 8).min(21)].to_vec();
                    rfc::encode(&sp)
                })
                .collect()
        };
        // ... the third instance (listing the completed object again) expires later than / earlier than / together
        // with the first one
        let mut pairs: Vec<(u32, u32, u32, u64)> = Vec::new();
        for a in &ids {
            for b in &ids {
                for c in [0u32, 0xFFFFF, 3] {
                    for e3 in [9000u64, 3700, 7200] {
                        pairs.push((*a, *b, c, e3));
                    }
                }
            }
        }
        let fu3 = fu.clone();
        let res = par_map(&pairs, move |_, (a, b, c, e3)| {
            let mut gg = G::default();
            let mut ff: Found = Default::default();
            let exp2 = unix_to_ntp_secs(EPOCH_2027 + 9000).to_string();
            let f1 = fdt_packets(TSI, *a, mk("5", &exp_ok).as_bytes(), 8192, None, None);
            let f2 = fdt_packets(TSI, *b, mk("6", &exp2).as_bytes(), 8192, None, None);
            let exp3 = unix_to_ntp_secs(EPOCH_2027 + *e3).to_string();
            let f3 = fdt_packets(TSI, *c, mk("5", &exp3).as_bytes(), 8192, None, None);
            let mut h: Vec<&[u8]> = Vec::new();
            h.extend(f1.iter().map(|p| &p[..]));
            h.extend(f2.iter().map(|p| &p[..]));
            h.extend(obj_pkts.iter().map(|p| &p[..]));
            h.extend(f3.iter().map(|p| &p[..]));
            h.extend(f1.iter().map(|p| &p[..]));
            let r = run_history(&h, Some(&fu3), &mut gg);
            note(&mut ff, r, &h);
            (gg, ff)
        });
        for (gg, ff) in res {
            g.merge(&gg);
            for (k, v) in ff {
                found.entry(k).and_modify(|e| e.2 += v.2).or_insert(v);
            }
        }
        rep.cov("part7_fdt_instance_id_sequences", g.histories - before);
    }

    // (9) one TOI under two codepoints: the first packet announces the object under scheme A (in-band EXT_FTI, or an
    // FDT before it), the second packet of the same TOI arrives with the codepoint of scheme B and 0..9 bytes
    // after the LCT header (shorter than, equal to, longer than either scheme's FEC payload id)
    {
        let before = g.histories;
        let cps = [rfc::FEC_NOCODE, rfc::FEC_RAPTOR, rfc::FEC_RS2M, rfc::FEC_RS28, rfc::FEC_RAPTORQ, rfc::FEC_SBS];
        let fti_of = |cp: u8| -> Vec<u8> {
            match cp {
                rfc::FEC_NOCODE => rfc::fti_nocode(21, 8, 2),
                rfc::FEC_RAPTOR => rfc::fti_raptor_flute(21, 8, 1, 1, 4),
                rfc::FEC_RS2M => rfc::fti_rs2m(21, 8, 1, 8, 2, 4),
                rfc::FEC_RS28 => rfc::fti_rs28(21, 8, 2, 4),
                rfc::FEC_RAPTORQ => rfc::fti_raptorq(21, 8, 1, 1, 4),
                _ => rfc::fti_sbs(21, 0, 8, 2, 4),
            }
        };
        let exp_ok = unix_to_ntp_secs(EPOCH_2027 + 7200).to_string();
        let mut hists: Vec<Vec<Vec<u8>>> = Vec::new();
        for a in cps {
            for b in cps {
                for rest in 0..=9usize {
                    for with_fdt in [false, true] {
                        let mut h: Vec<Vec<u8>> = Vec::new();
                        if with_fdt {
                            let f = FileX::new("5", "file:///two-cp").attr("Content-Length", "21").attr("Transfer-Length", "21").attr("FEC-OTI-FEC-Encoding-ID", &a.to_string()).attr("FEC-OTI-Maximum-Source-Block-Length", "2").attr("FEC-OTI-Encoding-Symbol-Length", "8").attr("FEC-OTI-Max-Number-of-Encoding-Symbols", "4");
                            h.extend(fdt_packets(TSI, 3, FdtX::new(&exp_ok).file(f).xml().as_bytes(), 8192, None, None));
                        }
                        let mut sp = rfc::Spec::minimal(a, TSI, 5);
                        sp.exts.push(fti_of(a));
                        sp.payload_id = rfc::pid(a, 0, 0, 2, 8);
                        sp.payload = vec![0x41; 8];
                        h.push(rfc::encode(&sp));
                        let mut sp2 = rfc::Spec::minimal(b, TSI, 5);
                        sp2.payload_id = Vec::new();
                        sp2.payload = vec![0x42; rest];
                        h.push(rfc::encode(&sp2));
                        hists.push(h);
                    }
                }
            }
        }
        let fu4 = fu.clone();
        let res = par_map(&hists, move |_, h| {
            let mut gg = G::default();
            let mut ff: Found = Default::default();
            let refs: Vec<&[u8]> = h.iter().map(|p| &p[..]).collect();
            for v in [0u8, 1] {
                set_rxv(v);
                let r = run_history(&refs, Some(&fu4), &mut gg);
                note(&mut ff, r, &refs);
            }
            set_rxv(0);
            (gg, ff)
        });
        for (gg, ff) in res {
            g.merge(&gg);
            for (k, v) in ff {
                found.entry(k).and_modify(|e| e.2 += v.2).or_insert(v);
            }
        }
        rep.cov("part9_two_codepoints_histories", g.histories - before);
    }

    for (key, (what, case, n)) in found {
        let v = Violation { key, what: format!("{} [{} case(s)]", what, n), case };
        rep.add(v);
    }
    rep.cov("evaluations", g.histories);
    rep.cov("distinct_nontrivial", g.histories);
    rep.cov("rule", "four exhaustive families, each history pushed into a fresh real MultiReceiver (cache limit 64 kB) with catch_unwind, overflow checks on, a 64 MB heap ceiling measured by a counting allocator, a watchdog, and - after any rejected packet - a valid follow-up session that must still be delivered: (1) all byte strings of length 0..3; (2) every packet of a 22-session corpus x every header byte x substitutions (all 255 in thorough) and every truncation, in context; (3) products of boundary values of every EXT_FTI field x payload-id field x payload length per scheme, and of version/flags/C/S/O/H/HDR_LEN/HEL, as 1-3 packet histories with and without an FDT; (4) crafted FDT instances: product of OTI attribute values at File and instance level, TOI x lengths x Expires x Content-Encoding, every truncation and every single-byte substitution of a valid instance and malformed documents, each followed/preceded by object packets; (5) a valid FDT carrying the OTI and every content encoding x transfer / content lengths x every combination of payload lengths {0,1,E-1,E,E+1} of the object's three symbols. Histories are distinct by construction.");
    rep.cov("exhaustive", true);
    rep.cov("pushes", g.pushes);
    rep.cov("answers_ok", g.ok);
    rep.cov("answers_err", g.err);
    rep.cov("max_heap_peak_bytes", g.max_peak as u64);
    rep.guard("histories_reaching_a_writer", g.reached_writer);
    rep.guard("histories_with_parsed_fdt", g.fdt_parsed);
    rep.guard("usability_checks_after_rejection", g.usable_checked);
    rep.guard("answers_ok", g.ok);
    rep.guard("answers_err", g.err);
    rep.sample(json!({"hist": ["100000"], "meaning": "hex datagrams pushed in order into a fresh receiver"}));
    rep.sample(json!({"hist": [hex(&corp[0].1[0][..corp[0].1[0].len().min(40)]), "..."]}));
    rep.assume("the random mutation sequences named in the quantifier are sampling and are not used; their place is taken by the bounded exhaustive families above");
    rep.assume("heap ceiling 64 MB is deliberately coarse (1000 x the configured cache): tight accounting is C17's job");
    rep.finish()
}
