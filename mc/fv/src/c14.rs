//! C14 — timing: start times, carousel gaps and pacing never early; degenerate inputs are safe.
//! Engine: E1 full enumeration of polling schedules (all sequences of clock advances) x timing
//! configurations x one deviation (trigger_transfer_at at every poll index) on the real Sender.
use crate::report::*;
use crate::sendsys::*;
use crate::sess::*;
use crate::util::*;
use serde::{Deserialize, Serialize};
use serde_json::json;
use std::sync::Arc;
use std::time::Duration;

pub const TICK: u64 = 250;

#[derive(Serialize, Deserialize, Clone, Debug)]
pub struct Cfg {
    /// None, or start time in ticks relative to t0 (negative = past)
    pub start: Option<i64>,
    /// 0 none, 1 delay 0, 2 delay 2 ticks, 3 interval 0, 4 interval 3 ticks
    pub carousel: u8,
    /// 0 none, 1 WithinDuration(0), 2 WithinDuration(4 ticks), 3 WithinTime(past), 4 WithinTime(+6 ticks), 5 AsFastAsPossible
    pub target: u8,
    /// number of symbols (E = 4)
    pub symbols: usize,
    pub second: bool,
    /// the FDT's own carousel: 0 = delay 1 s (default), 1 = delay 0, 2 = interval 0, 3 = interval 2 ticks, 4 = delay 3 ticks
    #[serde(default)]
    pub fdt_carousel: u8,
    /// 0 = No-Code; 1 = Reed-Solomon GF(2^8), one repair symbol per block of 2 (a transfer has more packets than
    /// source packets: the tick is target / SOURCE packets and every packet, repair ones included, takes a slot)
    #[serde(default)]
    pub fec: u8,
    /// content encoding of the object (0 none, 3 gzip): the pacing tick divides the target by the symbols of the
    /// TRANSFER-encoded object
    #[serde(default)]
    pub cenc: u8,
}

#[derive(Serialize, Deserialize, Clone, Debug)]
pub struct Case {
    pub cfg: Cfg,
    /// clock advance (ticks) before each poll
    pub schedule: Vec<u64>,
    /// (poll index, Some(ticks from that poll's now) | None)
    pub trigger: Option<(usize, Option<u64>)>,
    /// remove_object at this poll index (before the drain)
    #[serde(default)]
    pub remove: Option<usize>,
    /// allow_immediate_stop_before_first_transfer = Some(true)
    #[serde(default)]
    pub imm_stop: bool,
    /// at this poll index (before the drain) a further object U is added to the main object's queue, with a
    /// transfer start time far beyond the horizon, and - when `late_publish` is false - never published
    #[serde(default)]
    pub late_add: Option<usize>,
    #[serde(default)]
    pub late_publish: bool,
}

fn objects(c: &Cfg) -> Vec<ObjSpec> {
    let mut o = ObjSpec::simple(c.symbols * 4, 1);
    o.oti = Some(if c.fec == 1 { OtiSpec::new(Scheme::Rs28, 4, 2, 1, true) } else { OtiSpec::new(Scheme::NoCode, 4, 2, 0, true) });
    o.prio = 1;
    o.cenc = c.cenc;
    o.text = c.cenc != 0;
    o.start_ms = c.start.map(|t| t * TICK as i64);
    o.carousel = match c.carousel {
        1 => Some(Carousel::Delay(0)),
        2 => Some(Carousel::Delay(2 * TICK)),
        3 => Some(Carousel::Interval(0)),
        4 => Some(Carousel::Interval(3 * TICK)),
        _ => None,
    };
    o.target = match c.target {
        1 => Some(Target::WithinMs(0)),
        2 => Some(Target::WithinMs(4 * TICK)),
        3 => Some(Target::AtMs(-(2 * TICK as i64))),
        4 => Some(Target::AtMs(6 * TICK as i64)),
        5 => Some(Target::Asap),
        _ => None,
    };
    let mut v = vec![o];
    if c.second {
        let mut h = ObjSpec::simple(8, 2);
        h.oti = Some(OtiSpec::new(Scheme::NoCode, 4, 2, 0, true));
        h.prio = 0;
        h.start_ms = Some(2 * TICK as i64);
        v.push(h);
    }
    v
}

#[derive(Default, Clone)]
pub struct G {
    pub execs: u64,
    pub packets: u64,
    pub gated_by_start: u64,
    pub carousel_turns: u64,
    pub paced_packets_delayed: u64,
    pub triggers_accepted: u64,
    pub fdt_reemissions: u64,
    pub removals: u64,
    pub late_adds: u64,
    pub removals_mid_transfer: u64,
    pub outcomes: std::collections::BTreeSet<u64>,
}

pub fn run_case(case: &Case, g: &mut G) -> Option<(String, String)> {
    g.execs += 1;
    let c = &case.cfg;
    let r = catch(|| -> Option<(String, String)> {
        let mut sess = SessSpec::basic(OtiSpec::new(Scheme::NoCode, 1424, 64, 0, true));
        sess.queues = vec![(0, 1), (1, 1)];
        sess.fdt_carousel = match c.fdt_carousel {
            1 => Carousel::Delay(0),
            2 => Carousel::Interval(0),
            3 => Carousel::Interval(2 * TICK),
            4 => Carousel::Delay(3 * TICK),
            _ => Carousel::Delay(1000),
        };
        let fdt_gap: u64 = match c.fdt_carousel {
            1 | 2 => 0,
            3 => 2 * TICK,
            4 => 3 * TICK,
            _ => 1000,
        };
        let mut objs = objects(c);
        if case.imm_stop {
            objs[0].immediate_stop = Some(true);
        }
        let n_initial = objs.len();
        if case.late_add.is_some() {
            let mut u = ObjSpec::simple(8, 3);
            u.oti = Some(OtiSpec::new(Scheme::NoCode, 4, 2, 0, true));
            u.prio = 1;
            u.start_ms = Some(100_000 * TICK as i64);
            objs.push(u);
        }
        let cat = Arc::new(objs);
        let mut removed_li: Option<usize> = None;
        let mut sys = SendSys::new(&sess, cat.clone());
        for k in 0..n_initial {
            sys.apply(&Ev::Add(k));
            if sys.toi_of[k].is_none() {
                return Some(("C14/add-refused".into(), format!("add_object refused: {:?}", sys.log.last())));
            }
        }
        sys.apply(&Ev::Publish);
        let toi = sys.toi_of[0].unwrap();
        // SOURCE packets per transfer (an empty object is one packet): the pacing tick is target / n
        let n = if c.cenc != 0 { (cat[0].desc(None).map(|d| d.transfer_length as usize).unwrap_or(0)).div_ceil(4).max(1) } else { c.symbols.max(1) };
        // all packets of a transfer (one repair packet per block of 2 under Reed-Solomon)
        let n_tot = if c.fec == 1 && c.symbols > 0 { n + n.div_ceil(2) } else { n };
        // reference state
        let mut gate_ms: Option<i64> = c.start.map(|t| t * TICK as i64);
        let mut poll_ends: Vec<(usize, u64)> = Vec::new(); // (log index after the drain, now)
        let mut trig_log: Vec<(usize, bool)> = Vec::new(); // (log index, accepted while idle)
        for (pi, adv) in case.schedule.iter().enumerate() {
            sys.apply(&Ev::Tick(adv * TICK));
            if let Some((ti, dt)) = case.trigger {
                if ti == pi {
                    let open = is_open(&sys.log, toi);
                    let ts = dt.map(|d| (sys.now_ms + d * TICK) as i64);
                    sys.apply(&Ev::Trigger(0, ts));
                    let accepted = matches!(sys.log.last(), Some(Item::Api(_, r)) if r == "true");
                    trig_log.push((sys.log.len(), accepted && !open));
                    if accepted && !open {
                        g.triggers_accepted += 1;
                        if let Some(t) = ts {
                            gate_ms = Some(t);
                        }
                    }
                }
            }
            if case.late_add == Some(pi) {
                sys.apply(&Ev::Add(n_initial));
                if sys.toi_of[n_initial].is_none() {
                    return Some(("C14/add-refused".into(), format!("add_object refused: {:?}", sys.log.last())));
                }
                if case.late_publish {
                    sys.apply(&Ev::Publish);
                }
                g.late_adds += 1;
            }
            if case.remove == Some(pi) {
                sys.apply(&Ev::Remove(0));
                if matches!(sys.log.last(), Some(Item::Api(_, r)) if r == "true") {
                    removed_li = Some(sys.log.len());
                    g.removals += 1;
                    if is_open(&sys.log, toi) {
                        g.removals_mid_transfer += 1;
                    }
                }
            }
            sys.apply(&Ev::Drain);
            poll_ends.push((sys.log.len(), sys.now_ms));
            if let Some(p) = &sys.panicked {
                return Some((format!("C14/panic/{}", panic_sig(p)), format!("panic in poll {}: {}", pi, p)));
            }
        }
        if std::env::var("VERIF_DEBUG").is_ok() {
            for it in &sys.log {
                match it {
                    Item::Pkt(p) => eprintln!("  pkt t={} toi={} sbn={} esi={} b={} fdt={:?}", p.t_ms, p.toi, p.sbn, p.esi, p.b, p.fdt_id),
                    other => eprintln!("  {:?}", other),
                }
            }
        }
        // no stall: advance far, every configured transfer completes
        for _ in 0..4 {
            sys.apply(&Ev::Tick(100 * TICK));
            sys.apply(&Ev::Drain);
        }
        if let Some(p) = &sys.panicked {
            return Some((format!("C14/panic/{}", panic_sig(p)), format!("panic: {}", p)));
        }
        // the late object U (start time beyond every instant of this run) never sends anything
        if let Some(Some(u_toi)) = sys.toi_of.get(n_initial) {
            for it in &sys.log {
                if let Item::Pkt(p) = it {
                    if p.toi == *u_toi {
                        return Some(("C14/packet-before-start-time/late-added-object".into(), format!("packet of the object added at poll {:?} ({}) emitted at t={}ms, its transfer start time is {}ms", case.late_add, if case.late_publish { "published" } else { "never published" }, p.t_ms, 100_000 * TICK)));
                    }
                }
            }
        }
        // ---- oracle over the log ----
        let horizon = poll_ends.last().map(|p| p.0).unwrap_or(0);
        let mut starts: Vec<u64> = Vec::new();
        let mut stops: Vec<u64> = Vec::new();
        let mut open = false;
        let mut idx_in_transfer = 0usize;
        let mut cur_start = 0u64;
        let mut trig_since_stop = false;
        let mut tl_iter = trig_log.iter().peekable();
        let target_ms: Option<f64> = None;
        let _ = target_ms;
        let mut gate_now: Option<i64> = c.start.map(|t| t * TICK as i64);
        let mut sig = Vec::new();
        for (li, it) in sys.log.iter().enumerate() {
            while let Some((tli, acc)) = tl_iter.peek() {
                if *tli <= li {
                    if *acc {
                        trig_since_stop = true;
                        if let Some((_, Some(d))) = case.trigger {
                            // the trigger's timestamp replaces the start gate
                            let pi = case.trigger.unwrap().0;
                            let now_at: u64 = case.schedule[..=pi].iter().sum::<u64>() * TICK;
                            gate_now = Some((now_at + d * TICK) as i64);
                        }
                    }
                    tl_iter.next();
                } else {
                    break;
                }
            }
            match it {
                Item::Start(t, ms) if *t == toi => {
                    if removed_li.map(|r| li >= r).unwrap_or(false) {
                        return Some(("C14/transfer-started-after-removal".into(), format!("transfer starts at t={}ms although remove_object returned true before", ms)));
                    }
                    if let Some(gt) = gate_now {
                        if (*ms as i64) < gt {
                            return Some(("C14/transfer-before-start-time".into(), format!("transfer starts at t={}ms, start time is {}ms", ms, gt)));
                        }
                    }
                    if let (Some(ls), Some(le)) = (starts.last(), stops.last()) {
                        if !trig_since_stop && stops.len() == starts.len() {
                            let (kind, not_before) = match c.carousel {
                                1 => ("delay 0", *le),
                                2 => ("delay", *le + 2 * TICK),
                                3 => ("interval 0", *ls),
                                4 => ("interval", *ls + 3 * TICK),
                                _ => ("none", 0),
                            };
                            if c.carousel != 0 && *ms < not_before {
                                return Some((
                                    "C14/carousel-transfer-too-early".into(),
                                    format!("carousel {}: transfer #{} starts at t={}ms, previous started {}ms / ended {}ms, not allowed before {}ms", kind, starts.len() + 1, ms, ls, le, not_before),
                                ));
                            }
                        }
                        if c.carousel == 0 {
                            return Some(("C14/second-transfer-without-carousel".into(), format!("transfer #{} of a max_transfer_count=1 object without carousel", starts.len() + 1)));
                        }
                        if li < horizon {
                            g.carousel_turns += 1;
                        }
                    }
                    starts.push(*ms);
                    open = true;
                    idx_in_transfer = 0;
                    cur_start = *ms;
                    trig_since_stop = false;
                }
                Item::Stop(t, ms) if *t == toi => {
                    stops.push(*ms);
                    open = false;
                }
                Item::Pkt(p) if p.toi == toi => {
                    g.packets += 1;
                    sig.push((p.t_ms, p.esi));
                    if !open {
                        return Some(("C14/packet-outside-transfer".into(), "packet outside Start/Stop".into()));
                    }
                    if let Some(gt) = gate_now {
                        if (p.t_ms as i64) < gt {
                            return Some(("C14/packet-before-start-time".into(), format!("packet at t={}ms, start time {}ms", p.t_ms, gt)));
                        }
                    }
                    // pacing: packet i not before start + floor(i * target / n)
                    let target: Option<u64> = match c.target {
                        1 => Some(0),
                        2 => Some(4 * TICK),
                        3 => Some(0),
                        4 => Some((6 * TICK).saturating_sub(cur_start)),
                        _ => None,
                    };
                    if let Some(tg) = target {
                        let due_ns = cur_start as u128 * 1_000_000 + (idx_in_transfer as u128 * tg as u128 * 1_000_000) / n as u128;
                        let at_ns = p.t_ms as u128 * 1_000_000;
                        if at_ns + idx_in_transfer as u128 + 1 < due_ns {
                            return Some((
                                "C14/paced-packet-early".into(),
                                format!("packet {} of {} of a transfer started at {}ms with target {}ms emitted at {}ms, due at {:.3}ms", idx_in_transfer, n, cur_start, tg, p.t_ms, due_ns as f64 / 1e6),
                            ));
                        }
                        if idx_in_transfer > 0 && p.t_ms > cur_start {
                            g.paced_packets_delayed += 1;
                        }
                    }
                    idx_in_transfer += 1;
                }
                _ => {}
            }
            // end of a poll: every due packet of an open paced transfer must be out
            if let Some((_, now)) = poll_ends.iter().find(|(e, _)| *e == li + 1) {
                if open && li < horizon && !removed_li.map(|r| li >= r).unwrap_or(false) {
                    let target: Option<u64> = match c.target {
                        1 => Some(0),
                        2 => Some(4 * TICK),
                        3 => Some(0),
                        4 => Some((6 * TICK).saturating_sub(cur_start)),
                        _ => Some(0),
                    };
                    let tg = target.unwrap();
                    // packets due by `now` (strictly-later due times excluded with a 1 us margin)
                    let mut due = 0usize;
                    for i in 0..n_tot {
                        // flute's tick is target / n rounded to the nanosecond: packet i > 0 may be due a few ns after the
                        // exact instant, so an exact coincidence of its due time with the poll is not claimed
                        let due_ns = cur_start as u128 * 1_000_000 + (i as u128 * tg as u128 * 1_000_000) / n as u128 + if i > 0 && tg > 0 { 1_000 } else { 0 };
                        if due_ns <= *now as u128 * 1_000_000 {
                            due = i + 1;
                        }
                    }
                    if idx_in_transfer < due {
                        return Some((
                            "C14/due-packet-not-sent-at-poll".into(),
                            format!("poll at {}ms ended with {} of {} packets sent, {} were due (transfer started {}ms, target {}ms)", now, idx_in_transfer, n_tot, due, cur_start, tg),
                        ));
                    }
                }
            }
        }
        // the FDT's own carousel (DelayBetweenTransfers 1 s): an instance is never re-emitted earlier
        {
            let mut last_emission: std::collections::BTreeMap<(u32, u32, u32), u64> = Default::default();
            for it in sys.log.iter() {
                if let Item::Pkt(p) = it {
                    if p.toi == 0 {
                        if let Some(id) = p.fdt_id {
                            if let Some(prev) = last_emission.get(&(id, p.sbn, p.esi)) {
                                if p.t_ms > *prev && p.t_ms < *prev + fdt_gap {
                                    return Some(("C14/fdt-carousel-too-early".into(), format!("FDT instance {} re-emitted at t={}ms, previous emission at t={}ms, FDT carousel period {} ms", id, p.t_ms, prev, fdt_gap)));
                                }
                                if p.t_ms == *prev {
                                    return Some(("C14/fdt-instance-emitted-twice-at-one-instant".into(), format!("packet ({}, {}) of FDT instance {} emitted twice at t={}ms (FDT carousel period {} ms)", p.sbn, p.esi, id, p.t_ms, fdt_gap)));
                                }
                                if p.t_ms > *prev {
                                    g.fdt_reemissions += 1;
                                }
                            }
                            last_emission.insert((id, p.sbn, p.esi), p.t_ms);
                        }
                    }
                }
            }
        }
        if let Some(gt) = gate_ms {
            if gt > 0 {
                g.gated_by_start += 1;
            }
        }
        // no stall: after the long drain the object has completed (carousel: at least two transfers)
        let need = if c.carousel == 0 { 1 } else { 2 };
        if removed_li.is_some() {
            // a removed object owes nothing more, but a transfer it had started must have been closed
            if open {
                return Some(("C14/stall".into(), format!("the object was removed during a transfer that never ended (starts {:?}, stops {:?})", starts, stops)));
            }
        } else if stops.len() < need {
            return Some((
                "C14/stall".into(),
                format!("after advancing the clock by 400 ticks the object completed {} transfer(s), expected at least {} (starts {:?})", stops.len(), need, starts),
            ));
        }
        g.outcomes.insert(h64(&sig));
        None
    });
    match r {
        Ok(v) => v,
        Err(p) => Some((format!("C14/panic/{}", panic_sig(&p)), format!("panic: {}", p))),
    }
}

fn is_open(log: &[Item], toi: u128) -> bool {
    let mut open = false;
    for it in log {
        match it {
            Item::Start(t, _) if *t == toi => open = true,
            Item::Stop(t, _) if *t == toi => open = false,
            _ => {}
        }
    }
    open
}

pub fn replay(v: &serde_json::Value) -> Vec<Violation> {
    let c: Case = serde_json::from_value(v["case"].clone()).expect("case");
    let mut g = G::default();
    run_case(&c, &mut g).into_iter().map(|(key, what)| Violation { key, what, case: v.clone() }).collect()
}

pub fn configs() -> Vec<Cfg> {
    let mut v = Vec::new();
    for start in [None, Some(-2i64), Some(0), Some(3)] {
        for carousel in 0..5u8 {
            for target in 0..6u8 {
                for symbols in [0usize, 1, 3] {
                    for second in [false, true] {
                        v.push(Cfg { start, carousel, target, symbols, second, fdt_carousel: 0, fec: 0, cenc: 0 });
                        if !second && target != 0 && start != Some(-2) {
                            v.push(Cfg { start, carousel, target, symbols, second, fdt_carousel: 0, fec: 1, cenc: 0 });
                            if symbols == 3 && carousel == 0 && start != Some(0) {
                                v.push(Cfg { start, carousel, target, symbols, second, fdt_carousel: 0, fec: 0, cenc: 3 });
                            }
                        }
                        if !second && target == 0 && start != Some(-2) {
                            for fdt_carousel in 1..5u8 {
                                v.push(Cfg { start, carousel, target, symbols, second, fdt_carousel, fec: 0, cenc: 0 });
                            }
                        }
                    }
                }
            }
        }
    }
    v
}

pub fn run(thorough: bool) -> i32 {
    let mut rep = Report::new("C14", "model_checking", if thorough { "thorough" } else { "quick" });
    let npoll = if thorough { 7 } else { 5 };
    let steps = [0u64, 1, 2, 5];
    let cfgs = configs();
    // work items: (config index, first step) — each item enumerates all remaining schedules
    let mut items = Vec::new();
    for ci in 0..cfgs.len() {
        for s0 in 0..steps.len() {
            items.push((ci, s0));
        }
    }
    let cfgs = Arc::new(cfgs);
    let cfgs2 = cfgs.clone();
    let res = par_map_wd(
        Arc::new(items),
        Duration::from_secs(300),
        move |_, (ci, s0)| {
            let cfg = &cfgs2[*ci];
            let mut g = G::default();
            let mut found: std::collections::BTreeMap<String, (String, Case)> = Default::default();
            let total = steps.len().pow(npoll as u32 - 1);
            for code in 0..total {
                let mut sched = vec![steps[*s0]];
                let mut cc = code;
                for _ in 1..npoll {
                    sched.push(steps[cc % steps.len()]);
                    cc /= steps.len();
                }
                let case = Case { cfg: cfg.clone(), schedule: sched.clone(), trigger: None, remove: None, imm_stop: false, late_add: None, late_publish: false };
                if let Some((k, w)) = run_case(&case, &mut g) {
                    found.entry(k).or_insert((w, case));
                }
                // one deviation: remove_object at every poll index, with and without the immediate-stop permission
                // (crossed with the fixed sub-grid of schedules whose code is 3 modulo 7)
                if code % 7 == 3 {
                    for ri in 0..npoll {
                        for imm_stop in [false, true] {
                            let case = Case { cfg: cfg.clone(), schedule: sched.clone(), trigger: None, remove: Some(ri), imm_stop, late_add: None, late_publish: false };
                            if let Some((k, w)) = run_case(&case, &mut g) {
                                found.entry(k).or_insert((w, case));
                            }
                        }
                    }
                }
                // one deviation: a further object with a far start time added (published or not) at every poll index
                // (crossed with the fixed sub-grid of schedules whose code is 5 modulo 7)
                if code % 7 == 5 {
                    for ai in 0..npoll {
                        for late_publish in [false, true] {
                            let case = Case { cfg: cfg.clone(), schedule: sched.clone(), trigger: None, remove: None, imm_stop: false, late_add: Some(ai), late_publish };
                            if let Some((k, w)) = run_case(&case, &mut g) {
                                found.entry(k).or_insert((w, case));
                            }
                        }
                    }
                }
                // one deviation: trigger at every poll index (schedules thinned to keep the product finite:
                // every schedule whose code is a multiple of 7, i.e. a fixed 1/7 sub-grid, is crossed with it)
                if code % 7 == 0 {
                    for ti in 0..npoll {
                        for dt in [None, Some(2u64)] {
                            let case = Case { cfg: cfg.clone(), schedule: sched.clone(), trigger: Some((ti, dt)), remove: None, imm_stop: false, late_add: None, late_publish: false };
                            if let Some((k, w)) = run_case(&case, &mut g) {
                                found.entry(k).or_insert((w, case));
                            }
                        }
                    }
                }
            }
            (g, found)
        },
        |_, (ci, _)| {
            let mut f: std::collections::BTreeMap<String, (String, Case)> = Default::default();
            f.insert("C14/hang".into(), ("schedule sweep did not finish in 300 s (a read loop that never returns?)".into(), Case { cfg: cfgs[*ci].clone(), schedule: vec![], trigger: None, remove: None, imm_stop: false, late_add: None, late_publish: false }));
            (G::default(), f)
        },
    );
    let mut g = G::default();
    for (gg, found) in res {
        g.execs += gg.execs;
        g.packets += gg.packets;
        g.gated_by_start += gg.gated_by_start;
        g.carousel_turns += gg.carousel_turns;
        g.paced_packets_delayed += gg.paced_packets_delayed;
        g.triggers_accepted += gg.triggers_accepted;
        g.fdt_reemissions += gg.fdt_reemissions;
        g.removals += gg.removals;
        g.late_adds += gg.late_adds;
        g.removals_mid_transfer += gg.removals_mid_transfer;
        g.outcomes.extend(gg.outcomes.iter());
        for (key, (what, case)) in found {
            rep.add(Violation { key, what, case: json!({"check": "schedule", "case": serde_json::to_value(&case).unwrap()}) });
        }
    }
    rep.cov("states", g.outcomes.len() as u64);
    rep.cov("transitions", g.packets);
    rep.cov("traces_validated_against_impl", g.execs);
    rep.cov("evaluations", g.execs);
    rep.cov("distinct_nontrivial", g.outcomes.len() as u64);
    rep.cov("explanation", "states = distinct (instant, ESI) emission timelines observed; transitions = timed packets checked; every execution drives the real Sender under a virtual clock");
    rep.cov("exhaustive", true);
    rep.cov("polls_per_schedule", npoll as u64);
    rep.cov("clock_steps_ticks", json!(steps));
    rep.cov("configs", cfgs.len() as u64);
    rep.guard("executions_gated_by_a_future_start_time", g.gated_by_start);
    rep.guard("carousel_turns_inside_the_horizon", g.carousel_turns);
    rep.guard("paced_packets_sent_after_the_first_instant", g.paced_packets_delayed);
    rep.guard("triggers_accepted", g.triggers_accepted);
    rep.guard("fdt_instance_reemissions", g.fdt_reemissions);
    rep.guard("removals_accepted", g.removals);
    rep.guard("late_adds", g.late_adds);
    rep.guard("removals_during_a_transfer", g.removals_mid_transfer);
    rep.sample(json!({"cfg": cfgs[7], "schedule": [0, 1, 5, 0, 2], "trigger": null, "meaning": "clock advance in ticks of 250 ms before each poll (drain until None)"}));
    rep.assume("carousel clause is checked literally for max_transfer_count = 1 (DESIGN §5); an accepted trigger_transfer_at resets the carousel reference and replaces the start gate by its timestamp");
    rep.assume("the remove_object deviation (every poll index, with and without allow_immediate_stop_before_first_transfer) is crossed with the fixed sub-grid of schedules whose code is 3 modulo 7");
    rep.assume("the trigger deviation is crossed with the fixed sub-grid of schedules whose code is a multiple of 7, all other dimensions are full products");
    rep.finish()
}
