//! Counting global allocator: per-thread live / peak bytes, and a hard cap on single requests
//! (an allocation failure aborts the process, so a request above the cap is recorded and turned
//! into a null return only after the harness has had the chance to print the case).
use std::alloc::{GlobalAlloc, Layout, System};
use std::cell::Cell;

pub struct Counting;

thread_local! {
    static LIVE: Cell<isize> = const { Cell::new(0) };
    static PEAK: Cell<isize> = const { Cell::new(0) };
    static BIGGEST: Cell<usize> = const { Cell::new(0) };
    static TRACK: Cell<bool> = const { Cell::new(false) };
}

/// a single request above this is refused (returns null => alloc error => abort); the harness
/// checks `biggest()` against a much lower threshold before that can legitimately happen
pub const HARD_CAP: usize = 1 << 30;

unsafe impl GlobalAlloc for Counting {
    unsafe fn alloc(&self, l: Layout) -> *mut u8 {
        note_alloc(l.size());
        if l.size() > HARD_CAP {
            on_cap(l.size());
        }
        System.alloc(l)
    }
    unsafe fn alloc_zeroed(&self, l: Layout) -> *mut u8 {
        note_alloc(l.size());
        if l.size() > HARD_CAP {
            on_cap(l.size());
        }
        System.alloc_zeroed(l)
    }
    unsafe fn dealloc(&self, p: *mut u8, l: Layout) {
        note_free(l.size());
        System.dealloc(p, l)
    }
    unsafe fn realloc(&self, p: *mut u8, l: Layout, new: usize) -> *mut u8 {
        note_free(l.size());
        note_alloc(new);
        if new > HARD_CAP {
            on_cap(new);
        }
        System.realloc(p, l, new)
    }
}

fn note_alloc(n: usize) {
    let _ = TRACK.try_with(|t| {
        if t.get() {
            let _ = LIVE.try_with(|l| {
                let v = l.get() + n as isize;
                l.set(v);
                let _ = PEAK.try_with(|p| {
                    if v > p.get() {
                        p.set(v)
                    }
                });
            });
            let _ = BIGGEST.try_with(|b| {
                if n > b.get() {
                    b.set(n)
                }
            });
        }
    });
}
fn note_free(n: usize) {
    let _ = TRACK.try_with(|t| {
        if t.get() {
            let _ = LIVE.try_with(|l| l.set(l.get() - n as isize));
        }
    });
}

thread_local! {
    static CAP_CONTEXT: std::cell::RefCell<Option<String>> = const { std::cell::RefCell::new(None) };
}
/// context printed if a request above HARD_CAP is made on this thread (the case being run)
pub fn set_context(s: Option<String>) {
    TRACK.with(|t| {
        let was = t.get();
        t.set(false);
        CAP_CONTEXT.with(|c| *c.borrow_mut() = s);
        t.set(was);
    });
}
thread_local! {
    static IN_SUBJECT: Cell<i32> = const { Cell::new(0) };
}
static CURRENT_CHECK: std::sync::OnceLock<String> = std::sync::OnceLock::new();
/// called by `util::catch` around every call into the subject
pub fn subject_depth(d: i32) {
    let _ = IN_SUBJECT.try_with(|c| c.set(c.get() + d));
}
pub fn in_subject() -> bool {
    IN_SUBJECT.try_with(|c| c.get()).unwrap_or(0) > 0
}
pub fn current_check() -> String {
    CURRENT_CHECK.get().cloned().unwrap_or_else(|| "C00".into())
}
/// the check this process runs (names the property of an allocation-cap verdict without a case context)
pub fn set_current_check(id: &str) {
    let _ = CURRENT_CHECK.set(id.to_string());
}
fn on_cap(n: usize) {
    // A request this large would abort the process on failure (or take the machine down on
    // success): record the case being run as a replayable violation and stop. The context is the
    // JSON replay case set by the check before it ran the case.
    let in_subject = IN_SUBJECT.try_with(|c| c.get()).unwrap_or(0) > 0;
    let ctx = match CAP_CONTEXT.try_with(|c| c.borrow().clone()).ok().flatten() {
        Some(c) => c,
        None if in_subject => format!("{}|null", CURRENT_CHECK.get().cloned().unwrap_or_else(|| "C04".into())),
        None => {
            // no case of the subject is running on this thread: the request is the harness's own
            // (e.g. an exploration frontier that outgrew its bound) - a machinery error, never a verdict
            crate::report::outln(&format!("MACHINERY-ERROR: the harness itself requested a single allocation of {} bytes (no case in progress); reduce the bound", n));
            eprintln!("MACHINERY-ERROR: the harness itself requested a single allocation of {} bytes", n);
            std::process::exit(2);
        }
    };
    let (prop, case) = match ctx.split_once('|') {
        Some((p, c)) => (p.to_string(), c.to_string()),
        None => ("C04".to_string(), ctx),
    };
    let path = format!("/verif/replays/{}-alloc-cap-{}.json", prop, std::process::id());
    let body = format!(
        "{{\"property\": \"{}\", \"signature\": \"{}/single-allocation-above-1GiB\", \"what\": \"a single allocation request of {} bytes\", \"replay\": {}}}\n",
        prop, prop, n, case
    );
    let _ = std::fs::create_dir_all("/verif/replays");
    let _ = std::fs::write(&path, body);
    crate::report::outln(&format!("VIOLATION property={} replay={}", prop, path));
    crate::report::outln(&format!("  signature: {}/single-allocation-above-1GiB", prop));
    crate::report::outln(&format!("  what: a single allocation request of {} bytes (process stopped: allocation failure aborts)", n));
    std::process::exit(1);
}

/// start tracking on this thread: live := 0, peak := 0
pub fn start() {
    LIVE.with(|l| l.set(0));
    PEAK.with(|p| p.set(0));
    BIGGEST.with(|b| b.set(0));
    TRACK.with(|t| t.set(true));
}
pub fn stop() {
    TRACK.with(|t| t.set(false));
}
pub fn live() -> isize {
    LIVE.with(|l| l.get())
}
pub fn peak() -> isize {
    PEAK.with(|p| p.get())
}
pub fn reset_peak() {
    PEAK.with(|p| p.set(LIVE.with(|l| l.get())));
}
pub fn biggest() -> usize {
    BIGGEST.with(|b| b.get())
}
/// run `f` with tracking suspended (harness bookkeeping that must not count)
pub fn untracked<R>(f: impl FnOnce() -> R) -> R {
    let was = TRACK.with(|t| t.replace(false));
    let r = f();
    TRACK.with(|t| t.set(was));
    r
}
