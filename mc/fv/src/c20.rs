//! C20 — object sources interchangeable: the packets depend on the bytes, not on how they are read.
//! Engine: seqx — the size returned by every `read` of a harness stream is an explorer choice.
use crate::report::*;
use crate::seqx::*;
use crate::sess::*;
use crate::util::*;
use flute::sender::ObjectDesc;
use serde::{Deserialize, Serialize};
use serde_json::json;
use std::sync::atomic::{AtomicBool, AtomicUsize, Ordering};
use std::sync::{Arc, Mutex};

#[derive(Serialize, Deserialize, Clone, Debug)]
pub struct Cfg {
    pub scheme: Scheme,
    pub e: u16,
    pub b: u16,
    pub parity: u16,
    pub len: usize,
    pub count: u32,
    pub interleave: u8,
    /// 0 no carousel, 1 DelayBetweenTransfers(500 ms), 2 IntervalBetweenStartTimes(1 s); the sender is
    /// then polled at 0, 2 s and 4 s (three carousel turns of `count` transfers each)
    #[serde(default)]
    pub carousel: u8,
    /// create the stream object without Content-MD5 (no MD5 pass over the source before the first transfer)
    #[serde(default)]
    pub no_md5: bool,
    /// where the stream stands when it is handed to flute: 0 at its start, 1 after one byte, 2 in the
    /// middle, 3 at its end (the object is the whole stream: every transfer re-reads it from its start)
    #[serde(default)]
    pub start_pos: u8,
}

#[derive(Serialize, Deserialize, Clone, Debug)]
pub struct Case {
    pub cfg: Cfg,
    /// "choices": explorer choice vector; or a fixed pattern: "one" / "two" / "e+1" / "alt" / "file" / "bufreader" / "cursor" / "cursor-bufreader" / "take-chain" (Cursor over a boxed slice)
    pub mode: String,
    pub choices: Vec<u32>,
}

/// stream whose reads are capped by a shared answer function
struct PlannedStream {
    data: Vec<u8>,
    pos: usize,
    plan: Arc<Mutex<Box<dyn FnMut(usize) -> usize + Send>>>,
    armed: Arc<AtomicBool>,
    reads: Arc<AtomicUsize>,
    short: Arc<AtomicUsize>,
}
impl std::fmt::Debug for PlannedStream {
    fn fmt(&self, f: &mut std::fmt::Formatter<'_>) -> std::fmt::Result {
        write!(f, "PlannedStream(pos={})", self.pos)
    }
}
impl std::io::Read for PlannedStream {
    fn read(&mut self, buf: &mut [u8]) -> std::io::Result<usize> {
        let avail = buf.len().min(self.data.len() - self.pos);
        let mut n = avail;
        if self.armed.load(Ordering::SeqCst) && avail > 0 {
            self.reads.fetch_add(1, Ordering::SeqCst);
            let cap = (self.plan.lock().unwrap())(avail);
            n = avail.min(cap.max(1));
            if n < avail {
                self.short.fetch_add(1, Ordering::SeqCst);
            }
        }
        buf[..n].copy_from_slice(&self.data[self.pos..self.pos + n]);
        self.pos += n;
        Ok(n)
    }
}
impl std::io::Seek for PlannedStream {
    fn seek(&mut self, p: std::io::SeekFrom) -> std::io::Result<u64> {
        let np: i64 = match p {
            std::io::SeekFrom::Start(o) => o as i64,
            std::io::SeekFrom::End(o) => self.data.len() as i64 + o,
            std::io::SeekFrom::Current(o) => self.pos as i64 + o,
        };
        self.pos = (np.max(0) as usize).min(self.data.len());
        Ok(self.pos as u64)
    }
}

fn session(cfg: &Cfg) -> SessSpec {
    let mut s = SessSpec::basic(OtiSpec::new(Scheme::NoCode, 1424, 64, 0, true));
    s.interleave = cfg.interleave;
    s.sct = false; // no timestamps: packet bytes are then a pure function of the bytes and the configuration
    s
}

fn spec(cfg: &Cfg) -> ObjSpec {
    let mut o = ObjSpec::simple(cfg.len, 7);
    o.oti = Some(OtiSpec::new(cfg.scheme, cfg.e, cfg.b, cfg.parity, true));
    o.count = cfg.count;
    o.md5 = !cfg.no_md5;
    o.carousel = match cfg.carousel {
        0 => None,
        1 => Some(Carousel::Delay(500)),
        _ => Some(Carousel::Interval(1000)),
    };
    o
}

fn emit(cfg: &Cfg, desc: Box<ObjectDesc>) -> Result<Vec<Vec<u8>>, String> {
    let sp = session(cfg);
    let mut s = sp.sender()?;
    add_tallied(&mut s, 0, desc, &sp.oti).map_err(|e| format!("add_object: {}", e.0))?;
    s.publish(t0()).map_err(|e| e.0.to_string())?;
    let mut pk = Vec::new();
    let polls: &[u64] = if cfg.carousel == 0 { &[0] } else { &[0, 2000, 4000] };
    for ms in polls {
        if !drain(&mut s, at_ms(*ms), &mut pk, 100_000) {
            return Err("not quiescent".into());
        }
    }
    // FDT packets of later polls carry a new instance (other Expires): only object packets are compared there
    let first_poll = t0();
    Ok(pk.into_iter().filter(|p| p.0 == first_poll || crate::rfc::decode(&p.1).map(|r| r.toi != 0).unwrap_or(true)).map(|p| p.1).collect())
}

pub fn reference(cfg: &Cfg) -> Result<Vec<Vec<u8>>, String> {
    emit(cfg, spec(cfg).desc(None)?)
}

#[derive(Default, Debug, Clone)]
pub struct Obs {
    pub violation: Option<(String, String)>,
    pub reads: usize,
    pub short: usize,
    pub refused: bool,
}

fn compare(cfg: &Cfg, how: &str, got: &[Vec<u8>], want: &[Vec<u8>]) -> Option<(String, String)> {
    if got == want {
        return None;
    }
    let first = got.iter().zip(want.iter()).position(|(a, b)| a != b).unwrap_or(got.len().min(want.len()));
    let sch = format!("{:?}", cfg.scheme);
    // is the second transfer different from the first (source not re-read from its start)?
    Some((
        format!("C20/packets-differ/{}", sch),
        format!("{} source: {} packets, buffer source: {} packets; first difference at packet #{} ({} vs {}) [E={} B={} L={} transfers={}]", how, got.len(), want.len(), first, got.get(first).map(|p| hex(&p[p.len().saturating_sub(12)..])).unwrap_or_default(), want.get(first).map(|p| hex(&p[p.len().saturating_sub(12)..])).unwrap_or_default(), cfg.e, cfg.b, cfg.len, cfg.count),
    ))
}

/// explorer body: every read size is a choice among {everything, 1, 2, E+1}
pub fn body(cfg: &Cfg, want: &[Vec<u8>], ch: &mut Chooser) -> Obs {
    let cell = Arc::new(Mutex::new(std::mem::replace(ch, Chooser::replay(vec![]))));
    let c2 = cell.clone();
    let e = cfg.e as usize;
    let plan: Box<dyn FnMut(usize) -> usize + Send> = Box::new(move |_avail| match c2.lock().unwrap().choose(1, 4) {
        0 => usize::MAX,
        1 => 1,
        2 => 2,
        _ => e + 1,
    });
    let o = run_planned(cfg, want, plan, "stream");
    let chooser = match Arc::try_unwrap(cell) {
        Ok(c) => c.into_inner().unwrap(),
        Err(_) => panic!("chooser still shared (machinery)"),
    };
    *ch = chooser;
    o
}

fn run_planned(cfg: &Cfg, want: &[Vec<u8>], plan: Box<dyn FnMut(usize) -> usize + Send>, how: &str) -> Obs {
    let mut obs = Obs::default();
    let armed = Arc::new(AtomicBool::new(false));
    let reads = Arc::new(AtomicUsize::new(0));
    let short = Arc::new(AtomicUsize::new(0));
    let r = catch(|| -> Result<Vec<Vec<u8>>, String> {
        let o = spec(cfg);
        let data = o.content();
        let pos = match cfg.start_pos {
            0 => 0,
            1 => 1.min(data.len()),
            2 => data.len() / 2,
            _ => data.len(),
        };
        let st = PlannedStream { data, pos, plan: Arc::new(Mutex::new(plan)), armed: armed.clone(), reads: reads.clone(), short: short.clone() };
        let url = url::Url::parse(&o.location).unwrap();
        // armed from the start: the reads made while the descriptor is created (Content-MD5, length)
        // are chunked too
        armed.store(true, Ordering::SeqCst);
        let desc = ObjectDesc::create_from_stream(Box::new(st), &o.ctype, &url, !cfg.no_md5, o.transfer_config()?).map_err(|e| e.0.to_string())?;
        emit(cfg, desc)
    });
    obs.reads = reads.load(Ordering::SeqCst);
    obs.short = short.load(Ordering::SeqCst);
    match r {
        Ok(Ok(got)) => obs.violation = compare(cfg, how, &got, want),
        Ok(Err(e)) => {
            if e.starts_with("add_object") {
                obs.refused = true;
            } else {
                obs.violation = Some(("C20/stream-session-failed".into(), e));
            }
        }
        Err(p) => obs.violation = Some((format!("C20/panic/{}", panic_sig(&p)), format!("panic: {}", p))),
    }
    obs
}

fn run_fixed(cfg: &Cfg, want: &[Vec<u8>], mode: &str) -> Obs {
    let e = cfg.e as usize;
    match mode {
        "one" => run_planned(cfg, want, Box::new(|_| 1), "one-byte-at-a-time stream"),
        "two" => run_planned(cfg, want, Box::new(|_| 2), "two-bytes-at-a-time stream"),
        "e+1" => run_planned(cfg, want, Box::new(move |_| e + 1), "(E+1)-byte-chunk stream"),
        "alt" => {
            let mut i = 0;
            run_planned(
                cfg,
                want,
                Box::new(move |_| {
                    i += 1;
                    [1, 3, e + 1, 2][i % 4]
                }),
                "alternating-chunk stream",
            )
        }
        "cursor" | "cursor-bufreader" | "take-chain" => {
            // standard-library readers used as they come: std::io::Cursor (whose read_exact copies nothing when
            // the data is short), a BufReader over it, and a Chain of two Cursors is not seekable - so a Cursor
            // over a boxed slice stands for "another std reader with its own read_exact"
            let mut obs = Obs::default();
            let r = catch(|| -> Result<Vec<Vec<u8>>, String> {
                use std::io::Seek;
                let o = spec(cfg);
                let data = o.content();
                let pos = match cfg.start_pos {
                    0 => 0,
                    1 => 1.min(data.len() as u64),
                    2 => data.len() as u64 / 2,
                    _ => data.len() as u64,
                };
                let url = url::Url::parse(&o.location).unwrap();
                let desc = match mode {
                    "cursor" => {
                        let mut c = std::io::Cursor::new(data);
                        c.seek(std::io::SeekFrom::Start(pos)).map_err(|e| e.to_string())?;
                        ObjectDesc::create_from_stream(Box::new(c), &o.ctype, &url, !cfg.no_md5, o.transfer_config()?)
                    }
                    "cursor-bufreader" => {
                        let mut c = std::io::BufReader::with_capacity(5, std::io::Cursor::new(data));
                        c.seek(std::io::SeekFrom::Start(pos)).map_err(|e| e.to_string())?;
                        ObjectDesc::create_from_stream(Box::new(c), &o.ctype, &url, !cfg.no_md5, o.transfer_config()?)
                    }
                    _ => {
                        let mut c = std::io::Cursor::new(data.into_boxed_slice());
                        c.seek(std::io::SeekFrom::Start(pos)).map_err(|e| e.to_string())?;
                        ObjectDesc::create_from_stream(Box::new(c), &o.ctype, &url, !cfg.no_md5, o.transfer_config()?)
                    }
                }
                .map_err(|e| e.0.to_string())?;
                emit(cfg, desc)
            });
            match r {
                Ok(Ok(got)) => obs.violation = compare(cfg, mode, &got, want),
                Ok(Err(e)) => {
                    if e.starts_with("add_object") {
                        obs.refused = true;
                    } else {
                        obs.violation = Some(("C20/stream-session-failed".into(), e));
                    }
                }
                Err(p) => obs.violation = Some((format!("C20/panic/{}", panic_sig(&p)), format!("panic: {}", p))),
            }
            obs
        }
        _ => {
            // real temp file, through create_from_file (not cached in RAM) or a BufReader with a tiny buffer
            let mut obs = Obs::default();
            let dir = crate::c01::fresh_tmp("c20");
            let r = catch(|| -> Result<Vec<Vec<u8>>, String> {
                let o = spec(cfg);
                let p = dir.join("src.bin");
                std::fs::write(&p, o.content()).map_err(|e| e.to_string())?;
                let url = url::Url::parse(&o.location).unwrap();
                let desc = if mode == "file-ram" {
                    ObjectDesc::create_from_file(&p, Some(&url), &o.ctype, true, !cfg.no_md5, o.transfer_config()?).map_err(|e| e.0.to_string())?
                } else if mode == "builder-file" {
                    flute::sender::CreateFromFile::builder().path(p.clone()).content_location(Some(url.clone())).content_type(o.ctype.clone()).cache_in_ram(cfg.len % 2 == 0).compute_md5(!cfg.no_md5).config(o.transfer_config()?).build().create().map_err(|e| e.0.to_string())?
                } else if mode == "builder-buffer" {
                    flute::sender::CreateFromBuffer::builder().content(o.content()).content_location(url.clone()).content_type(o.ctype.clone()).compute_md5(!cfg.no_md5).config(o.transfer_config()?).build().create().map_err(|e| e.0.to_string())?
                } else if mode == "builder-stream" {
                    let f = std::fs::File::open(&p).map_err(|e| e.to_string())?;
                    flute::sender::CreateFromStream::builder().stream(Box::new(f)).content_location(url.clone()).content_type(o.ctype.clone()).compute_md5(!cfg.no_md5).config(o.transfer_config()?).build().create().map_err(|e| e.0.to_string())?
                } else if mode == "file" {
                    ObjectDesc::create_from_file(&p, Some(&url), &o.ctype, false, !cfg.no_md5, o.transfer_config()?).map_err(|e| e.0.to_string())?
                } else {
                    use std::io::Seek;
                    let f = std::fs::File::open(&p).map_err(|e| e.to_string())?;
                    let mut br = std::io::BufReader::with_capacity(3, f);
                    let len = o.content().len() as u64;
                    let pos = match cfg.start_pos {
                        0 => 0,
                        1 => 1.min(len),
                        2 => len / 2,
                        _ => len,
                    };
                    br.seek(std::io::SeekFrom::Start(pos)).map_err(|e| e.to_string())?;
                    ObjectDesc::create_from_stream(Box::new(br), &o.ctype, &url, !cfg.no_md5, o.transfer_config()?).map_err(|e| e.0.to_string())?
                };
                emit(cfg, desc)
            });
            std::fs::remove_dir_all(&dir).ok();
            match r {
                Ok(Ok(got)) => obs.violation = compare(cfg, mode, &got, want),
                Ok(Err(e)) => {
                    if e.starts_with("add_object") {
                        obs.refused = true;
                    } else {
                        obs.violation = Some(("C20/file-session-failed".into(), e));
                    }
                }
                Err(p) => obs.violation = Some((format!("C20/panic/{}", panic_sig(&p)), format!("panic: {}", p))),
            }
            obs
        }
    }
}

pub fn replay(v: &serde_json::Value) -> Vec<Violation> {
    let c: Case = serde_json::from_value(v["case"].clone()).expect("case");
    let want = match reference(&c.cfg) {
        Ok(w) => w,
        Err(e) => return vec![Violation { key: "C20/harness".into(), what: e, case: v.clone() }],
    };
    let o = if c.mode == "choices" { body(&c.cfg, &want, &mut Chooser::replay(c.choices.clone())) } else { run_fixed(&c.cfg, &want, &c.mode) };
    o.violation.into_iter().map(|(key, what)| Violation { key, what, case: v.clone() }).collect()
}

pub fn configs(thorough: bool) -> Vec<Cfg> {
    let mut v = Vec::new();
    for scheme in ALL_SCHEMES {
        let ebs: Vec<(u16, u16)> = match scheme {
            Scheme::Raptor => vec![(1, 4), (2, 5)],
            _ => vec![(1, 1), (3, 2), (4, 3)],
        };
        for (e, b) in ebs {
            let parity = if scheme == Scheme::NoCode { 0 } else { 1 };
            let lmax = 3 * e as usize * b as usize + 2;
            for len in 0..=lmax {
                if !thorough && scheme != Scheme::NoCode && len % 2 == 1 && len + 3 < lmax {
                    continue;
                }
                for count in [1u32, 2] {
                    for interleave in [1u8, 2] {
                        if interleave == 2 && (count == 2 || !thorough && scheme != Scheme::NoCode) {
                            continue;
                        }
                        v.push(Cfg { scheme, e, b, parity, len, count, interleave, carousel: 0, no_md5: false, start_pos: 0 });
                        // streams handed over at another position than their start, with and without the MD5 pass
                        if interleave == 1 && (thorough || scheme == Scheme::NoCode || len % 2 == 0) {
                            for start_pos in 0..4u8 {
                                for no_md5 in [true, false] {
                                    if start_pos == 0 && !no_md5 {
                                        continue;
                                    }
                                    if !thorough && (start_pos as usize + len + no_md5 as usize) % 2 == 0 && start_pos != 2 {
                                        continue;
                                    }
                                    v.push(Cfg { scheme, e, b, parity, len, count, interleave, carousel: 0, no_md5, start_pos });
                                }
                            }
                        }
                        // carousel turns: the source is re-read from its start in every transfer of every turn
                        if interleave == 1 && (thorough || len % 3 == 0 || len == lmax) {
                            v.push(Cfg { scheme, e, b, parity, len, count, interleave, carousel: 1 + (len % 2) as u8, no_md5: len % 4 == 1, start_pos: 0 });
                        }
                    }
                }
            }
        }
    }
    v
}

pub fn run(thorough: bool) -> i32 {
    let mut rep = Report::new("C20", "model_checking", if thorough { "thorough" } else { "quick" });
    let bound = if thorough { 3 } else { 2 };
    let cfgs = configs(thorough);
    let results = par_map(&cfgs, |_, cfg| {
        let mut out: Vec<(Case, Obs)> = Vec::new();
        let want = match reference(cfg) {
            Ok(w) => w,
            Err(e) => {
                let refused = e.starts_with("add_object");
                out.push((Case { cfg: cfg.clone(), mode: "reference".into(), choices: vec![] }, Obs { refused, violation: if refused { None } else { Some(("C20/harness".into(), e)) }, ..Default::default() }));
                return (out, 0u64, 0u64, false);
            }
        };
        for mode in ["one", "two", "e+1", "alt", "file", "bufreader", "cursor", "cursor-bufreader", "take-chain", "file-ram", "builder-file", "builder-buffer", "builder-stream"] {
            out.push((Case { cfg: cfg.clone(), mode: mode.into(), choices: vec![] }, run_fixed(cfg, &want, mode)));
        }
        // deviation-bounded exploration of per-read sizes, single-threaded inside this worker
        let found = Mutex::new(Vec::new());
        let st = explore_seq(bound, 200_000, |ch| body(cfg, &want, ch), |choices, o: Obs| found.lock().unwrap().push((choices.to_vec(), o)));
        for (choices, o) in found.into_inner().unwrap() {
            out.push((Case { cfg: cfg.clone(), mode: "choices".into(), choices }, o));
        }
        (out, st.executions, st.choice_points, st.capped)
    });
    let mut execs = 0u64;
    let mut points = 0u64;
    let mut short = 0u64;
    let mut refused = 0u64;
    let mut capped = false;
    let mut multi = 0u64;
    let mut outcomes = std::collections::BTreeSet::new();
    for (out, ex, pts, cap) in results {
        execs += ex + 6;
        points += pts;
        capped |= cap;
        for (case, o) in out {
            short += o.short as u64;
            if o.refused {
                refused += 1;
            }
            if o.short > 0 && case.cfg.count > 1 {
                multi += 1;
            }
            outcomes.insert(h64(&(case.cfg.len, case.cfg.e, case.cfg.b, o.reads, o.short)));
            if let Some((key, what)) = o.violation {
                rep.add(Violation { key, what, case: json!({"check": "source", "case": serde_json::to_value(&case).unwrap()}) });
            }
        }
    }
    rep.cov("states", outcomes.len() as u64);
    rep.cov("transitions", points);
    rep.cov("traces_validated_against_impl", execs);
    rep.cov("evaluations", execs);
    rep.cov("distinct_nontrivial", outcomes.len() as u64);
    rep.cov("explanation", "states = distinct (object, read count, short-read count) observations; transitions = read calls whose returned size was an explorer choice among {everything, 1, 2, E+1}; each execution runs a real Sender fed by the harness stream and compares its packet sequence byte for byte with the same Sender fed the same bytes as a buffer");
    rep.cov("exhaustive", !capped);
    rep.cov("deviation_bound_completed", bound as u64);
    rep.cov("configs", cfgs.len() as u64);
    rep.cov("refused_by_add_object", refused);
    rep.guard("short_reads_injected", short);
    rep.guard("short_reads_in_multi_transfer_sessions", multi);
    rep.sample(json!({"cfg": cfgs[cfgs.len() / 2], "mode": "choices", "choices": [0, 2, 0, 1], "meaning": "per read call: 0 = as much as requested, 1 = 1 byte, 2 = 2 bytes, 3 = E+1 bytes"}));
    rep.assume("read-size alphabet {everything, 1, 2, E+1}; at most `deviation_bound_completed` non-default answers per execution, plus six fixed patterns (1-byte, 2-byte, E+1, alternating, File, BufReader<File> with a 3-byte buffer); EXT_TIME is switched off so that packets can be compared byte for byte");
    rep.finish()
}
