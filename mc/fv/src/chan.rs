//! Recorded sessions and harness-controlled channels (loss, duplication, reordering, corruption).
#![allow(dead_code)]
use crate::monitor::*;
use crate::rfc;
use crate::sess::*;
use crate::util::*;
use serde::{Deserialize, Serialize};
use std::time::SystemTime;

#[derive(Clone, Debug)]
pub struct PInfo {
    pub toi: u128,
    pub sbn: u32,
    pub esi: u32,
    pub b: bool,
    pub fdt_id: Option<u32>,
    pub payload_len: usize,
    pub hdr_len: usize,
}

#[derive(Clone, Debug)]
pub struct Rec {
    pub pkts: Vec<(SystemTime, Vec<u8>)>,
    pub info: Vec<PInfo>,
    /// (toi, spec index, transfer_length)
    pub objs: Vec<(u128, usize, u64)>,
}

pub fn info_of(p: &[u8]) -> Option<PInfo> {
    let r = rfc::decode(p).ok()?;
    let (sbn, esi, _, idl) = r.payload_id(8).ok()?;
    Some(PInfo {
        toi: r.toi,
        sbn,
        esi,
        b: r.b,
        fdt_id: r.fdt().map(|f| f.1),
        payload_len: r.rest.len() - idl,
        hdr_len: p.len() - (r.rest.len() - idl),
    })
}

#[derive(Clone, Debug, Serialize, Deserialize, PartialEq)]
pub struct RecSpec {
    pub sess: SessSpec,
    pub objs: Vec<ObjSpec>,
    /// instants (ms) at which the sender is drained; the first one is also the publish instant
    pub polls_ms: Vec<u64>,
}

/// Run a real sender and record everything it emits.
pub fn record(spec: &RecSpec) -> Result<Rec, String> {
    // the sender runs under the subject guard: a panic inside it is a verdict (the report turns an error text that
    // starts with SUBJECT-PANIC into a violation), not a harness failure. The panicked sender is leaked.
    match catch(|| record_inner(spec)) {
        Ok(r) => r,
        Err(p) => Err(format!("SUBJECT-PANIC: the sender panicked while the session was recorded: {} [session {}]", p, serde_json::to_string(spec).unwrap_or_default())),
    }
}

fn record_inner(spec: &RecSpec) -> Result<Rec, String> {
    let s = spec.sess.sender()?;
    let mut s = std::mem::ManuallyDrop::new(s);
    let r = record_with(&mut s, spec);
    // (reached only without a panic)
    unsafe { std::mem::ManuallyDrop::drop(&mut s) };
    r
}

fn record_with(s: &mut flute::sender::Sender, spec: &RecSpec) -> Result<Rec, String> {
    let mut objs = Vec::new();
    for (i, o) in spec.objs.iter().enumerate() {
        let d = o.desc(None)?;
        let tl = d.transfer_length;
        let toi = add_tallied(s, o.prio, d, &spec.sess.oti).map_err(|e| format!("add_object: {}", e.0))?;
        objs.push((toi, i, tl));
    }
    let mut pkts = Vec::new();
    let first = spec.polls_ms.first().copied().unwrap_or(0);
    if spec.sess.full_fdt {
        s.publish(at_ms(first)).map_err(|e| format!("publish: {}", e.0))?;
    }
    for ms in &spec.polls_ms {
        if !drain(s, at_ms(*ms), &mut pkts, 100_000) {
            return Err("sender not quiescent".into());
        }
    }
    let mut info = Vec::new();
    for (_, p) in &pkts {
        info.push(info_of(p).ok_or("harness cannot decode an emitted packet")?);
    }
    Ok(Rec { pkts, info, objs })
}

impl Rec {
    pub fn fdt_idx(&self) -> Vec<usize> {
        (0..self.pkts.len()).filter(|i| self.info[*i].toi == 0).collect()
    }
    pub fn obj_idx(&self, toi: u128) -> Vec<usize> {
        (0..self.pkts.len()).filter(|i| self.info[*i].toi == toi).collect()
    }
}

pub struct Outcome {
    pub writers: Vec<WriterLog>,
    pub fdts: usize,
    pub errs: Vec<(usize, String)>,
    pub panic: Option<String>,
}

/// Deliver the given packets (by reference) into a fresh receiver and return what the writers saw
/// (the receiver is dropped before the logs are read, so Drop-time terminal calls are included).
pub fn deliver_seq(pkts: &[(SystemTime, &[u8])], cfg: flute::receiver::Config, md5: bool) -> Outcome {
    let mon = Mon::new(md5);
    let mut rx = flute::receiver::MultiReceiver::new(mon.builder(), Some(cfg), false);
    let ep = endpoint();
    let mut errs = Vec::new();
    let mut panic = None;
    for (i, (t, p)) in pkts.iter().enumerate() {
        match catch(|| rx.push(&ep, p, *t)) {
            Ok(Ok(())) => {}
            Ok(Err(e)) => errs.push((i, e.0.to_string())),
            Err(p) => {
                panic = Some(p);
                break;
            }
        }
    }
    if panic.is_some() {
        std::mem::forget(rx);
    } else if let Err(p) = catch(move || drop(rx)) {
        panic = Some(p);
    }
    Outcome { writers: mon.writers(), fdts: mon.fdts().len(), errs, panic }
}
