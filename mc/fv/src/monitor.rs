//! Monitoring ObjectWriterBuilder / ObjectWriter: full call log per writer, typestate automaton,
//! harness-decided answers (fault plan) for builder, open and write.
#![allow(dead_code)]
use flute::core::UDPEndpoint;
use flute::receiver::writer::{
    ObjectCacheControl, ObjectMetadata, ObjectWriter, ObjectWriterBuilder, ObjectWriterBuilderResult,
};
use std::cell::RefCell;
use std::rc::Rc;
use std::time::SystemTime;

#[derive(Clone, Debug, PartialEq)]
pub enum Call {
    Open(bool),
    Write(u32, Vec<u8>, bool),
    Complete,
    Error,
    Interrupted,
}

#[derive(Clone, Debug)]
pub struct WriterLog {
    pub endpoint: UDPEndpoint,
    pub tsi: u64,
    pub toi: u128,
    pub meta: ObjectMetadata,
    pub created_at: SystemTime,
    pub calls: Vec<Call>,
}

#[derive(Clone, Debug)]
pub struct FdtLog {
    pub endpoint: UDPEndpoint,
    pub tsi: u64,
    pub xml: String,
    pub expires: SystemTime,
    pub now: SystemTime,
    pub ext_time: Option<SystemTime>,
}

/// question asked to the fault plan
#[derive(Clone, Copy, Debug, PartialEq)]
pub enum Ask {
    /// 0 = StoreObject, 1 = ObjectAlreadyReceived, 2 = Abort
    Builder,
    /// 0 = Ok, 1 = Err
    Open,
    /// 0 = Ok, 1 = Err
    Write,
}

pub type Plan = Rc<RefCell<dyn FnMut(Ask) -> u32>>;

pub struct MonInner {
    pub writers: RefCell<Vec<WriterLog>>,
    pub fdts: RefCell<Vec<FdtLog>>,
    pub cache_updates: RefCell<Vec<(u128, ObjectCacheControl)>>,
    pub builder_calls: RefCell<Vec<(u128, u32)>>,
    pub md5_check: bool,
    pub plan: RefCell<Option<Plan>>,
}

#[derive(Clone)]
pub struct Mon(pub Rc<MonInner>);

impl Mon {
    pub fn new(md5_check: bool) -> Mon {
        Mon(Rc::new(MonInner {
            writers: RefCell::new(Vec::new()),
            fdts: RefCell::new(Vec::new()),
            cache_updates: RefCell::new(Vec::new()),
            builder_calls: RefCell::new(Vec::new()),
            md5_check,
            plan: RefCell::new(None),
        }))
    }
    pub fn with_plan(md5_check: bool, plan: Plan) -> Mon {
        let m = Mon::new(md5_check);
        *m.0.plan.borrow_mut() = Some(plan);
        m
    }
    pub fn builder(&self) -> Rc<dyn ObjectWriterBuilder> {
        Rc::new(MonBuilder(self.0.clone()))
    }
    pub fn writers(&self) -> Vec<WriterLog> {
        self.0.writers.borrow().clone()
    }
    pub fn fdts(&self) -> Vec<FdtLog> {
        self.0.fdts.borrow().clone()
    }
}

fn ask(inner: &MonInner, q: Ask) -> u32 {
    let p = inner.plan.borrow().clone();
    match p {
        Some(p) => (p.borrow_mut())(q),
        None => 0,
    }
}

struct MonBuilder(Rc<MonInner>);
struct MonWriter {
    inner: Rc<MonInner>,
    idx: usize,
}

impl ObjectWriterBuilder for MonBuilder {
    fn new_object_writer(
        &self,
        endpoint: &UDPEndpoint,
        tsi: &u64,
        toi: &u128,
        meta: &ObjectMetadata,
        now: SystemTime,
    ) -> ObjectWriterBuilderResult {
        let d = ask(&self.0, Ask::Builder);
        self.0.builder_calls.borrow_mut().push((*toi, d));
        match d {
            1 => return ObjectWriterBuilderResult::ObjectAlreadyReceived,
            2 => return ObjectWriterBuilderResult::Abort,
            _ => {}
        }
        let mut w = self.0.writers.borrow_mut();
        let idx = w.len();
        w.push(WriterLog {
            endpoint: endpoint.clone(),
            tsi: *tsi,
            toi: *toi,
            meta: meta.clone(),
            created_at: now,
            calls: Vec::new(),
        });
        ObjectWriterBuilderResult::StoreObject(Box::new(MonWriter { inner: self.0.clone(), idx }))
    }
    fn update_cache_control(&self, _e: &UDPEndpoint, _tsi: &u64, toi: &u128, meta: &ObjectMetadata, _now: SystemTime) {
        self.0.cache_updates.borrow_mut().push((*toi, meta.cache_control));
    }
    fn fdt_received(
        &self,
        endpoint: &UDPEndpoint,
        tsi: &u64,
        fdt_xml: &str,
        expires: SystemTime,
        _meta: &ObjectMetadata,
        _transfer_duration: std::time::Duration,
        now: SystemTime,
        ext_time: Option<SystemTime>,
    ) {
        self.0.fdts.borrow_mut().push(FdtLog {
            endpoint: endpoint.clone(),
            tsi: *tsi,
            xml: fdt_xml.to_string(),
            expires,
            now,
            ext_time,
        });
    }
}

impl MonWriter {
    fn log(&self, c: Call) {
        self.inner.writers.borrow_mut()[self.idx].calls.push(c);
    }
}

impl ObjectWriter for MonWriter {
    fn open(&self, _now: SystemTime) -> flute::error::Result<()> {
        let ok = ask(&self.inner, Ask::Open) == 0;
        self.log(Call::Open(ok));
        if ok {
            Ok(())
        } else {
            Err(flute::error::FluteError(std::io::Error::new(std::io::ErrorKind::Other, "injected open failure")))
        }
    }
    fn write(&self, sbn: u32, data: &[u8], _now: SystemTime) -> flute::error::Result<()> {
        let ok = ask(&self.inner, Ask::Write) == 0;
        self.log(Call::Write(sbn, data.to_vec(), ok));
        if ok {
            Ok(())
        } else {
            Err(flute::error::FluteError(std::io::Error::new(std::io::ErrorKind::Other, "injected write failure")))
        }
    }
    fn complete(&self, _now: SystemTime) {
        self.log(Call::Complete);
    }
    fn error(&self, _now: SystemTime) {
        self.log(Call::Error);
    }
    fn interrupted(&self, _now: SystemTime) {
        self.log(Call::Interrupted);
    }
    fn enable_md5_check(&self) -> bool {
        self.inner.md5_check
    }
}

// ------------------------------------------------------------------------------------------------
// analysis of a writer log

#[derive(Clone, Debug, PartialEq)]
pub enum Terminal {
    None,
    Complete,
    Error,
    Interrupted,
}

impl WriterLog {
    /// concatenation of the data of all write calls (accepted or refused), in call order
    pub fn data(&self) -> Vec<u8> {
        let mut v = Vec::new();
        for c in &self.calls {
            if let Call::Write(_, d, _) = c {
                v.extend_from_slice(d);
            }
        }
        v
    }
    pub fn terminal(&self) -> Terminal {
        for c in &self.calls {
            match c {
                Call::Complete => return Terminal::Complete,
                Call::Error => return Terminal::Error,
                Call::Interrupted => return Terminal::Interrupted,
                _ => {}
            }
        }
        Terminal::None
    }
    pub fn is_complete(&self) -> bool {
        self.terminal() == Terminal::Complete
    }
    /// Typestate automaton of C09: Idle -open-> Opened -write*-> Opened -(terminal)-> Done.
    /// After a failed open only a terminal call may follow. Returns the first protocol breach.
    pub fn protocol_breach(&self) -> Option<String> {
        #[derive(PartialEq)]
        enum St {
            Idle,
            Opened,
            OpenFailed,
            Done,
        }
        let mut st = St::Idle;
        for (i, c) in self.calls.iter().enumerate() {
            let name = match c {
                Call::Open(_) => "open",
                Call::Write(..) => "write",
                Call::Complete => "complete",
                Call::Error => "error",
                Call::Interrupted => "interrupted",
            };
            match (&st, c) {
                (St::Idle, Call::Open(true)) => st = St::Opened,
                (St::Idle, Call::Open(false)) => st = St::OpenFailed,
                (St::Idle, _) => return Some(format!("{}-before-open", name)),
                (St::Opened, Call::Write(..)) => {}
                (St::Opened, Call::Open(_)) => return Some("open-twice".into()),
                (St::Opened, _) => st = St::Done,
                (St::OpenFailed, Call::Complete) => return Some("complete-after-failed-open".into()),
                (St::OpenFailed, Call::Error) | (St::OpenFailed, Call::Interrupted) => st = St::Done,
                (St::OpenFailed, _) => return Some(format!("{}-after-failed-open", name)),
                (St::Done, _) => return Some(format!("{}-after-terminal(call#{})", name, i)),
            }
        }
        None
    }
    pub fn opened(&self) -> bool {
        self.calls.iter().any(|c| matches!(c, Call::Open(_)))
    }
    pub fn short(&self) -> String {
        let mut s = String::new();
        for c in &self.calls {
            match c {
                Call::Open(true) => s.push('O'),
                Call::Open(false) => s.push('o'),
                Call::Write(_, d, true) => s.push_str(&format!("W{}", d.len())),
                Call::Write(_, d, false) => s.push_str(&format!("w{}", d.len())),
                Call::Complete => s.push('C'),
                Call::Error => s.push('E'),
                Call::Interrupted => s.push('I'),
            }
            s.push(' ');
        }
        s.trim_end().to_string()
    }
}
