//! Verdict plumbing: violations with signatures, known-findings matching, replay files, evidence.
use serde_json::{json, Map, Value};
use std::collections::BTreeMap;
use std::time::Instant;

pub const VERIF_DIR: &str = "/verif";

static OUT_FD: std::sync::atomic::AtomicI32 = std::sync::atomic::AtomicI32::new(1);
pub fn set_out_fd(fd: i32) {
    OUT_FD.store(fd, std::sync::atomic::Ordering::SeqCst);
}
/// print one line on the real stdout (fd 1 itself is redirected to /dev/null, see main.rs)
pub fn outln(s: &str) {
    use std::io::Write;
    use std::os::fd::FromRawFd;
    let fd = OUT_FD.load(std::sync::atomic::Ordering::SeqCst);
    let mut f = unsafe { std::fs::File::from_raw_fd(fd) };
    let _ = writeln!(f, "{}", s);
    std::mem::forget(f);
}

#[derive(Clone, Debug)]
pub struct Violation {
    /// signature: violated clause + minimal distinguishing coordinates (matched against known findings)
    pub key: String,
    /// human readable description of observed vs expected
    pub what: String,
    /// the replayable case: {"check": <name>, "case": {...}}
    pub case: Value,
}

pub struct Report {
    pub id: &'static str,
    pub tier: String,
    pub seed: i64,
    pub level: &'static str,
    pub start: Instant,
    /// first violation per signature + count
    pub viol: BTreeMap<String, (Violation, u64)>,
    pub coverage: Map<String, Value>,
    pub assumptions: Vec<String>,
    pub machinery_errors: Vec<String>,
    pub samples: Vec<Value>,
}

impl Report {
    pub fn new(id: &'static str, level: &'static str, tier: &str) -> Report {
        let seed = std::env::var("VERIF_SEED").ok().and_then(|s| s.parse().ok()).unwrap_or(0);
        Report {
            id,
            tier: tier.to_string(),
            seed,
            level,
            start: Instant::now(),
            viol: BTreeMap::new(),
            coverage: Map::new(),
            assumptions: Vec::new(),
            machinery_errors: Vec::new(),
            samples: Vec::new(),
        }
    }
    pub fn add(&mut self, v: Violation) {
        self.viol.entry(v.key.clone()).and_modify(|e| e.1 += 1).or_insert((v, 1));
    }
    pub fn add_all(&mut self, vs: impl IntoIterator<Item = Violation>) {
        for v in vs {
            self.add(v);
        }
    }
    pub fn cov(&mut self, k: &str, v: impl Into<Value>) {
        self.coverage.insert(k.to_string(), v.into());
    }
    pub fn cov_add(&mut self, k: &str, n: u64) {
        let cur = self.coverage.get(k).and_then(|v| v.as_u64()).unwrap_or(0);
        self.coverage.insert(k.to_string(), json!(cur + n));
    }
    pub fn sample(&mut self, v: Value) {
        if self.samples.len() < 6 {
            self.samples.push(v);
        }
    }
    pub fn assume(&mut self, s: &str) {
        self.assumptions.push(s.to_string());
    }
    /// a vacuity guard: the named mechanism must have been exercised at least once
    pub fn guard(&mut self, name: &str, count: u64) {
        self.coverage.insert(format!("guard_{}", name), json!(count));
        if count == 0 {
            self.machinery_errors.push(format!("vacuity guard '{}' is 0", name));
        }
    }
    pub fn machinery(&mut self, s: String) {
        // a panic of the subject caught while a session was being prepared is a verdict, not a machinery error
        if let Some(i) = s.find("SUBJECT-PANIC: ") {
            let msg = &s[i + 15..];
            let key = format!("{}/panic/{}", self.id, crate::util::panic_sig(msg.split(" [session ").next().unwrap_or(msg).rsplit("recorded: ").next().unwrap_or(msg)));
            self.add(Violation { key, what: s.clone(), case: json!({"check": "record-context", "case": {"text": s}}) });
            return;
        }
        self.machinery_errors.push(s);
    }

    /// Writes evidence, prints KNOWN-FINDING / VIOLATION lines, returns the process exit code.
    pub fn finish(mut self) -> i32 {
        // per-scheme acceptance: every FEC scheme the check offered to add_object must have been accepted at least
        // once, otherwise the check says nothing about that scheme (a refusal is allowed by the properties)
        let tally = crate::util::tally_snapshot();
        if !tally.is_empty() {
            let m: serde_json::Map<String, Value> = tally.iter().map(|(id, ok, no)| (format!("fec_id_{}", id), json!({"accepted": ok, "refused": no}))).collect();
            self.coverage.insert("add_object_per_scheme".into(), Value::Object(m));
            for (id, ok, _) in &tally {
                self.guard(&format!("objects_accepted_fec_id_{}", id), *ok);
            }
        }
        let known = load_known(self.id);
        let mut new_viol = 0;
        let mut known_hit = 0;
        let mut lines = Vec::new();
        for (key, (v, count)) in &self.viol {
            if let Some(what) = known.iter().find(|(k, _)| k == key).map(|(_, w)| w.clone()) {
                known_hit += 1;
                lines.push(format!(
                    "KNOWN-FINDING: property={} {} [{}; {} case(s) this run; e.g. {}]",
                    self.id,
                    what,
                    key,
                    count,
                    truncate(&v.what, 160)
                ));
            } else {
                new_viol += 1;
                let path = write_replay(self.id, v);
                lines.push(format!("VIOLATION property={} replay={}", self.id, path));
                lines.push(format!("  signature: {}  ({} case(s))", key, count));
                lines.push(format!("  what: {}", truncate(&v.what, 400)));
            }
        }
        let wall = self.start.elapsed().as_secs_f64();
        self.coverage.insert("samples".into(), Value::Array(self.samples.clone()));
        self.coverage.insert("known_findings_hit".into(), json!(known_hit));
        if !self.machinery_errors.is_empty() {
            self.coverage.insert("machinery_errors".into(), json!(self.machinery_errors));
        }
        let ev = json!({
            "property_id": self.id,
            "tier": self.tier,
            "seed": self.seed,
            "level": self.level,
            "coverage": Value::Object(self.coverage.clone()),
            "assumptions": self.assumptions,
            "wall_s": (wall * 1000.0).round() / 1000.0,
            "violations": new_viol,
        });
        let dir = format!("{}/evidence", VERIF_DIR);
        std::fs::create_dir_all(&dir).ok();
        let path = format!("{}/{}.json", dir, self.id);
        std::fs::write(&path, serde_json::to_string_pretty(&ev).unwrap() + "\n").expect("write evidence");
        for l in &lines {
            outln(l);
        }
        outln(&format!(
            "{} tier={} wall={:.1}s violations={} known={} evidence={}",
            self.id, self.tier, wall, new_viol, known_hit, path
        ));
        if !self.machinery_errors.is_empty() {
            for m in &self.machinery_errors {
                eprintln!("MACHINERY-ERROR {}: {}", self.id, m);
            }
            if new_viol == 0 {
                return 2;
            }
        }
        if new_viol > 0 {
            1
        } else {
            0
        }
    }
}

fn truncate(s: &str, n: usize) -> String {
    if s.len() <= n {
        s.to_string()
    } else {
        let mut e = n;
        while !s.is_char_boundary(e) {
            e -= 1;
        }
        format!("{}…", &s[..e])
    }
}

/// known_findings.json: [{"property","key","status":"known"|"fixed","commit"?,"what"}]
/// Only status == "known" suppresses; the file is never written at run time.
fn load_known(id: &str) -> Vec<(String, String)> {
    let path = format!("{}/known_findings.json", VERIF_DIR);
    let txt = match std::fs::read_to_string(&path) {
        Ok(t) => t,
        Err(_) => return vec![],
    };
    let v: Value = serde_json::from_str(&txt).expect("known_findings.json is not valid JSON");
    v.as_array()
        .map(|a| {
            a.iter()
                .filter(|e| e["property"] == id && e["status"] == "known")
                .map(|e| (e["key"].as_str().unwrap_or("").to_string(), e["what"].as_str().unwrap_or("").to_string()))
                .collect()
        })
        .unwrap_or_default()
}

fn write_replay(id: &str, v: &Violation) -> String {
    let dir = format!("{}/replays", VERIF_DIR);
    std::fs::create_dir_all(&dir).ok();
    let body = json!({"property": id, "signature": v.key, "what": v.what, "replay": v.case});
    let txt = serde_json::to_string_pretty(&body).unwrap();
    let h = crate::util::h64(&v.key);
    let path = format!("{}/{}-{:016x}.json", dir, id, h);
    std::fs::write(&path, txt + "\n").ok();
    path
}
