//! C12 — transfer lifecycle: exact transfer counts, removal semantics, reads terminate.
//! Engine: E2 explicit-state BFS over the real Sender (statex).
use crate::report::*;
use crate::sendsys::*;
use crate::sess::*;
use crate::statex::*;
use crate::util::*;
use serde::{Deserialize, Serialize};
use serde_json::json;
use std::collections::BTreeMap;
use std::sync::Arc;

#[derive(Serialize, Deserialize, Clone, Debug)]
pub struct Cfg {
    pub count: u32,
    /// 0 none, 1 delay 1000 ms, 2 interval 1500 ms, 3 delay 0, 4 interval 0
    pub carousel: u8,
    pub immediate_stop: bool,
    pub full_fdt: bool,
    /// multiplex_files of the single queue (0 = default 1): with 2 both objects are in transmission at once
    #[serde(default)]
    pub multiplex: u32,
    /// the first object comes from a stream (no MD5 pass) instead of a buffer
    #[serde(default)]
    pub stream: bool,
    /// the search starts from a non-initial state: 1 = both objects added (and published), 2 = ... then three packets read
    /// and the clock advanced by one tick (objects in the middle of / between transfers)
    #[serde(default)]
    pub prefix: u8,
    /// the second object is sent under Reed-Solomon GF(2^8) with one repair symbol per block (a transfer then has
    /// more packets than source symbols: the lifecycle must not depend on the scheme)
    #[serde(default)]
    pub fec: bool,
}

pub const TICK: u64 = 500;

pub fn catalog(c: &Cfg) -> Vec<ObjSpec> {
    let mut o0 = ObjSpec::simple(11, 1);
    o0.oti = Some(OtiSpec::new(Scheme::NoCode, 4, 2, 0, true));
    o0.count = c.count;
    o0.carousel = match c.carousel {
        1 => Some(Carousel::Delay(1000)),
        2 => Some(Carousel::Interval(1500)),
        3 => Some(Carousel::Delay(0)),
        4 => Some(Carousel::Interval(0)),
        _ => None,
    };
    o0.immediate_stop = if c.immediate_stop { Some(true) } else { None };
    if c.stream {
        o0.source = Source::Stream(3);
        o0.md5 = false;
    }
    let mut o1 = ObjSpec::simple(6, 2);
    o1.oti = Some(OtiSpec::new(Scheme::NoCode, 4, 2, 0, true));
    o1.count = 2;
    if c.fec {
        o1.oti = Some(OtiSpec::new(Scheme::Rs28, 4, 2, 1, true));
    }
    // an explicit refusal of the immediate stop must behave like the default
    o1.immediate_stop = Some(false);
    vec![o0, o1]
}

pub fn sess(c: &Cfg) -> SessSpec {
    let mut s = SessSpec::basic(OtiSpec::new(Scheme::NoCode, 1424, 64, 0, true));
    s.full_fdt = c.full_fdt;
    s.queues = vec![(0, c.multiplex.max(1))];
    s
}

#[derive(Default, Debug, Clone, PartialEq, Eq, Hash)]
pub struct ObjM {
    pub starts: u32,
    pub stops: u32,
    pub open: bool,
    pub pkts_in_open: u32,
    pub added: bool,
    pub published: bool,
    pub removed: bool,
    /// at removal: (was in transfer, stops so far)
    pub rm: Option<(bool, u32)>,
    pub pkts_after_rm: u32,
    pub flagged_after_rm: u32,
    pub starts_after_rm: u32,
    pub last_start_ms: Option<u64>,
    pub last_stop_ms: Option<u64>,
    /// explicit trigger since the last transfer ended: carousel gap no longer binds
    pub triggered: bool,
    pub not_before_ms: Option<i64>,
    pub wire_complete: u32,
}

#[derive(Default, Debug, Clone, PartialEq, Eq, Hash)]
pub struct Mon12 {
    pub o: Vec<ObjM>,
    pub violation: Option<(String, String)>,
    pub wit_rm_first: bool,
    pub wit_rm_middle: bool,
    pub wit_rm_last: bool,
    pub wit_carousel3: bool,
    pub wit_finished: bool,
}

pub fn monitor(log: &[Item], cat: &[ObjSpec], toi_of: &[Option<u128>], full_fdt: bool) -> Mon12 {
    let mut m = Mon12 { o: vec![ObjM::default(); cat.len()], ..Default::default() };
    let k_of = |t: u128| toi_of.iter().position(|x| *x == Some(t));
    // packets per transfer: source symbols plus the repair symbols of every block
    let per_transfer: Vec<u32> = cat
        .iter()
        .map(|o| {
            let oti = o.oti.as_ref().unwrap();
            let src = (o.len as u32).div_ceil(oti.e as u32);
            (src + oti.parity as u32 * src.div_ceil((oti.b as u32).max(1))).max(1)
        })
        .collect();
    let mut viol = |m: &mut Mon12, k: &str, w: String| {
        if m.violation.is_none() {
            m.violation = Some((k.to_string(), w));
        }
    };
    for it in log {
        match it {
            Item::Api(Ev::Add(k), r) => {
                if r.starts_with("toi=") {
                    m.o[*k].added = true;
                    if !full_fdt {
                        m.o[*k].published = true;
                    }
                }
            }
            Item::Api(Ev::Publish, r) if r == "true" => {
                for o in m.o.iter_mut() {
                    if o.added && !o.removed {
                        o.published = true;
                    }
                }
            }
            Item::Api(Ev::Remove(k), r) if r == "true" => {
                let o = &mut m.o[*k];
                o.removed = true;
                o.rm = Some((o.open, o.stops));
                if o.open {
                    let n = per_transfer[*k];
                    if o.pkts_in_open <= 1 {
                        m.wit_rm_first = true;
                    } else if o.pkts_in_open >= n {
                        m.wit_rm_last = true;
                    } else {
                        m.wit_rm_middle = true;
                    }
                }
            }
            Item::Api(Ev::Trigger(k, t), r) if r == "true" => {
                let o = &mut m.o[*k];
                if !o.open {
                    o.triggered = true;
                    if let Some(t) = t {
                        o.not_before_ms = Some(*t);
                    }
                }
            }
            Item::Api(Ev::Drain, r) if r == "NOT-QUIESCENT" => {
                viol(&mut m, "C12/reads-do-not-terminate", "more than 500 packets returned at one fixed instant".into());
            }
            Item::Start(t, ms) => {
                if let Some(k) = k_of(*t) {
                    let spec = &cat[k];
                    let o = m.o[k].clone();
                    if o.open {
                        viol(&mut m, "C12/start-while-open", format!("StartTransfer for object {} while its previous transfer is open", k));
                    }
                    if o.removed {
                        m.o[k].starts_after_rm += 1;
                        viol(&mut m, "C12/transfer-started-after-removal", format!("object {} removed (transfers done {}), yet a new transfer starts at t={}ms", k, o.stops, ms));
                    }
                    if spec.carousel.is_none() && o.starts >= spec.count {
                        viol(&mut m, "C12/more-transfers-than-configured", format!("object {} (max_transfer_count {}, no carousel) starts transfer #{}", k, spec.count, o.starts + 1));
                    }
                    let o = &mut m.o[k];
                    o.open = true;
                    o.starts += 1;
                    o.pkts_in_open = 0;
                    o.last_start_ms = Some(*ms);
                    o.triggered = false;
                }
            }
            Item::Stop(t, ms) => {
                if let Some(k) = k_of(*t) {
                    let o = &mut m.o[k];
                    if !o.open {
                        let s = format!("StopTransfer for object {} without an open transfer", k);
                        viol(&mut m, "C12/stop-without-start", s);
                    } else {
                        // an object that was never fully sent and has no immediate-stop permission finishes the
                        // transfer during which it was removed
                        if let (true, Some((true, stops_at_rm))) = (o.removed, o.rm) {
                            let forced = stops_at_rm > 0 || cat[k].immediate_stop == Some(true);
                            if !forced && o.stops == stops_at_rm && o.pkts_in_open < per_transfer[k] {
                                let s = format!("object {} (never fully sent, immediate stop {:?}) was removed during its first transfer, which then ended after {} of {} packets", k, cat[k].immediate_stop, o.pkts_in_open, per_transfer[k]);
                                viol(&mut m, "C12/unforced-removal-cuts-the-transfer-short", s);
                            }
                        }
                        let o = &mut m.o[k];
                        o.open = false;
                        o.stops += 1;
                        o.last_stop_ms = Some(*ms);
                        if o.stops >= 3 && cat[k].carousel.is_some() {
                            m.wit_carousel3 = true;
                        }
                        if cat[k].carousel.is_none() && o.stops >= cat[k].count {
                            m.wit_finished = true;
                        }
                    }
                }
            }
            Item::Pkt(p) if p.toi != 0 => {
                if let Some(k) = k_of(p.toi) {
                    let n = per_transfer[k];
                    let (open, removed, rm) = (m.o[k].open, m.o[k].removed, m.o[k].rm);
                    if !open {
                        viol(&mut m, "C12/packet-outside-transfer", format!("packet of object {} outside Start/Stop", k));
                    }
                    let o = &mut m.o[k];
                    o.pkts_in_open += 1;
                    if o.pkts_in_open == n {
                        o.wire_complete += 1;
                    }
                    if removed {
                        o.pkts_after_rm += 1;
                        if p.b {
                            o.flagged_after_rm += 1;
                        }
                        let (was_open, stops_at_rm) = rm.unwrap();
                        let forced = was_open && (stops_at_rm > 0 || cat[k].immediate_stop == Some(true));
                        let after = o.pkts_after_rm;
                        let flagged = o.flagged_after_rm;
                        if !was_open {
                            viol(&mut m, "C12/packet-after-removal-of-waiting-object", format!("object {} was removed while waiting in the queue, yet a packet of it is emitted", k));
                        } else if forced && (after > 1 || flagged != after) {
                            viol(&mut m, "C12/forced-stop-not-immediate", format!("object {} removed mid-transfer after {} complete transfer(s) (immediate stop {:?}): {} packet(s) followed, {} flagged B; expected at most one, flagged", k, stops_at_rm, cat[k].immediate_stop, after, flagged));
                        }
                    }
                } else {
                    viol(&mut m, "C12/packet-of-unknown-toi", format!("packet with TOI {} that no add_object returned", p.toi));
                }
            }
            Item::Idle(ms) => {
                // read() said "nothing to send": no object may be eligible right now
                for (k, o) in m.o.clone().iter().enumerate() {
                    if !o.added || o.removed || !o.published {
                        continue;
                    }
                    if let Some(nb) = o.not_before_ms {
                        if (*ms as i64) < nb {
                            continue;
                        }
                    }
                    if o.open {
                        viol(&mut m, "C12/idle-with-open-transfer", format!("read returned None at t={}ms while a transfer of object {} is open (no pacing configured)", ms, k));
                        continue;
                    }
                    let spec = &cat[k];
                    let remaining = if spec.carousel.is_none() { o.stops < spec.count } else { o.stops % spec.count.max(1) != 0 || o.stops == 0 };
                    if remaining {
                        viol(&mut m, "C12/stall-transfers-outstanding", format!("read returned None at t={}ms although object {} has completed {} of {} transfers and is published", ms, k, o.stops, spec.count));
                        continue;
                    }
                    if let Some(c) = &spec.carousel {
                        let due = if o.triggered {
                            true
                        } else {
                            match c {
                                Carousel::Delay(d) => o.last_stop_ms.map(|s| *ms > s + d).unwrap_or(true),
                                Carousel::Interval(d) => o.last_start_ms.map(|s| *ms > s + d).unwrap_or(true),
                            }
                        };
                        if due {
                            viol(&mut m, "C12/carousel-object-not-retransmitted", format!("read returned None at t={}ms although carousel object {} is due (last start {:?}, last stop {:?})", ms, k, o.last_start_ms, o.last_stop_ms));
                        }
                    }
                }
            }
            _ => {}
        }
    }
    m
}

pub struct Sys12 {
    pub cfg: Cfg,
    pub s: SendSys,
    pub mon: Mon12,
    pub api: Vec<(String, String)>,
}

impl Sys for Sys12 {
    type Ev = Ev;
    fn enabled(&self) -> Vec<Ev> {
        let mut v = vec![Ev::Read1, Ev::Drain];
        if let Some(k) = (0..self.s.catalog.len()).find(|k| self.s.toi_of[*k].is_none()) {
            v.push(Ev::Add(k));
        }
        if self.cfg.full_fdt {
            v.push(Ev::Publish);
        }
        for k in 0..self.s.catalog.len() {
            if self.s.toi_of[k].is_some() && !self.s.removed[k] {
                v.push(Ev::Remove(k));
            }
        }
        if self.s.toi_of[0].is_some() && !self.s.removed[0] {
            v.push(Ev::Trigger(0, None));
            v.push(Ev::Trigger(0, Some((self.s.now_ms + 2 * TICK) as i64)));
        }
        if self.s.toi_of[1].is_some() && !self.s.removed[1] {
            v.push(Ev::Trigger(1, None));
        }
        v.push(Ev::Tick(TICK));
        v.push(Ev::Tick(3 * TICK));
        v
    }
    fn apply(&mut self, ev: &Ev) {
        self.s.apply(ev);
    }
    fn settle(&mut self) {
        self.mon = monitor(&self.s.log, &self.s.catalog, &self.s.toi_of, self.cfg.full_fdt);
        // API-level clauses evaluated on the live sender in this state
        self.api.clear();
        let mut live = 0;
        for k in 0..self.s.catalog.len() {
            let toi = match self.s.toi_of[k] {
                Some(t) => t,
                None => continue,
            };
            let o = &self.mon.o[k];
            let spec = &self.s.catalog[k];
            let is_added = self.s.sender.is_added(toi);
            let finished = spec.carousel.is_none() && o.stops >= spec.count;
            if is_added {
                live += 1;
            }
            if (finished || o.removed) && is_added {
                self.api.push(("C12/object-still-listed".into(), format!("object {} ({} of {} transfers done, removed={}) but is_added() is still true", k, o.stops, spec.count, o.removed)));
            }
            if !finished && !o.removed && !is_added {
                self.api.push(("C12/object-disappeared-early".into(), format!("object {} has completed {} of {} transfers (carousel {:?}) but is_added() is false", k, o.stops, spec.count, spec.carousel)));
            }
            let nt = self.s.sender.nb_transfers(toi);
            if is_added && nt != Some(o.stops as u64) {
                self.api.push(("C12/nb_transfers-differs-from-events".into(), format!("object {}: nb_transfers() = {:?}, StopTransfer events = {}", k, nt, o.stops)));
            }
            if is_added && matches!(self.s.log.last(), Some(Item::Idle(_))) && nt != Some(o.wire_complete as u64) {
                self.api.push(("C12/nb_transfers-differs-from-wire".into(), format!("object {}: nb_transfers() = {:?} at a quiescent point, complete transfers seen on the wire = {}", k, nt, o.wire_complete)));
            }
            if !is_added && nt.is_some() {
                self.api.push(("C12/nb_transfers-for-absent-object".into(), format!("object {} is not added but nb_transfers() = {:?}", k, nt)));
            }
            if is_added != self.s.sender.get_objects_in_fdt().contains_key(&toi) {
                self.api.push(("C12/get_objects_in_fdt-inconsistent".into(), format!("object {}: is_added {} vs get_objects_in_fdt", k, is_added)));
            }
        }
        if self.s.sender.nb_objects() != live {
            self.api.push(("C12/nb_objects".into(), format!("nb_objects() = {} but {} added objects answer is_added()", self.s.sender.nb_objects(), live)));
        }
    }
    fn fingerprint(&self) -> u64 {
        h64(&(self.s.sender_fp(), self.s.now_ms, &self.mon, self.s.toi_of.clone(), self.s.panicked.clone(), matches!(self.s.log.last(), Some(Item::Idle(_)))))
    }
    fn verdicts(&self) -> Vec<(String, String)> {
        let mut v = Vec::new();
        if let Some(p) = &self.s.panicked {
            v.push((format!("C12/panic/{}", panic_sig(p)), format!("panic: {}", p)));
        }
        if let Some(x) = self.mon.violation.clone() {
            v.push(x);
        }
        v.extend(self.api.iter().cloned());
        v
    }
    fn witnesses(&self) -> Vec<&'static str> {
        let mut w = Vec::new();
        if self.mon.wit_rm_first {
            w.push("removal_at_first_packet");
        }
        if self.mon.wit_rm_middle {
            w.push("removal_at_middle_packet");
        }
        if self.mon.wit_rm_last {
            w.push("removal_after_last_packet");
        }
        if self.mon.wit_carousel3 {
            w.push("carousel_object_transferred_3_times");
        }
        if self.mon.wit_finished {
            w.push("object_finished_all_transfers");
        }
        w
    }
}

pub fn make(cfg: &Cfg) -> Sys12 {
    let mut s = Sys12 { cfg: cfg.clone(), s: SendSys::new(&sess(cfg), Arc::new(catalog(cfg))), mon: Mon12::default(), api: vec![] };
    if cfg.prefix >= 1 {
        s.apply(&Ev::Add(0));
        s.apply(&Ev::Add(1));
        if cfg.full_fdt {
            s.apply(&Ev::Publish);
        }
    }
    if cfg.prefix >= 2 {
        s.apply(&Ev::Read1);
        s.apply(&Ev::Read1);
        s.apply(&Ev::Read1);
        s.apply(&Ev::Tick(TICK));
    }
    s
}

pub fn replay(v: &serde_json::Value) -> Vec<Violation> {
    let cfg: Cfg = serde_json::from_value(v["case"]["cfg"].clone()).expect("cfg");
    let hist: Vec<Ev> = serde_json::from_value(v["case"]["history"].clone()).expect("history");
    let mut s = make(&cfg);
    for e in &hist {
        s.apply(e);
    }
    s.settle();
    s.verdicts().into_iter().map(|(key, what)| Violation { key, what, case: v.clone() }).collect()
}

pub fn configs(thorough: bool) -> Vec<Cfg> {
    let mut v = Vec::new();
    for count in [1u32, 2, 3] {
        for carousel in [0u8, 1, 2] {
            for immediate_stop in [false, true] {
                for full_fdt in [true, false] {
                    if !thorough && ((count == 3 && carousel != 0) || (!full_fdt && (count != 2 || immediate_stop))) {
                        continue;
                    }
                    v.push(Cfg { count, carousel, immediate_stop, full_fdt, multiplex: 1, stream: false, prefix: 0, fec: false });
                    if count == 2 && carousel <= 1 && !immediate_stop && full_fdt {
                        v.push(Cfg { count, carousel, immediate_stop, full_fdt, multiplex: 1, stream: false, prefix: 1, fec: true });
                    }
                    if count == 2 && carousel <= 1 && !immediate_stop {
                        for prefix in [1u8, 2] {
                            v.push(Cfg { count, carousel, immediate_stop, full_fdt, multiplex: 1, stream: false, prefix, fec: false });
                        }
                    }
                    if (count >= 2 || carousel != 0) && !immediate_stop && full_fdt {
                        v.push(Cfg { count, carousel, immediate_stop, full_fdt, multiplex: 1, stream: true, prefix: 0, fec: false });
                    }
                    if count == 1 && !immediate_stop && carousel != 0 {
                        // zero carousel periods: at a fixed instant the reads must still terminate
                        v.push(Cfg { count, carousel: carousel + 2, immediate_stop, full_fdt, multiplex: 1, stream: false, prefix: 0, fec: false });
                    }
                    if count == 2 && (thorough || carousel != 2) {
                        v.push(Cfg { count, carousel, immediate_stop, full_fdt, multiplex: 2, stream: false, prefix: 0, fec: false });
                    }
                }
            }
        }
    }
    v
}

pub fn run(thorough: bool) -> i32 {
    let mut rep = Report::new("C12", "model_checking", if thorough { "thorough" } else { "quick" });
    let depth = if thorough { 9 } else { 7 };
    let cap = if thorough { 60_000 } else { 40_000 };
    let mut states = 0u64;
    let mut trans = 0u64;
    let mut per_cfg = Vec::new();
    let mut wit: BTreeMap<String, u64> = BTreeMap::new();
    for cfg in configs(thorough) {
        let (st, found) = bfs(|| make(&cfg), depth, cap);
        if per_cfg.is_empty() {
            let (a, _) = bfs(|| make(&cfg), 4, cap);
            let (b, _) = bfs(|| make(&cfg), 4, cap);
            if a.states != b.states || a.transitions != b.transitions {
                rep.machinery(format!("BFS not reproducible: {} vs {} states", a.states, b.states));
            }
        }
        states += st.states;
        trans += st.transitions;
        for (k, n) in &st.witnesses {
            *wit.entry(k.clone()).or_insert(0) += n;
        }
        per_cfg.push(json!({"cfg": cfg, "states": st.states, "transitions": st.transitions, "depth_completed": st.depth_completed, "capped": st.capped}));
        for f in found {
            rep.add(Violation { key: f.sig, what: f.what, case: json!({"check": "bfs", "case": {"cfg": cfg, "history": f.history}}) });
        }
    }
    rep.cov("states", states);
    rep.cov("transitions", trans);
    rep.cov("traces_validated_against_impl", trans);
    rep.cov("evaluations", trans);
    rep.cov("distinct_nontrivial", states);
    rep.cov("explanation", "explicit-state BFS whose transition function is the real Sender; states merged on the canonical fingerprint of the Sender + lifecycle monitor + virtual time; the monitor is a reference counter per object fed by Subscriber events and decoded packets, API answers (is_added, nb_objects, nb_transfers, get_objects_in_fdt) are compared with it in every state");
    rep.cov("depth_bound", depth as u64);
    rep.cov("per_config", json!(per_cfg));
    rep.cov("exhaustive", per_cfg.iter().all(|c| c["capped"] == false));
    for w in ["removal_at_first_packet", "removal_at_middle_packet", "removal_after_last_packet", "carousel_object_transferred_3_times", "object_finished_all_transfers"] {
        rep.guard(w, *wit.get(w).unwrap_or(&0));
    }
    rep.sample(json!({"cfg": configs(thorough)[0], "history": [Ev::Add(0), Ev::Publish, Ev::Read1, Ev::Read1, Ev::Remove(0), Ev::Drain]}));
    rep.assume("alphabet: add, publish, remove, trigger (none / +2 ticks), one read, drain, tick 0.5 s / 1.5 s; 2 objects of 2 packets; for max_transfer_count n > 1 with a carousel the code sends n copies per carousel turn (see DESIGN §5): the due-time clause is applied between turns");
    rep.finish()
}
