//! C19 — FDT expiry on the sender's clock. Engine: exhaustive grid (E1 full) with two virtual
//! clocks: the sender's (SCT, Expires) and the receiver's (the `now` argument of every call).
use crate::fdtxml::*;
use crate::monitor::*;
use crate::report::*;
use crate::rfc;
use crate::sess::*;
use crate::util::*;
use flute::receiver::MultiReceiver;
use serde::{Deserialize, Serialize};
use serde_json::json;
use std::time::{Duration, SystemTime, UNIX_EPOCH};

#[derive(Serialize, Deserialize, Clone, Debug)]
pub struct Case {
    /// SCT - Expires in seconds (negative: the instance is still valid when sent)
    pub sct_minus_expires: i64,
    pub sct_present: bool,
    /// receiver clock - sender clock, seconds
    pub offset: i64,
    pub check: bool,
    /// 0: FDT then object; 1: object (in-band FTI) then FDT; 2: object (no FTI, cached) then FDT;
    /// 3: FDT, cleanup, object; 4: FDT, object A early, object B late;
    /// 5: FDT #1 (lists A), 20 s later FDT #2 (lists only B, expires 2 h later), then A and B together
    pub timing: u8,
    /// for timing 0/3/4: (estimate of the sender clock when the object arrives) - Expires, seconds
    pub obj_est_minus_expires: i64,
    /// FDT sent as 3 packets `spread` seconds apart (default 1), each with its own SCT
    pub multi: bool,
    #[serde(default)]
    pub spread: i64,
    /// the scenario runs in the SECOND session the MultiReceiver creates (another endpoint got a packet
    /// first): every session must get the receiver's configuration
    #[serde(default)]
    pub second_session: bool,
    /// (check off only) the Expires attribute is beyond the 32-bit NTP seconds (a duration of decades): with
    /// the check disabled expiry is ignored, whatever the attribute says
    #[serde(default)]
    pub far_expires: bool,
    /// (timings 0 and 3, single-packet FDT) a carousel repetition of the same instance, with a fresh SCT,
    /// arrives just before the object
    #[serde(default)]
    pub repeat_fdt: bool,
    /// receiver with object_receive_once = false
    #[serde(default)]
    pub receive_twice: bool,
    /// how EXT_TIME carries the SCT (fdtxml::SCT_FORM): 0 High+Low, 1 High only, 2 High+Low+ERT, 3 High+SLC
    #[serde(default)]
    pub sct_form: u8,
    /// before anything else the session receives an unrelated packet at a receiver time this many seconds LATER
    /// than the first event's: the receiver clock is then stepped back (an NTP correction). Only the clock readings
    /// at the FDT's and the object's arrival enter the estimate, so the outcome must not change
    #[serde(default)]
    pub pre_step_back: i64,
    /// the FDT packets announce FLUTE version 1 (RFC 3926 profile of the sender): the SCT is used all the same
    #[serde(default)]
    pub fdt_v1: bool,
}

const S0: u64 = EPOCH_2027 + 86_400; // sender time when the (last packet of the) FDT is sent

fn unix(t: i64) -> SystemTime {
    if t >= 0 {
        UNIX_EPOCH + Duration::from_secs(t as u64)
    } else {
        UNIX_EPOCH - Duration::from_secs((-t) as u64)
    }
}

fn obj_packets(toi: u128, with_fti: bool, content: &[u8]) -> Vec<Vec<u8>> {
    let e = 8usize;
    let n = content.len().div_ceil(e);
    (0..n)
        .map(|j| {
            let mut sp = rfc::Spec::minimal(rfc::FEC_NOCODE, TSI, toi);
            if with_fti {
                sp.exts.push(rfc::fti_nocode(content.len() as u64, e as u16, 64));
            }
            sp.payload_id = rfc::pid(rfc::FEC_NOCODE, 0, j as u32, 0, 8);
            sp.payload = content[j * e..((j + 1) * e).min(content.len())].to_vec();
            rfc::encode(&sp)
        })
        .collect()
}

pub struct Outcome {
    pub logs: Vec<String>,
    pub delivered: Vec<bool>,
    pub writers: usize,
    pub errors: usize,
    pub panic: Option<String>,
}

/// expected verdict per object from the model of DESIGN §3 C19
pub fn expected(c: &Case) -> Vec<bool> {
    if !c.check {
        return match c.timing {
            4 | 5 => vec![true, true],
            _ => vec![true],
        };
    }
    let e = S0 as i64 - c.sct_minus_expires; // Expires (sender time scale)
    // estimate of the sender clock at receiver-time r: with SCT the offset cancels out
    let est = |sender_time: i64| if c.sct_present { sender_time } else { sender_time + c.offset };
    let fdt_valid_at_completion = est(S0 as i64) <= e;
    match c.timing {
        1 | 2 => vec![fdt_valid_at_completion],
        0 | 3 => {
            let s1 = obj_sender_time(c, c.obj_est_minus_expires);
            vec![fdt_valid_at_completion && est(s1) <= e]
        }
        4 => {
            let sa = obj_sender_time(c, (-3600i64).min(c.obj_est_minus_expires));
            let sb = obj_sender_time(c, c.obj_est_minus_expires);
            vec![fdt_valid_at_completion && est(sa) <= e, fdt_valid_at_completion && est(sb.max(sa)) <= e]
        }
        _ => {
            // two instances: A is announced only by #1 (expires e), B only by #2 (expires e + 7200)
            let s1 = obj_sender_time(c, c.obj_est_minus_expires).max(S0 as i64 + 21);
            let fdt2_valid_at_completion = est(S0 as i64 + 20) <= e + 7200;
            vec![fdt_valid_at_completion && est(s1) <= e, fdt2_valid_at_completion && est(s1) <= e + 7200]
        }
    }
}

/// sender time at which the object is sent so that (estimate - Expires) = g
fn obj_sender_time(c: &Case, g: i64) -> i64 {
    let e = S0 as i64 - c.sct_minus_expires;
    // est(s1) = s1 (+offset without SCT) => s1 = e + g (- offset)
    let s1 = if c.sct_present { e + g } else { e + g - c.offset };
    s1.max(S0 as i64 + 1) // never before the FDT in timings 0/3/4
}

pub fn run_case(c: &Case) -> Outcome {
    SCT_FORM.with(|f| f.set(c.sct_form));
    FDT_VERSION.with(|f| f.set(if c.fdt_v1 { 1 } else { 2 }));
    let o = run_case_inner(c);
    SCT_FORM.with(|f| f.set(0));
    FDT_VERSION.with(|f| f.set(2));
    o
}

fn run_case_inner(c: &Case) -> Outcome {
    let e_ntp = unix_to_ntp_secs((S0 as i64 - c.sct_minus_expires) as u64);
    let content_a = obj_bytes(13, 1);
    let content_b = obj_bytes(11, 2);
    let mut x = FdtX::new(&if c.far_expires { (e_ntp as u64 + (1u64 << 32)).to_string() } else { e_ntp.to_string() });
    let with_fti = c.timing != 2;
    let mut mkfile = |toi: u128, content: &[u8]| {
        let mut f = FileX::new(&toi.to_string(), &format!("file:///c19-{}", toi)).attr("Content-Length", &content.len().to_string()).attr("Transfer-Length", &content.len().to_string());
        if !with_fti {
            f = f.attr("FEC-OTI-FEC-Encoding-ID", "0").attr("FEC-OTI-Maximum-Source-Block-Length", "64").attr("FEC-OTI-Encoding-Symbol-Length", "8");
        }
        f
    };
    x = x.file(mkfile(5, &content_a));
    if c.timing == 4 {
        x = x.file(mkfile(6, &content_b));
    }
    let xml2 = {
        let e2 = unix_to_ntp_secs((S0 as i64 - c.sct_minus_expires + 7200) as u64);
        FdtX::new(&e2.to_string()).file(mkfile(6, &content_b)).xml()
    };
    let xml = x.xml();
    // FDT packets: (sender time, bytes)
    let mut fdt: Vec<(i64, Vec<u8>)> = Vec::new();
    if c.multi {
        let e = xml.len().div_ceil(3);
        let sp = c.spread.max(1);
        let times = [S0 as i64 - 2 * sp, S0 as i64 - sp, S0 as i64];
        let parts = 3;
        for j in 0..parts {
            let sct = if c.sct_present { Some((unix_to_ntp_secs(times[j] as u64) as u32, 0u32)) } else { None };
            let pk = fdt_packets(TSI, 9, xml.as_bytes(), e, sct, None);
            fdt.push((times[j], pk[j.min(pk.len() - 1)].clone()));
        }
    } else {
        let sct = if c.sct_present { Some((unix_to_ntp_secs(S0) as u32, 0u32)) } else { None };
        fdt.push((S0 as i64, fdt_packets(TSI, 9, xml.as_bytes(), 8192, sct, None).remove(0)));
    }
    // event list in sender time
    enum E {
        Pkt(Vec<u8>),
        Cleanup,
    }
    let mut evs: Vec<(i64, E)> = Vec::new();
    let pa = obj_packets(5, with_fti, &content_a);
    match c.timing {
        1 | 2 => {
            for p in &pa {
                evs.push((S0 as i64 - 10, E::Pkt(p.clone())));
            }
            for (t, p) in &fdt {
                evs.push((*t, E::Pkt(p.clone())));
            }
        }
        0 | 3 => {
            for (t, p) in &fdt {
                evs.push((*t, E::Pkt(p.clone())));
            }
            let s1 = obj_sender_time(c, c.obj_est_minus_expires);
            if c.timing == 3 {
                evs.push(((S0 as i64 + s1) / 2, E::Cleanup));
            }
            if c.repeat_fdt && !c.multi {
                let sct = if c.sct_present { Some((unix_to_ntp_secs(s1 as u64) as u32, 0u32)) } else { None };
                evs.push((s1, E::Pkt(fdt_packets(TSI, 9, xml.as_bytes(), 8192, sct, None).remove(0))));
            }
            for p in &pa {
                evs.push((s1, E::Pkt(p.clone())));
            }
        }
        5 => {
            for (t, p) in &fdt {
                evs.push((*t, E::Pkt(p.clone())));
            }
            let t2 = S0 as i64 + 20;
            let sct2 = if c.sct_present { Some((unix_to_ntp_secs(t2 as u64) as u32, 0u32)) } else { None };
            evs.push((t2, E::Pkt(fdt_packets(TSI, 10, xml2.as_bytes(), 8192, sct2, None).remove(0))));
            let s1 = obj_sender_time(c, c.obj_est_minus_expires).max(S0 as i64 + 21);
            for p in &pa {
                evs.push((s1, E::Pkt(p.clone())));
            }
            for p in obj_packets(6, with_fti, &content_b) {
                evs.push((s1, E::Pkt(p)));
            }
        }
        _ => {
            for (t, p) in &fdt {
                evs.push((*t, E::Pkt(p.clone())));
            }
            let sa = obj_sender_time(c, (-3600i64).min(c.obj_est_minus_expires));
            let sb = obj_sender_time(c, c.obj_est_minus_expires);
            for p in &pa {
                evs.push((sa, E::Pkt(p.clone())));
            }
            for p in obj_packets(6, with_fti, &content_b) {
                evs.push((sb.max(sa), E::Pkt(p)));
            }
        }
    }
    let mon = Mon::new(true);
    let mut cfg = recv_config(!c.receive_twice);
    cfg.enable_fdt_expiration_check = c.check;
    cfg.max_objects_error = 5;
    flute::verif::clock_reset(0);
    let mut errors = 0usize;
    let r = catch(|| {
        let mut rx = MultiReceiver::new(mon.builder(), Some(cfg), false);
        if c.second_session {
            if let Some((t, _)) = evs.first() {
                let other = endpoint_n(9, None);
                let exp = unix_to_ntp_secs(S0 + 86_400).to_string();
                let xml = FdtX::new(&exp).xml();
                let _ = rx.push(&other, &fdt_packets(TSI, 3, xml.as_bytes(), 8192, None, None).remove(0), unix(*t + c.offset));
            }
        }
        if c.pre_step_back != 0 {
            if let Some((t, _)) = evs.first() {
                let p = obj_packets(99, false, &[1, 2, 3]).remove(0);
                let _ = rx.push(&endpoint(), &p, unix(*t + c.offset + c.pre_step_back));
            }
        }
        for (t, ev) in &evs {
            let now = unix(*t + c.offset);
            match ev {
                E::Pkt(p) => {
                    let _ = rx.push(&endpoint(), p, now);
                }
                E::Cleanup => rx.cleanup(now),
            }
        }
        errors = rx.nb_objects_error();
        drop(rx);
    });
    let ws = mon.writers();
    let mut delivered = vec![ws.iter().any(|w| w.toi == 5 && w.is_complete() && w.data() == content_a)];
    if c.timing >= 4 {
        delivered.push(ws.iter().any(|w| w.toi == 6 && w.is_complete() && w.data() == content_b));
    }
    Outcome { logs: ws.iter().map(|w| format!("{}:{}", w.toi, w.short())).collect(), delivered, writers: ws.len(), errors, panic: r.err() }
}

pub fn check_case(c: &Case) -> Option<(String, String)> {
    let o = run_case(c);
    if let Some(p) = o.panic {
        return Some((format!("C19/panic/{}", panic_sig(&p)), format!("panic: {}", p)));
    }
    let exp = expected(c);
    let cls = format!("{}/{}", if c.sct_present { "sct" } else { "no-sct" }, ["fdt-then-object", "object-inband-then-fdt", "object-cached-then-fdt", "fdt-cleanup-object", "two-objects", "two-instances"][c.timing as usize]);
    for (i, (d, e)) in o.delivered.iter().zip(exp.iter()).enumerate() {
        if d != e {
            let key = if *d { format!("C19/delivered-through-expired-fdt/{}", cls) } else { format!("C19/not-delivered-although-fdt-valid/{}", cls) };
            return Some((
                key,
                format!("writers {:?}; object {}: delivered = {}, expected {} (SCT-Expires = {} s, SCT {}, receiver clock offset {} s, object estimate-Expires = {} s, expiry check {}, 3-packet FDT {})", o.logs, i, d, e, c.sct_minus_expires, if c.sct_present { "present" } else { "absent" }, c.offset, c.obj_est_minus_expires, c.check, c.multi),
            ));
        }
    }
    let exp_writers = exp.iter().filter(|e| **e).count();
    if o.writers != exp_writers {
        return Some((format!("C19/writer-obtained-for-undelivered-object/{}", cls), format!("{} writer(s) obtained, {} object(s) expected to be delivered", o.writers, exp_writers)));
    }
    if o.errors != 0 {
        return Some((format!("C19/undelivered-object-reported-failed/{}", cls), format!("nb_objects_error() = {} for an object announced only by an expired instance", o.errors)));
    }
    None
}

pub fn replay(v: &serde_json::Value) -> Vec<Violation> {
    if v["check"] == "real" {
        return real_sender_layer().into_iter().map(|(key, what, _)| Violation { key, what, case: v.clone() }).collect();
    }
    let c: Case = serde_json::from_value(v["case"].clone()).expect("case");
    check_case(&c).into_iter().map(|(key, what)| Violation { key, what, case: v.clone() }).collect()
}

/// real Sender sessions (SCT on / off) delivered under every receiver clock offset
fn real_sender_layer() -> Vec<(String, String, i64)> {
    let mut out = Vec::new();
    for sct in [true, false] {
        let mut o = ObjSpec::simple(13, 4);
        o.oti = Some(OtiSpec::new(Scheme::NoCode, 8, 2, 0, true));
        let mut s = SessSpec::basic(OtiSpec::new(Scheme::NoCode, 1424, 64, 0, true));
        s.sct = sct;
        s.fdt_duration_s = 600;
        let rec = match crate::chan::record(&crate::chan::RecSpec { sess: s, objs: vec![o.clone()], polls_ms: vec![0] }) {
            Ok(r) => r,
            Err(e) => {
                out.push(("C19/harness".into(), e, 0));
                continue;
            }
        };
        for offset in offsets() {
            let seq: Vec<(SystemTime, &[u8])> = rec.pkts.iter().map(|p| (unix(p.0.duration_since(UNIX_EPOCH).unwrap().as_secs() as i64 + offset), &p.1[..])).collect();
            let oc = crate::chan::deliver_seq(&seq, recv_config(true), true);
            let delivered = oc.writers.iter().any(|w| w.is_complete() && w.data() == o.content());
            // with SCT the offset is corrected; without it the receiver's own clock decides (duration 600 s)
            let exp = if sct { true } else { offset <= 600 - 2 };
            if (offset - 600).abs() <= 2 && !sct {
                continue;
            }
            if delivered != exp {
                out.push((format!("C19/real-sender/{}", if sct { "sct" } else { "no-sct" }), format!("real sender session, SCT {}: receiver clock offset {} s, delivered = {}, expected {}", sct, offset, delivered, exp), offset));
            }
        }
    }
    out
}

fn offsets() -> Vec<i64> {
    vec![0, 3, -3, 3600, -3600, 400 * 86_400, -400 * 86_400, 20 * 365 * 86_400, -20 * 365 * 86_400]
}

pub fn run(thorough: bool) -> i32 {
    let mut rep = Report::new("C19", "model_checking", if thorough { "thorough" } else { "quick" });
    let mut cases = Vec::new();
    let gaps: Vec<i64> = if thorough { vec![-86_400, -3600, -60, -3, 3, 60, 3600, 86_400] } else { vec![-3600, -3, 3, 3600] };
    let mut offs = offsets();
    if thorough {
        offs.extend([60, -60, 86_400, -86_400, 5 * 365 * 86_400, -5 * 365 * 86_400, 9 * 365 * 86_400 + 40 * 86_400]);
    }
    for &d in &gaps {
        for sct_present in [true, false] {
            for &offset in &offs {
                for check in [true, false] {
                    for timing in 0..6u8 {
                        for &g in &gaps {
                            if matches!(timing, 1 | 2) && g != gaps[0] {
                                continue;
                            }
                            for (multi, spread) in [(false, 0i64), (true, 1), (true, 40)] {
                                cases.push(Case { sct_minus_expires: d, sct_present, offset, check, timing, obj_est_minus_expires: g, multi, spread, second_session: false, far_expires: false, repeat_fdt: false, receive_twice: false, sct_form: 0, pre_step_back: 0, fdt_v1: false });
                                if !multi {
                                    cases.push(Case { sct_minus_expires: d, sct_present, offset, check, timing, obj_est_minus_expires: g, multi, spread, second_session: false, far_expires: false, repeat_fdt: false, receive_twice: false, sct_form: 0, pre_step_back: 0, fdt_v1: true });
                                    for pre_step_back in [20i64, 7200] {
                                        cases.push(Case { sct_minus_expires: d, sct_present, offset, check, timing, obj_est_minus_expires: g, multi, spread, second_session: false, far_expires: false, repeat_fdt: false, receive_twice: false, sct_form: 0, pre_step_back, fdt_v1: false });
                                    }
                                }
                                if sct_present && spread <= 1 {
                                    for sct_form in 1..=3u8 {
                                        cases.push(Case { sct_minus_expires: d, sct_present, offset, check, timing, obj_est_minus_expires: g, multi, spread, second_session: false, far_expires: false, repeat_fdt: false, receive_twice: false, sct_form, pre_step_back: 0, fdt_v1: false });
                                    }
                                }
                                if !multi && matches!(timing, 0 | 3) {
                                    for receive_twice in [false, true] {
                                        cases.push(Case { sct_minus_expires: d, sct_present, offset, check, timing, obj_est_minus_expires: g, multi, spread, second_session: false, far_expires: false, repeat_fdt: true, receive_twice, sct_form: 0, pre_step_back: 0, fdt_v1: false });
                                    }
                                }
                                if !check && !multi && timing <= 2 {
                                    cases.push(Case { sct_minus_expires: d, sct_present, offset, check, timing, obj_est_minus_expires: g, multi, spread, second_session: false, far_expires: true, repeat_fdt: false, receive_twice: false, sct_form: 0, pre_step_back: 0, fdt_v1: false });
                                }
                                if !multi {
                                    cases.push(Case { sct_minus_expires: d, sct_present, offset, check, timing, obj_est_minus_expires: g, multi, spread, second_session: true, far_expires: false, repeat_fdt: false, receive_twice: timing == 4, sct_form: 0, pre_step_back: 0, fdt_v1: false });
                                }
                            }
                        }
                    }
                }
            }
        }
    }
    let res = par_map(&cases, |_, c| (check_case(c), expected(c)));
    let mut yes = [0u64; 2];
    let mut no = [0u64; 2];
    let mut late_expiry = 0u64;
    for (c, (r, exp)) in cases.iter().zip(res) {
        if c.check {
            for e in &exp {
                if *e {
                    yes[c.sct_present as usize] += 1;
                } else {
                    no[c.sct_present as usize] += 1;
                }
            }
            if c.timing == 4 && exp == vec![true, false] {
                late_expiry += 1;
            }
        }
        if let Some((key, what)) = r {
            rep.add(Violation { key, what, case: json!({"check": "grid", "case": serde_json::to_value(c).unwrap()}) });
        }
    }
    for (key, what, _) in real_sender_layer() {
        rep.add(Violation { key, what, case: json!({"check": "real", "case": {}}) });
    }
    rep.cov("states", cases.len() as u64);
    rep.cov("transitions", cases.len() as u64);
    rep.cov("traces_validated_against_impl", cases.len() as u64);
    rep.cov("evaluations", cases.len() as u64);
    rep.cov("distinct_nontrivial", cases.len() as u64);
    rep.cov("explanation", "full product SCT-Expires {-1h,-3s,+3s,+1h} x SCT present/absent x receiver clock offset {0, +-3 s, +-1 h, +-400 d, +-20 y} x expiry check on/off x 6 arrival orders (incl. two FDT instances, the object announced only by the older one) x object estimate-Expires {-1h,-3s,+3s,+1h} x FDT in 1 packet / 3 packets 1 s apart / 3 packets 40 s apart (each with its own SCT); harness-crafted FDT and object packets pushed into the real MultiReceiver with the receiver clock as `now`; verdict compared with the two-clock model; plus real Sender sessions (SCT on/off) under every offset");
    rep.cov("exhaustive", true);
    rep.guard("expected_delivered_with_sct", yes[1]);
    rep.guard("expected_not_delivered_with_sct", no[1]);
    rep.guard("expected_delivered_without_sct", yes[0]);
    rep.guard("expected_not_delivered_without_sct", no[0]);
    rep.guard("instance_valid_at_completion_but_expired_for_a_later_object", late_expiry);
    rep.sample(serde_json::to_value(&cases[cases.len() / 3]).unwrap());
    rep.assume("no transit delay; +-2 s around the expiry instant excluded (all gaps are >= 3 s); the estimate of the sender clock is SCT of the instance's last packet + time elapsed on the receiver clock since its arrival, or the receiver clock when EXT_TIME is absent");
    rep.finish()
}
