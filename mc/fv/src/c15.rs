//! C15 — TOI allocation: non-zero, within the configured width, unique while live, wire-exact.
//! Engines: E2 BFS over the real Sender (allocate / drop handle / add object / finish), a complete
//! walk around the 16-bit TOI space with held handles, and E3 loom on the real ToiAllocator
//! (separate binary `loomtoi`, run from here).
use crate::report::*;
use crate::rfc;
use crate::sendsys::canon_compact;
use crate::sess::*;
use crate::statex::*;
use crate::util::*;
use flute::sender::{Sender, Toi};
use serde::{Deserialize, Serialize};
use serde_json::json;
use std::collections::{BTreeMap, BTreeSet};

#[derive(Serialize, Deserialize, Clone, Debug)]
pub struct Cfg {
    pub bits: u8,
    pub init: String,
    /// FDTPublishMode::ObjectsBeingTransferred (an FDT instance per transfer start: many more FDT handles of TOI 0 come
    /// and go while object TOIs are allocated)
    #[serde(default)]
    pub obt: bool,
}

#[derive(Serialize, Deserialize, Clone, Debug, PartialEq)]
pub enum Ev {
    Alloc,
    DropH(usize),
    AddImplicit,
    AddWith(usize),
    /// set_toi(handle j) then set_toi(handle k) on the same object before it is added: the object
    /// carries k's value, j's value is released with its handle
    AddWithTwo(usize, usize),
    Finish,
    /// add_object (implicit TOI) of an object the sender refuses (Reed-Solomon without parity symbols): whatever
    /// TOI it was given is free again, and the refusal leaves the allocator sound
    AddRefused,
    /// the same refusal for an object carrying handle j: the handle's value is released with the object
    AddRefusedWith(usize),
}

pub struct Sys15 {
    pub cfg: Cfg,
    /// never dropped after a subject panic (its locks are poisoned: dropping it would panic again, outside any guard)
    pub sender: std::mem::ManuallyDrop<Sender>,
    pub handles: Vec<Option<Box<Toi>>>,
    /// salt -> toi of live objects
    pub objects: BTreeMap<u8, u128>,
    pub next_salt: u8,
    pub viol: Vec<(String, String)>,
    pub ever_released: BTreeSet<u128>,
    pub wrapped: bool,
    pub reused: bool,
    pub wire_checked: u32,
    pub now_ms: u64,
    pub refusals: u32,
}

impl Drop for Sys15 {
    fn drop(&mut self) {
        if self.viol.iter().any(|v| v.0.starts_with("C15/panic")) {
            // leak: the verdict is already recorded, the poisoned subject is not touched again
            std::mem::forget(std::mem::take(&mut self.handles));
        } else {
            // every destructor of the subject runs under its own guard: a release that panics (its verdict is found
            // through the DropH / Finish events of the search) must not unwind through the other destructors
            for h in std::mem::take(&mut self.handles) {
                let _ = catch(std::panic::AssertUnwindSafe(move || drop(h)));
            }
            let s = unsafe { std::mem::ManuallyDrop::take(&mut self.sender) };
            let _ = catch(std::panic::AssertUnwindSafe(move || drop(s)));
        }
    }
}

fn bits_mask(bits: u8) -> u128 {
    if bits >= 128 {
        u128::MAX
    } else {
        (1u128 << bits) - 1
    }
}

impl Sys15 {
    pub fn new(cfg: &Cfg) -> Sys15 {
        let mut s = SessSpec::basic(OtiSpec::new(Scheme::NoCode, 1424, 64, 0, true));
        s.toi_bits = cfg.bits;
        s.toi_init = Some(cfg.init.clone());
        s.full_fdt = !cfg.obt;
        Sys15 { cfg: cfg.clone(), sender: std::mem::ManuallyDrop::new(s.sender().unwrap()), handles: vec![], objects: BTreeMap::new(), next_salt: 1, viol: vec![], ever_released: BTreeSet::new(), wrapped: false, reused: false, wire_checked: 0, now_ms: 0, refusals: 0 }
    }
    fn live(&self) -> BTreeSet<u128> {
        let mut l: BTreeSet<u128> = self.handles.iter().flatten().map(|h| h.get()).collect();
        l.extend(self.objects.values().cloned());
        l
    }
    fn check_new(&mut self, v: u128, live_before: &BTreeSet<u128>, how: &str) {
        let cls = format!("bits{}", self.cfg.bits);
        if v == 0 {
            self.viol.push((format!("C15/toi-zero/{}", cls), format!("{} returned TOI 0 (reserved for the FDT); width {} initial {}", how, self.cfg.bits, self.cfg.init)));
        }
        if v > bits_mask(self.cfg.bits) {
            self.viol.push((format!("C15/toi-exceeds-width/{}", cls), format!("{} returned TOI {} which does not fit the configured {} bits (initial value {})", how, v, self.cfg.bits, self.cfg.init)));
        }
        if live_before.contains(&v) {
            self.viol.push((format!("C15/toi-not-unique/{}", cls), format!("{} returned TOI {} which is still reserved or attached to a live object", how, v)));
        }
        if self.ever_released.contains(&v) {
            self.reused = true;
        }
        if let Some(m) = live_before.iter().max() {
            if v < *m {
                self.wrapped = true;
            }
        }
    }
    fn obj(&self, salt: u8) -> ObjSpec {
        let mut o = ObjSpec::simple(5, salt);
        o.oti = Some(OtiSpec::new(Scheme::NoCode, 8, 2, 0, true));
        o
    }
    fn step(&mut self, ev: &Ev) {
        match ev {
            Ev::Alloc => {
                let live = self.live();
                let h = self.sender.allocate_toi();
                let v = h.get();
                self.check_new(v, &live, "allocate_toi");
                self.handles.push(Some(h));
            }
            Ev::DropH(j) => {
                if let Some(h) = self.handles[*j].take() {
                    self.ever_released.insert(h.get());
                    drop(h);
                }
            }
            Ev::AddImplicit => {
                let live = self.live();
                let salt = self.next_salt;
                self.next_salt += 1;
                let d = self.obj(salt).desc(None).unwrap();
                match self.sender.add_object(0, d) {
                    Ok(t) => {
                        self.check_new(t, &live, "add_object (implicit TOI)");
                        self.objects.insert(salt, t);
                    }
                    Err(e) => self.viol.push(("C15/add-refused".into(), e.0.to_string())),
                }
            }
            Ev::AddWith(j) => {
                if let Some(h) = self.handles[*j].take() {
                    let v = h.get();
                    let salt = self.next_salt;
                    self.next_salt += 1;
                    let mut d = self.obj(salt).desc(None).unwrap();
                    d.set_toi(h);
                    match self.sender.add_object(0, d) {
                        Ok(t) => {
                            if t != v {
                                self.viol.push(("C15/add-object-ignores-handle".into(), format!("object added with handle {} got TOI {}", v, t)));
                            }
                            self.objects.insert(salt, t);
                        }
                        Err(e) => self.viol.push(("C15/add-refused".into(), e.0.to_string())),
                    }
                }
            }
            Ev::AddWithTwo(j, k) => {
                if self.handles[*j].is_some() && self.handles[*k].is_some() && j != k {
                    let hj = self.handles[*j].take().unwrap();
                    let hk = self.handles[*k].take().unwrap();
                    let (vj, vk) = (hj.get(), hk.get());
                    let salt = self.next_salt;
                    self.next_salt += 1;
                    let mut d = self.obj(salt).desc(None).unwrap();
                    d.set_toi(hj);
                    d.set_toi(hk);
                    self.ever_released.insert(vj);
                    match self.sender.add_object(0, d) {
                        Ok(t) => {
                            if t != vk {
                                self.viol.push(("C15/add-object-ignores-handle".into(), format!("object given handle {} and then handle {} got TOI {}", vj, vk, t)));
                            }
                            self.objects.insert(salt, t);
                        }
                        Err(e) => self.viol.push(("C15/add-refused".into(), e.0.to_string())),
                    }
                }
            }
            Ev::AddRefused | Ev::AddRefusedWith(_) => {
                let salt = self.next_salt;
                self.next_salt += 1;
                let mut o = self.obj(salt);
                o.oti = Some(OtiSpec::new(Scheme::Rs28, 8, 2, 0, true));
                let mut d = o.desc(None).unwrap();
                if let Ev::AddRefusedWith(j) = ev {
                    match self.handles[*j].take() {
                        Some(h) => {
                            self.ever_released.insert(h.get());
                            d.set_toi(h);
                        }
                        None => return,
                    }
                }
                match self.sender.add_object(0, d) {
                    Ok(t) => self.viol.push(("C15/harness-refusal-expected".into(), format!("an RS object without parity symbols was accepted with TOI {}", t))),
                    Err(_) => self.refusals += 1,
                }
            }
            Ev::Finish => {
                // publish + drain: every object (single transfer) is transmitted and leaves the sender
                self.now_ms += 10;
                let now = at_ms(self.now_ms);
                if self.sender.publish(now).is_err() {
                    self.viol.push(("C15/publish-failed".into(), "publish".into()));
                    return;
                }
                let mut pk = Vec::new();
                drain(&mut self.sender, now, &mut pk, 1000);
                // wire exactness: the packet carrying object `salt`'s bytes carries its TOI; the FDT entry too
                let mut fdt_xml = String::new();
                for (_, p) in &pk {
                    if let Ok(r) = rfc::decode(p) {
                        if r.toi == 0 {
                            fdt_xml.push_str(&String::from_utf8_lossy(r.payload()));
                        }
                    }
                }
                for (salt, toi) in self.objects.clone() {
                    let content = self.obj(salt).content();
                    let mut found = false;
                    for (_, p) in &pk {
                        if let Ok(r) = rfc::decode(p) {
                            if r.toi != 0 && r.payload() == &content[..] {
                                found = true;
                                self.wire_checked += 1;
                                if r.toi != toi {
                                    self.viol.push((
                                        format!("C15/wire-toi-differs/bits{}", self.cfg.bits),
                                        format!("add_object returned TOI {} but the object's packet carries TOI {} (width {} bits)", toi, r.toi, self.cfg.bits),
                                    ));
                                }
                            }
                        }
                    }
                    if !found {
                        self.viol.push(("C15/object-not-on-wire".into(), format!("no packet carries the bytes of object o{} (TOI {})", salt, toi)));
                    }
                    let loc = format!("Content-Location=\"file:///o{}\"", salt);
                    match fdt_xml.find(&loc) {
                        None => self.viol.push(("C15/object-not-in-fdt".into(), format!("FDT does not list file:///o{}", salt))),
                        Some(i) => {
                            // the TOI attribute of the same File element
                            let start = fdt_xml[..i].rfind("<File").unwrap_or(0);
                            let end = fdt_xml[i..].find('>').map(|e| i + e).unwrap_or(fdt_xml.len());
                            let el = &fdt_xml[start..end];
                            let want = format!("TOI=\"{}\"", toi);
                            if !el.contains(&want) {
                                self.viol.push((format!("C15/fdt-toi-differs/bits{}", self.cfg.bits), format!("FDT entry of o{} is {:?}, add_object returned {}", salt, el, toi)));
                            }
                        }
                    }
                    // the object has been sent once and is gone: its TOI is released
                    if !self.sender.is_added(toi) {
                        self.ever_released.insert(toi);
                        self.objects.remove(&salt);
                    }
                }
            }
        }
    }
}

impl Sys for Sys15 {
    type Ev = Ev;
    fn enabled(&self) -> Vec<Ev> {
        let mut v = Vec::new();
        let nh = self.handles.iter().flatten().count();
        if nh < 3 {
            v.push(Ev::Alloc);
        }
        for (j, h) in self.handles.iter().enumerate() {
            if h.is_some() {
                v.push(Ev::DropH(j));
                if self.objects.len() < 3 {
                    v.push(Ev::AddWith(j));
                    for (k, hk) in self.handles.iter().enumerate() {
                        if hk.is_some() && k != j {
                            v.push(Ev::AddWithTwo(j, k));
                        }
                    }
                }
            }
        }
        if self.objects.len() < 3 && self.next_salt < 12 {
            v.push(Ev::AddImplicit);
        }
        if self.next_salt < 12 && self.refusals < 2 {
            v.push(Ev::AddRefused);
            if let Some(j) = self.handles.iter().position(|h| h.is_some()) {
                v.push(Ev::AddRefusedWith(j));
            }
        }
        if !self.objects.is_empty() {
            v.push(Ev::Finish);
        }
        v
    }
    fn apply(&mut self, ev: &Ev) {
        if self.viol.iter().any(|v| v.0.starts_with("C15/panic")) {
            return;
        }
        if let Err(p) = catch(std::panic::AssertUnwindSafe(|| self.step(ev))) {
            self.viol.push((format!("C15/panic/{}", panic_sig(&p)), format!("{:?} panicked: {} (width {} bits, initial {})", ev, p, self.cfg.bits, self.cfg.init)));
        }
    }
    fn fingerprint(&self) -> u64 {
        let hv: Vec<Option<u128>> = self.handles.iter().map(|h| h.as_ref().map(|h| h.get())).collect();
        h64(&(canon_compact(&format!("{:?}", self.sender)), hv, &self.objects, self.next_salt, self.viol.len(), self.refusals))
    }
    fn verdicts(&self) -> Vec<(String, String)> {
        self.viol.clone()
    }
    fn witnesses(&self) -> Vec<&'static str> {
        let mut w = Vec::new();
        if self.wrapped {
            w.push("wrapped");
        }
        if self.reused {
            w.push("released_value_reused");
        }
        if self.refusals > 0 {
            w.push("add_object_refused");
        }
        if self.wire_checked > 0 {
            w.push("wire_toi_checked");
        }
        w
    }
}

pub fn replay(v: &serde_json::Value) -> Vec<Violation> {
    if v["check"] == "cycle" {
        let held: Vec<u128> = v["case"]["held"].as_array().unwrap().iter().map(|x| x.as_str().unwrap().parse().unwrap()).collect();
        let holder = v["case"]["holder"].as_u64().unwrap_or(0) as u8;
        return cycle16(&held, holder).into_iter().map(|(key, what)| Violation { key, what, case: v.clone() }).collect();
    }
    if v["check"] == "loom" {
        let cmd = v["case"]["cmd"].as_str().unwrap_or("mc/target/release/loomtoi");
        let mut parts = cmd.split(' ');
        let exe = format!("/verif/{}", parts.next().unwrap());
        let out = std::process::Command::new(exe).args(parts).output().expect("run loomtoi");
        let txt = String::from_utf8_lossy(&out.stdout).to_string();
        let bad = !out.status.success() || !txt.contains("\"violations\": []");
        return if bad { vec![Violation { key: "C15/concurrent".into(), what: format!("{} {}", txt.trim(), String::from_utf8_lossy(&out.stderr).lines().find(|l| l.contains("panicked")).unwrap_or("")), case: v.clone() }] } else { vec![] };
    }
    let cfg: Cfg = serde_json::from_value(v["case"]["cfg"].clone()).expect("cfg");
    let hist: Vec<Ev> = serde_json::from_value(v["case"]["history"].clone()).expect("history");
    let mut s = Sys15::new(&cfg);
    for e in &hist {
        s.apply(e);
    }
    s.verdicts().into_iter().map(|(key, what)| Violation { key, what, case: v.clone() }).collect()
}

/// complete walk (twice) around the 16-bit TOI space with the given values held the whole time.
/// `holder`: 0 = by a TOI handle, 1 = by a live object the handle was attached to (set_toi + add_object),
/// 2 = by a live object that got the value implicitly (add_object right after the preceding value),
/// 3 = by an object (explicit TOI) that was removed with remove_object while its first transfer is running: the
/// transfer goes on (no immediate stop), so packets with that TOI are still to come and the value stays taken
/// until the transfer ends
pub fn cycle16(held: &[u128], holder: u8) -> Option<(String, String)> {
    let r = catch(|| -> Option<(String, String)> {
        let mut s = SessSpec::basic(OtiSpec::new(Scheme::NoCode, 1424, 64, 0, true));
        s.toi_bits = 16;
        s.toi_init = Some("1".into());
        s.queues = vec![(0, 8)]; // holder 3 keeps up to four objects in transmission at once
        let mut snd = s.sender().unwrap();
        let mut keep: Vec<Box<Toi>> = Vec::new();
        let mut live: BTreeSet<u128> = BTreeSet::new();
        let want: BTreeSet<u128> = held.iter().cloned().collect();
        let how = ["a handle", "a live object (explicit TOI)", "a live object (implicit TOI)", "an object removed during its first transfer, still in transmission"][holder as usize % 4];
        let mut n = 0u64;
        let mut salt = 0u8;
        let mut removed_running: Vec<u128> = Vec::new();
        for _ in 0..(2 * 65536 + 10) {
            let h = snd.allocate_toi();
            n += 1;
            let v = h.get();
            if v == 0 || v > 0xFFFF {
                return Some(("C15/cycle/toi-out-of-range".into(), format!("allocation #{} around the 16-bit space returned {} (held by {}: {:?})", n, v, how, held)));
            }
            if live.contains(&v) {
                return Some(("C15/cycle/toi-not-unique".into(), format!("allocation #{} returned {} which is held by {} (held: {:?})", n, v, how, held)));
            }
            // the value the allocator hands out next: the successor, skipping 0 and what is held
            let mut next = v;
            loop {
                next = if next == 0xFFFF { 1 } else { next + 1 };
                if !live.contains(&next) {
                    break;
                }
            }
            if holder == 2 && want.contains(&next) && !live.contains(&next) {
                drop(h);
                salt = salt.wrapping_add(1);
                let d = ObjSpec::simple(3, salt).desc(None).unwrap();
                match snd.add_object(0, d) {
                    Ok(t) => {
                        n += 1;
                        if t == 0 || t > 0xFFFF || live.contains(&t) {
                            return Some(("C15/cycle/toi-not-unique".into(), format!("add_object after allocation #{} got TOI {} (held by {}: {:?})", n, t, how, live)));
                        }
                        live.insert(t);
                    }
                    Err(e) => return Some(("C15/add-refused".into(), e.0.to_string())),
                }
            } else if holder != 2 && want.contains(&v) {
                live.insert(v);
                if holder == 0 {
                    keep.push(h);
                } else {
                    salt = salt.wrapping_add(1);
                    let mut spec = ObjSpec::simple(if holder == 3 { 4000 } else { 3 }, salt);
                    if holder == 3 {
                        // 1000 packets: the transfer outlasts the reads below by far
                        spec.oti = Some(OtiSpec::new(Scheme::NoCode, 4, 64, 0, true));
                    }
                    let mut d = spec.desc(None).unwrap();
                    d.set_toi(h);
                    match snd.add_object(0, d) {
                        Ok(t) if t == v => {}
                        Ok(t) => return Some(("C15/add-object-ignores-handle".into(), format!("object added with handle {} got TOI {}", v, t))),
                        Err(e) => return Some(("C15/add-refused".into(), e.0.to_string())),
                    }
                    if holder == 3 {
                        // start the transfer, then remove the object from the FDT
                        if let Err(e) = snd.publish(at_ms(0)) {
                            return Some(("C15/harness-publish".into(), e.0.to_string()));
                        }
                        let mut started = false;
                        for _ in 0..64 {
                            match snd.read(at_ms(0)) {
                                Some(p) => {
                                    if crate::rfc::decode(&p).map(|r| r.toi == v).unwrap_or(false) {
                                        started = true;
                                        break;
                                    }
                                }
                                None => break,
                            }
                        }
                        if !started {
                            return Some(("C15/harness-transfer-not-started".into(), format!("no packet of TOI {} within 64 reads", v)));
                        }
                        if !snd.remove_object(v) {
                            return Some(("C15/harness-remove".into(), format!("remove_object({}) returned false", v)));
                        }
                        removed_running.push(v);
                    }
                }
            } else {
                drop(h);
            }
        }
        if live.len() != want.len() {
            return Some(("C15/cycle/held-values-not-reached".into(), format!("held {:?}, reached {:?}", held, live)));
        }
        // the removed objects were really in transmission the whole time: their packets are still coming
        if !removed_running.is_empty() {
            let mut seen: BTreeSet<u128> = BTreeSet::new();
            for _ in 0..20 {
                match snd.read(at_ms(0)) {
                    Some(p) => {
                        if let Ok(r) = crate::rfc::decode(&p) {
                            seen.insert(r.toi);
                        }
                    }
                    None => break,
                }
            }
            if !removed_running.iter().any(|v| seen.contains(v)) {
                return Some(("C15/harness-removed-object-not-in-transmission".into(), format!("no packet of the removed objects {:?} after the walk (saw TOIs {:?})", removed_running, seen)));
            }
        }
        None
    });
    match r {
        Ok(v) => v,
        Err(p) => Some((format!("C15/cycle/panic/{}", panic_sig(&p)), format!("panic: {}", p))),
    }
}

pub fn configs() -> Vec<Cfg> {
    let mut v = Vec::new();
    for bits in [16u8, 32, 48, 64, 80, 112] {
        let max = bits_mask(bits);
        let inits: Vec<u128> = vec![0, 1, max - 1, max, max.wrapping_add(1), (1u128 << 112) + 5, u128::MAX];
        for i in inits {
            v.push(Cfg { bits, init: i.to_string(), obt: false });
        }
    }
    // the widest setting crossing every boundary of the LCT field-size classes (16, 32, ... 96 bits): the
    // allocated value stays the same, its encoding on the wire changes class
    for k in [16u32, 32, 48, 64, 80, 96] {
        v.push(Cfg { bits: 112, init: ((1u128 << k) - 2).to_string(), obt: false });
    }
    // per-transfer FDT instances
    for (bits, init) in [(16u8, 0xFFFEu128), (16, 1), (112, 1), (48, (1u128 << 48) - 2)] {
        v.push(Cfg { bits, init: init.to_string(), obt: true });
    }
    v
}

pub fn run(thorough: bool) -> i32 {
    let mut rep = Report::new("C15", "model_checking", if thorough { "thorough" } else { "quick" });
    let depth = if thorough { 9 } else { 6 };
    let cap = 300_000;
    let mut states = 0u64;
    let mut trans = 0u64;
    let mut wit: BTreeMap<String, u64> = BTreeMap::new();
    let mut per_cfg = Vec::new();
    for cfg in configs() {
        set_run_ctx(Some(json!({"check": "bfs", "cfg": cfg})));
        let (st, found) = bfs(|| Sys15::new(&cfg), depth, cap);
        set_run_ctx(None);
        states += st.states;
        trans += st.transitions;
        for (k, n) in &st.witnesses {
            *wit.entry(k.clone()).or_insert(0) += n;
        }
        per_cfg.push(json!({"cfg": cfg, "states": st.states, "transitions": st.transitions, "capped": st.capped}));
        for f in found {
            rep.add(Violation { key: f.sig, what: f.what, case: json!({"check": "bfs", "case": {"cfg": cfg, "history": f.history}}) });
        }
    }
    // complete cycles of the 16-bit space
    let mut helds: Vec<(Vec<u128>, u8)> = Vec::new();
    for holder in 0..4u8 {
        for h in [vec![], vec![0xFFFFu128], vec![1], vec![0x8000], vec![0xFFFF, 1], vec![0xFFFE, 0xFFFF, 1, 2], vec![0xFFFF, 0x8000, 1]] {
            if holder > 0 && h.is_empty() {
                continue;
            }
            helds.push((h, holder));
        }
    }
    let cres = par_map(&helds, |_, (h, holder)| cycle16(h, *holder));
    let mut cyc = 0u64;
    for ((h, holder), r) in helds.iter().zip(cres) {
        cyc += 2 * 65536 + 10;
        if let Some((key, what)) = r {
            rep.add(Violation { key, what, case: json!({"check": "cycle", "case": {"held": h.iter().map(|x| x.to_string()).collect::<Vec<_>>(), "holder": holder}}) });
        }
    }
    // random default (None): the same unmasked path as the explicit large values; SAMPLING, never deciding alone
    let mut sampled = 0;
    for _ in 0..64 {
        let mut s = SessSpec::basic(OtiSpec::new(Scheme::NoCode, 1424, 64, 0, true));
        s.toi_init = None;
        s.toi_bits = [16u8, 48, 112][sampled % 3];
        let bits = s.toi_bits;
        let r = catch(|| {
            let mut snd = s.sender().unwrap();
            let h = snd.allocate_toi();
            h.get()
        });
        sampled += 1;
        match r {
            Ok(v) if v == 0 || v > bits_mask(bits) => rep.add(Violation { key: format!("C15/toi-exceeds-width/bits{}", bits), what: format!("random initial value: allocate_toi returned {} for width {}", v, bits), case: json!({"check": "bfs", "case": {"cfg": {"bits": bits, "init": v.to_string()}, "history": ["Alloc"]}}) }),
            Err(p) => rep.add(Violation { key: format!("C15/panic/{}", panic_sig(&p)), what: format!("random initial value: {}", p), case: json!({"check": "bfs", "case": {"cfg": {"bits": bits, "init": "0"}, "history": ["Alloc"]}}) }),
            _ => {}
        }
    }
    // E3: loom on the real allocator, one process per body (a failed assertion under loom can end in
    // a double panic that aborts the process: the exit status and the first panic line are the verdict)
    let exe = std::env::current_exe().ok().and_then(|p| p.parent().map(|d| d.join("loomtoi")));
    let mut loom_sched = 0u64;
    let mut loom_cov = Vec::new();
    match exe {
        Some(exe) if exe.exists() => {
            for body in ["a", "b", "c"] {
                let mut cmd = std::process::Command::new(&exe);
                cmd.arg(body);
                if !thorough {
                    cmd.env("LOOM_MAX_PREEMPTIONS", "3");
                }
                match cmd.output() {
                    Ok(out) => {
                        let txt = String::from_utf8_lossy(&out.stdout).to_string();
                        let err = String::from_utf8_lossy(&out.stderr).to_string();
                        if !out.status.success() {
                            let first = err.lines().skip_while(|l| !l.contains("panicked at")).take(2).collect::<Vec<_>>().join(" ");
                            if first.contains("toiallocator.rs") || first.contains("loomtoi") {
                                rep.add(Violation {
                                    key: "C15/concurrent/assertion-under-some-interleaving".into(),
                                    what: format!("loom body {} stopped on: {}", body, first),
                                    case: json!({"check": "loom", "case": {"cmd": format!("mc/target/release/loomtoi {}", body)}}),
                                });
                            } else {
                                rep.machinery(format!("loomtoi {} exited abnormally ({:?}): {}", body, out.status, err.lines().rev().take(3).collect::<Vec<_>>().join(" | ")));
                            }
                            continue;
                        }
                        match serde_json::from_str::<serde_json::Value>(txt.trim()) {
                            Ok(v) => {
                                for b in v["bodies"].as_array().cloned().unwrap_or_default() {
                                    loom_sched += b["schedules"].as_u64().unwrap_or(0);
                                }
                                for x in v["violations"].as_array().cloned().unwrap_or_default() {
                                    rep.add(Violation { key: "C15/concurrent".into(), what: x.as_str().unwrap_or("").to_string(), case: json!({"check": "loom", "case": {"cmd": format!("mc/target/release/loomtoi {}", body)}}) });
                                }
                                loom_cov.push(v);
                            }
                            Err(e) => rep.machinery(format!("loomtoi output not understood: {} / {}", e, txt)),
                        }
                    }
                    Err(e) => rep.machinery(format!("cannot run loomtoi: {}", e)),
                }
            }
            rep.cov("loom", json!(loom_cov));
        }
        _ => rep.machinery("loomtoi binary not found next to fv (build with cargo build --release -p loomtoi)".into()),
    }
    rep.cov("states", states);
    rep.cov("transitions", trans + cyc + loom_sched);
    rep.cov("traces_validated_against_impl", trans + loom_sched);
    rep.cov("evaluations", trans + cyc + loom_sched);
    rep.cov("distinct_nontrivial", states);
    rep.cov("explanation", "states = canonical states of the BFS over the real Sender/allocator; transitions = BFS transitions + allocations of the complete 16-bit cycles + loom schedules of the real toiallocator.rs");
    rep.cov("depth_bound", depth as u64);
    rep.cov("per_config", json!(per_cfg));
    rep.cov("cycle_allocations", cyc);
    rep.cov("loom_schedules", loom_sched);
    rep.cov("random_initial_value_samples_labelled_sampling", sampled as u64);
    rep.guard("wrapped", *wit.get("wrapped").unwrap_or(&0));
    rep.cov("bfs_states_reusing_a_released_value", *wit.get("released_value_reused").unwrap_or(&0));
    rep.guard("complete_laps_of_the_16_bit_space", 2 * helds.len() as u64);
    rep.guard("wire_toi_checked", *wit.get("wire_toi_checked").unwrap_or(&0));
    rep.guard("loom_schedules", loom_sched);
    rep.sample(json!({"cfg": {"bits": 16, "init": "65534"}, "history": ["Alloc", "Alloc", "AddImplicit", {"DropH": 0}, "Finish", "Alloc"]}));
    rep.assume("the RNG-chosen default initial value is exercised 64 times and labelled sampling; the explicit initial values (incl. 2^112+5 and u128::MAX) drive the same code path deterministically");
    rep.finish()
}
