//! C05 — the filesystem writer never touches anything outside its destination directory.
//! Engine: exhaustive enumeration (E4) of a Content-Location grammar to a depth bound, each string
//! delivered through a real FLUTE session into the real ObjectWriterFS inside a sandbox tree with
//! canary files, for the three outcomes complete / error / interrupted.
use crate::fdtxml::*;
use crate::report::*;
use crate::rfc;
use crate::sess::*;
use crate::util::*;
use flute::receiver::writer::ObjectWriterFSBuilder;
use flute::receiver::MultiReceiver;
use serde::{Deserialize, Serialize};
use serde_json::json;
use std::collections::BTreeMap;
use std::path::{Path, PathBuf};
use std::rc::Rc;
use std::sync::Arc;
use std::time::Duration;

#[derive(Serialize, Deserialize, Clone, Debug)]
pub struct Case {
    /// Content-Location with the token `@SANDBOX@` standing for the absolute path of the sandbox root
    pub location: String,
    /// 0 complete, 1 error (MD5 mismatch), 2 interrupted (close flag before the last symbol)
    pub outcome: u8,
}

pub struct Sandbox {
    pub root: PathBuf,
    pub dest: PathBuf,
}

const DEPTH: usize = 7;

impl Sandbox {
    pub fn new(tag: &str) -> Sandbox {
        let root = crate::c01::fresh_tmp(tag).join("sandbox");
        let mut p = root.clone();
        std::fs::create_dir_all(&p).unwrap();
        std::fs::write(p.join("canary"), b"canary-root").unwrap();
        for d in 1..=DEPTH {
            p = p.join(format!("d{}", d));
            std::fs::create_dir_all(&p).unwrap();
            std::fs::write(p.join("canary"), format!("canary-{}", d)).unwrap();
            std::fs::write(p.join("n"), format!("victim-{}", d)).unwrap();
            std::fs::create_dir_all(p.join("sibling")).unwrap();
            std::fs::write(p.join("sibling").join("n"), format!("sibling-{}", d)).unwrap();
        }
        // two otherwise empty directories between the last populated level and the destination: a writer
        // that "tidies up" empty folders too far up removes them (and they are in the snapshot)
        let dest = p.join("e1").join("e2").join("dest");
        std::fs::create_dir_all(&dest).unwrap();
        // siblings whose names EXTEND the destination's name: a confinement test on strings instead of path
        // components takes them for the destination
        for sib in ["dest.bak", "dest2"] {
            let d = p.join("e1").join("e2").join(sib);
            std::fs::create_dir_all(&d).unwrap();
            std::fs::write(d.join("n"), format!("victim-{}", sib)).unwrap();
        }
        Sandbox { root, dest }
    }
    /// everything under the sandbox root except the destination directory: path -> content
    pub fn snapshot(&self) -> BTreeMap<PathBuf, Option<Vec<u8>>> {
        let mut m = BTreeMap::new();
        fn walk(p: &Path, dest: &Path, m: &mut BTreeMap<PathBuf, Option<Vec<u8>>>) {
            if p == dest {
                return;
            }
            if let Ok(rd) = std::fs::read_dir(p) {
                for e in rd.flatten() {
                    let path = e.path();
                    if path == dest {
                        continue;
                    }
                    let md = std::fs::symlink_metadata(&path);
                    if md.as_ref().map(|m| m.is_dir()).unwrap_or(false) {
                        m.insert(path.clone(), None);
                        walk(&path, dest, m);
                    } else {
                        m.insert(path.clone(), Some(std::fs::read(&path).unwrap_or_default()));
                    }
                }
            }
        }
        walk(&self.root, &self.dest, &mut m);
        m
    }
    pub fn clear_dest(&self) {
        let _ = std::fs::remove_dir_all(&self.dest);
        std::fs::create_dir_all(&self.dest).unwrap();
    }
    pub fn dest_files(&self) -> usize {
        fn count(p: &Path) -> usize {
            let mut n = 0;
            if let Ok(rd) = std::fs::read_dir(p) {
                for e in rd.flatten() {
                    if e.path().is_dir() {
                        n += count(&e.path());
                    } else {
                        n += 1;
                    }
                }
            }
            n
        }
        count(&self.dest)
    }
}

impl Drop for Sandbox {
    fn drop(&mut self) {
        if let Some(p) = self.root.parent() {
            let _ = std::fs::remove_dir_all(p);
        }
    }
}

#[derive(Default, Clone)]
pub struct G {
    pub sessions: u64,
    pub created_in_dest: u64,
    pub refused: u64,
    pub with_dotdot: u64,
    pub removed_after_failure: u64,
}

pub fn run_case(sb: &Sandbox, before: &BTreeMap<PathBuf, Option<Vec<u8>>>, c: &Case, g: &mut G) -> Option<(String, String)> {
    g.sessions += 1;
    sb.clear_dest();
    let loc = c.location.replace("@SANDBOXBS@", &sb.root.to_str().unwrap().replace('/', "\\")).replace("@SANDBOX@", sb.root.to_str().unwrap()).replace("@DEST@", sb.dest.to_str().unwrap());
    if loc.contains("..") {
        g.with_dotdot += 1;
    }
    // outcome 3: an EMPTY object (Transfer-Length 0, one packet without payload), complete
    let content = if c.outcome == 3 { Vec::new() } else { obj_bytes(13, 5) };
    let md5 = if c.outcome == 1 { md5_b64(b"something else") } else { md5_b64(&content) };
    let exp = unix_to_ntp_secs(EPOCH_2027 + 3600).to_string();
    let ls = content.len().to_string();
    let xml = FdtX::new(&exp).file(FileX::new("5", &loc).attr("Content-Length", &ls).attr("Transfer-Length", &ls).attr("Content-MD5", &md5)).xml();
    let fdt = fdt_packets(TSI, 1, xml.as_bytes(), 8192, None, None);
    let mut pk: Vec<Vec<u8>> = fdt;
    if c.outcome == 3 {
        let mut sp = rfc::Spec::minimal(rfc::FEC_NOCODE, TSI, 5);
        sp.exts.push(rfc::fti_nocode(0, 8, 64));
        sp.payload_id = rfc::pid(rfc::FEC_NOCODE, 0, 0, 0, 8);
        sp.b = true;
        pk.push(rfc::encode(&sp));
    }
    for j in 0..(if c.outcome == 3 { 0 } else { 2usize }) {
        let mut sp = rfc::Spec::minimal(rfc::FEC_NOCODE, TSI, 5);
        sp.exts.push(rfc::fti_nocode(13, 8, 64));
        sp.payload_id = rfc::pid(rfc::FEC_NOCODE, 0, j as u32, 0, 8);
        sp.payload = content[j * 8..((j + 1) * 8).min(13)].to_vec();
        if c.outcome == 2 && j == 0 {
            sp.b = true; // close-object flag while a symbol is still missing => interrupted
        }
        pk.push(rfc::encode(&sp));
        if c.outcome == 2 {
            break;
        }
    }
    let r = catch(|| {
        let b = Rc::new(ObjectWriterFSBuilder::new(&sb.dest, true).expect("dest is a directory"));
        let mut rx = MultiReceiver::new(b, Some(recv_config(true)), false);
        for p in &pk {
            let _ = rx.push(&endpoint(), p, t0());
        }
        drop(rx);
    });
    if let Err(p) = r {
        return Some((format!("C05/panic/{}", panic_sig(&p)), format!("panic with Content-Location {:?}: {}", loc, p)));
    }
    if !sb.dest.is_dir() {
        // the destination directory itself is not "inside" the destination directory
        let _ = std::fs::create_dir_all(&sb.dest);
        return Some((
            "C05/destination-directory-removed".into(),
            format!("Content-Location {:?} ({}): the destination directory itself no longer exists after the session", loc, ["complete", "error", "interrupted", "empty object"][c.outcome as usize]),
        ));
    }
    let after = sb.snapshot();
    if &after != before {
        let mut diffs = Vec::new();
        for (k, v) in &after {
            match before.get(k) {
                None => diffs.push(format!("created {}", k.strip_prefix(&sb.root).unwrap_or(k).display())),
                Some(b) if b != v => diffs.push(format!("modified {}", k.strip_prefix(&sb.root).unwrap_or(k).display())),
                _ => {}
            }
        }
        for k in before.keys() {
            if !after.contains_key(k) {
                diffs.push(format!("deleted {}", k.strip_prefix(&sb.root).unwrap_or(k).display()));
            }
        }
        // restore the sandbox for the next case
        for (k, v) in &after {
            if !before.contains_key(k) {
                if v.is_some() {
                    let _ = std::fs::remove_file(k);
                } else {
                    let _ = std::fs::remove_dir_all(k);
                }
            }
        }
        for (k, v) in before {
            match v {
                Some(bytes) => {
                    if let Some(p) = k.parent() {
                        let _ = std::fs::create_dir_all(p);
                    }
                    let _ = std::fs::write(k, bytes);
                }
                None => {
                    let _ = std::fs::create_dir_all(k);
                }
            }
        }
        let kind = if loc.starts_with('/') || loc.contains("@") {
            "absolute-or-rooted"
        } else if url::Url::parse(&loc).map(|u| u.cannot_be_a_base()).unwrap_or(false) {
            "opaque-url"
        } else if url::Url::parse(&loc).is_err() {
            "relative-reference"
        } else {
            "hierarchical-url"
        };
        return Some((
            format!("C05/escapes-destination/{}", kind),
            format!("Content-Location {:?} ({}): outside the destination directory: {}", loc, ["complete", "error", "interrupted", "empty object"][c.outcome as usize], diffs.join(", ")),
        ));
    }
    let n = sb.dest_files();
    match c.outcome {
        0 => {
            if n > 0 {
                g.created_in_dest += 1;
            } else {
                g.refused += 1;
            }
        }
        _ => {
            if n == 0 {
                g.removed_after_failure += 1;
            }
        }
    }
    None
}

pub fn replay(v: &serde_json::Value) -> Vec<Violation> {
    let c: Case = serde_json::from_value(v["case"].clone()).expect("case");
    let sb = Sandbox::new("c05r");
    let before = sb.snapshot();
    let mut g = G::default();
    run_case(&sb, &before, &c, &mut g).into_iter().map(|(key, what)| Violation { key, what, case: v.clone() }).collect()
}

pub fn locations(depth: usize) -> Vec<String> {
    let prefixes = ["file:///", "file://host/", "http://h/", "x:", "x:/", "x://h/", "", "/", "//"];
    let segs = ["n", ".", "..", "", "%2e%2e", "..%2f", "a\\..\\b", "@SANDBOX@/d1/n"];
    let mut paths: Vec<String> = vec![String::new()];
    let mut cur: Vec<Vec<&str>> = vec![vec![]];
    for _ in 0..depth {
        let mut next = Vec::new();
        for c in &cur {
            for s in segs {
                let mut n = c.clone();
                n.push(s);
                next.push(n);
            }
        }
        for n in &next {
            paths.push(n.join("/"));
        }
        cur = next;
    }
    let mut out = Vec::new();
    for p in prefixes {
        for path in &paths {
            out.push(format!("{}{}", p, path));
        }
    }
    out
}

pub fn run(thorough: bool) -> i32 {
    let mut rep = Report::new("C05", "exploration", if thorough { "thorough" } else { "quick" });
    let depth = if thorough { 5 } else { 3 };
    let mut locs = locations(depth);
    // deeper strings over a reduced alphabet (names of folders that do not exist yet, '.', '..'): escapes that
    // depend on the state of the destination (a '..' run through a folder still to be created) need more
    // segments than the full alphabet affords in the quick tier
    {
        let prefixes = ["file:///", "http://h/", "x:", "x:/", "", "/"];
        let segs = ["fresh", "n", ".", ".."];
        let maxd = if thorough { 6 } else { 5 };
        let mut cur: Vec<Vec<&str>> = vec![vec![]];
        for d in 1..=maxd {
            let mut next = Vec::new();
            for c in &cur {
                for sg in segs {
                    let mut n = c.clone();
                    n.push(sg);
                    next.push(n);
                }
            }
            if d > depth {
                for n in &next {
                    if n.contains(&"..") && *n.last().unwrap() != "." && *n.last().unwrap() != ".." {
                        for p in prefixes {
                            locs.push(format!("{}{}", p, n.join("/")));
                        }
                    }
                }
            }
            cur = next;
        }
        // backslashes: harmless bytes of a file name on this platform - unless something turns them into
        // separators after the confinement decision was taken
        let heads = ["", "n/", "./", "../", "n/n/", "n/../", "fresh/"];
        let tails = ["..\\n", "..\\..\\n", "a\\..\\..\\n", "@SANDBOXBS@\\d1\\n", "..\\..\\..\\d7\\n", "n\\..\\..\\n", "\\..\\n"];
        for p in ["file:///", "file://host/", "http://h/", "x:", "x:/", "x://h/", "", "/", "//"] {
            for h in heads {
                for t in tails {
                    locs.push(format!("{}{}{}", p, h, t));
                }
            }
        }
        // absolute paths next to the destination, behind every prefix
        for p in ["file:///", "file://host/", "http://h/", "x:", "x:/", "x://h/", "", "/", "//"] {
            for t in ["@DEST@.bak/n", "@DEST@2/n", "@DEST@.bak/sub/new", "@DEST@2/sub/new", "@DEST@/../dest.bak/n", "@DEST@/inside", "@DEST@.bak", "@DEST@"] {
                locs.push(format!("{}{}", p, t));
            }
        }
        locs.sort();
        locs.dedup();
    }
    let nloc = locs.len();
    // chunks of locations, one sandbox per chunk
    let chunk = 400;
    let chunks: Vec<Vec<String>> = locs.chunks(chunk).map(|c| c.to_vec()).collect();
    let res = par_map_wd(
        Arc::new(chunks),
        Duration::from_secs(600),
        |_, locs| {
            let sb = Sandbox::new("c05");
            let before = sb.snapshot();
            let mut g = G::default();
            let mut found: BTreeMap<String, (String, Case)> = BTreeMap::new();
            for l in locs {
                for outcome in 0..4u8 {
                    let c = Case { location: l.clone(), outcome };
                    if let Some((k, w)) = run_case(&sb, &before, &c, &mut g) {
                        found.entry(k).or_insert((w, c));
                    }
                }
            }
            (g, found)
        },
        |_, locs| {
            let mut f = BTreeMap::new();
            f.insert("C05/hang".to_string(), ("chunk did not finish in 600 s".to_string(), Case { location: locs[0].clone(), outcome: 0 }));
            (G::default(), f)
        },
    );
    let mut g = G::default();
    for (gg, found) in res {
        g.sessions += gg.sessions;
        g.created_in_dest += gg.created_in_dest;
        g.refused += gg.refused;
        g.with_dotdot += gg.with_dotdot;
        g.removed_after_failure += gg.removed_after_failure;
        for (key, (what, case)) in found {
            rep.add(Violation { key, what, case: json!({"check": "location", "case": serde_json::to_value(&case).unwrap()}) });
        }
    }
    rep.cov("evaluations", g.sessions);
    rep.cov("distinct_nontrivial", g.with_dotdot);
    rep.cov("rule", format!("every Content-Location = prefix in {{file:///, file://host/, http://h/, x:, x:/, x://h/, none, /, //}} followed by every sequence of at most {} segments from {{n, ., .., empty, %2e%2e, ..%2f, a\\..\\b, an absolute path inside the sandbox}}, put in a harness-written FDT and delivered through a real session into ObjectWriterFS for each outcome complete / error (MD5 mismatch) / interrupted; the sandbox tree minus the destination directory (7 levels of ancestors and siblings with canary and victim files) must be bit-identical afterwards. Non-trivial = the string contains '..'. All strings are distinct.", depth));
    rep.cov("exhaustive", true);
    rep.cov("locations", nloc as u64);
    rep.cov("segment_depth", depth as u64);
    rep.guard("sessions_creating_a_file_in_dest", g.created_in_dest);
    rep.guard("locations_with_dotdot", g.with_dotdot);
    rep.guard("failed_outcomes_leaving_dest_empty", g.removed_after_failure);
    rep.cov("complete_sessions_refused_or_without_file", g.refused);
    rep.sample(json!({"location": "x:../../n", "outcome": 0}));
    rep.sample(json!({"location": "file:///n/../%2e%2e/n", "outcome": 1}));
    rep.assume("random strings (named in the quantifier) are sampling and are not used; the destination is 7 directories deep so that an escape stays inside the sandbox root, which is what is scanned");
    rep.finish()
}
