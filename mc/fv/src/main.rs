//! fv — model-checking harness for the flute properties C01..C20.
//! usage: fv <id> [--tier quick|thorough]   |   fv replay <path>
mod alloc;
mod canon;
mod monitor;
mod report;
mod rfc;
mod seqx;
mod sess;
mod statex;
mod util;

mod c01;
mod c02;
mod c03;
mod c04;
mod c05;
mod fdtxml;
mod c06;
mod c07;
mod c08;
mod c09;
mod c10;
mod c11;
mod c12;
mod c13;
mod c14;
mod c15;
mod c16;
mod c17;
mod c18;
mod c19;
mod c20;
mod sendsys;
mod chan;

#[global_allocator]
static GLOBAL: alloc::Counting = alloc::Counting;

extern "C" {
    fn dup(fd: i32) -> i32;
    fn dup2(a: i32, b: i32) -> i32;
    fn open(path: *const u8, flags: i32, ...) -> i32;
}

/// flute's filesystem writer prints to stdout; keep the real stdout for verdict lines only.
fn silence_flute_stdout() {
    unsafe {
        let saved = dup(1);
        let null = open(b"/dev/null\0".as_ptr(), 1 /* O_WRONLY */);
        if saved >= 0 && null >= 0 {
            dup2(null, 1);
            report::set_out_fd(saved);
        }
    }
}

fn main() {
    let args: Vec<String> = std::env::args().collect();
    if args.len() < 2 {
        eprintln!("usage: fv <id> [--tier quick|thorough] | fv replay <path>");
        std::process::exit(2);
    }
    util::quiet_panics();
    silence_flute_stdout();
    let mut tier = std::env::var("VERIF_TIER").unwrap_or_else(|_| "quick".into());
    let mut i = 2;
    while i < args.len() {
        if args[i] == "--tier" && i + 1 < args.len() {
            tier = args[i + 1].clone();
            i += 1;
        }
        i += 1;
    }
    let code = if args[1] == "replay" {
        let path = args.get(2).expect("replay <path>");
        let txt = std::fs::read_to_string(path).expect("read replay file");
        let v: serde_json::Value = serde_json::from_str(&txt).expect("replay json");
        let id = v["property"].as_str().unwrap_or("").to_string();
        let out = util::catch_harness(|| match id.as_str() {
            "C01" => c01::replay(&v["replay"]),
            "C02" => c02::replay(&v["replay"]),
            "C03" => c03::replay(&v["replay"]),
            "C04" => c04::replay(&v["replay"]),
            "C05" => c05::replay(&v["replay"]),
            "C06" => c06::replay(&v["replay"]),
            "C07" => c07::replay(&v["replay"]),
            "C08" => c08::replay(&v["replay"]),
            "C09" => c09::replay(&v["replay"]),
            "C10" => c10::replay(&v["replay"]),
            "C11" => c11::replay(&v["replay"]),
            "C12" => c12::replay(&v["replay"]),
            "C13" => c13::replay(&v["replay"]),
            "C14" => c14::replay(&v["replay"]),
            "C15" => c15::replay(&v["replay"]),
            "C16" => c16::replay(&v["replay"]),
            "C17" => c17::replay(&v["replay"]),
            "C18" => c18::replay(&v["replay"]),
            "C19" => c19::replay(&v["replay"]),
            "C20" => c20::replay(&v["replay"]),
            _ => {
                eprintln!("no replay for {}", id);
                std::process::exit(2);
            }
        });
        let out = match out {
            Ok(o) => o,
            Err(p) => {
                report::outln(&format!("MACHINERY-ERROR replay: the harness panicked: {}", p));
                eprintln!("MACHINERY-ERROR replay: the harness panicked: {}", p);
                std::process::exit(2);
            }
        };
        for v in &out {
            report::outln(&format!("REPRODUCED signature={} what={}", v.key, v.what));
        }
        if out.is_empty() {
            report::outln("replay: no violation reproduced");
            0
        } else {
            1
        }
    } else {
        let thorough = tier == "thorough";
        let id = args[1].to_uppercase();
        alloc::set_current_check(&id);
        let r = util::catch_harness(|| match id.as_str() {
            "C01" => c01::run(thorough),
            "C02" => c02::run(thorough),
            "C03" => c03::run(thorough),
            "C04" => c04::run(thorough),
            "C05" => c05::run(thorough),
            "C06" => c06::run(thorough),
            "C07" => c07::run(thorough),
            "C08" => c08::run(thorough),
            "C09" => c09::run(thorough),
            "C10" => c10::run(thorough),
            "C11" => c11::run(thorough),
            "C12" => c12::run(thorough),
            "C13" => c13::run(thorough),
            "C14" => c14::run(thorough),
            "C15" => c15::run(thorough),
            "C16" => c16::run(thorough),
            "C17" => c17::run(thorough),
            "C18" => c18::run(thorough),
            "C19" => c19::run(thorough),
            "C20" => c20::run(thorough),
            other => {
                eprintln!("unknown check {}", other);
                2
            }
        });
        match r {
            Ok(c) => c,
            Err(p) => {
                // a panic that escaped every catch around the subject is the harness's own: never a verdict
                report::outln(&format!("MACHINERY-ERROR {}: the harness panicked: {}", id, p));
                eprintln!("MACHINERY-ERROR {}: the harness panicked: {}", id, p);
                2
            }
        }
    };
    std::process::exit(code);
}
