//! C09 — object-writer protocol: open once, writes forming a prefix, at most one terminal call,
//! nothing after; complete only with the exact content; every opened writer is terminated when the
//! receiver is dropped. Engine: seqx (deviation-bounded exploration of environment answers:
//! builder decision, open failure, write failure at any call, drop / timeout+cleanup at any packet).
use crate::chan::*;
use crate::monitor::*;
use crate::report::*;
use crate::seqx::*;
use crate::sess::*;
use crate::util::*;
use flute::receiver::MultiReceiver;
use serde::{Deserialize, Serialize};
use serde_json::json;
use std::cell::RefCell;
use std::rc::Rc;
use std::sync::Mutex;
use std::time::Duration;

#[derive(Serialize, Deserialize, Clone, Debug)]
pub struct Cfg {
    pub scheme: Scheme,
    pub e: u16,
    pub b: u16,
    pub parity: u16,
    pub len: usize,
    pub cenc: u8,
    pub inband_fti: bool,
    pub count: u32,
    pub md5: bool,
    /// delivery order: 0 emission, 1 reverse, 2 FDT last, 3 drop one source symbol, 4 every packet twice,
    /// 5 object packets only (no FDT), 6 FDT only, 7 emission order without the first symbol of any
    /// block (every block stays pending), 8 emission order with hostile copies of the third object
    /// packet injected after the second one (each payload-id byte in turn set to 0xFF), 9 every object packet,
    /// then malformed copies of the last one (cut inside / right before the FEC payload id, codepoint of another
    /// scheme with a longer payload id), then the FDT: everything waits in the cache and is replayed at once, 10 the first object packet, then the
    /// FDT, then the rest (the OTI is learnt from the packet's EXT_FTI, the FDT attaches afterwards)
    pub order: u8,
    /// receiver configured with a 10-byte object cache (a third pending block is refused)
    #[serde(default)]
    pub small_cache: bool,
    /// (with crafted_fdt) the FDT announces the Content-MD5 of other bytes: a stale or wrong FDT
    #[serde(default)]
    pub wrong_md5: bool,
    /// the content encoding is announced in the FDT only although the FTI travels in-band
    #[serde(default)]
    pub split_cenc: bool,
    /// replace the sender's FDT by a harness-written instance WITHOUT FEC-OTI attributes, so that
    /// the OTI only arrives in-band after the object has been attached to the FDT
    #[serde(default)]
    pub crafted_fdt: bool,
    /// receiver configured with object_receive_once = false (a repeated transfer restarts the object)
    #[serde(default)]
    pub receive_twice: bool,
    /// RaptorQ / Raptor symbol alignment and number of sub-blocks (0 = 1)
    #[serde(default)]
    pub al: u8,
    #[serde(default)]
    pub n: u16,
}

#[derive(Serialize, Deserialize, Clone, Debug)]
pub struct Case {
    pub cfg: Cfg,
    pub choices: Vec<u32>,
}

pub struct Prepared {
    pub rec: Rec,
    pub seq: Vec<usize>,
    pub content: Vec<u8>,
    pub toi: u128,
}

pub fn prepare(c: &Cfg) -> Result<Prepared, String> {
    let mut o = ObjSpec::simple(c.len, 8);
    let mut oti = OtiSpec::new(c.scheme, c.e, c.b, c.parity, c.inband_fti);
    if c.al > 0 {
        oti.al = c.al;
    }
    if c.n > 0 {
        oti.n = c.n;
    }
    o.oti = Some(oti);
    o.cenc = c.cenc;
    o.text = c.cenc != 0;
    o.inband_cenc = c.inband_fti && !c.split_cenc;
    o.count = c.count;
    o.md5 = c.md5;
    let spec = RecSpec { sess: SessSpec::basic(OtiSpec::new(Scheme::NoCode, 1424, 64, 0, true)), objs: vec![o.clone()], polls_ms: vec![0] };
    let mut rec = record(&spec)?;
    let toi = rec.objs[0].0;
    if c.crafted_fdt {
        let tl = rec.objs[0].2;
        let exp = unix_to_ntp_secs(EPOCH_2027 + 3600).to_string();
        let mut f = crate::fdtxml::FileX::new(&toi.to_string(), &o.location).attr("Content-Length", &c.len.to_string()).attr("Transfer-Length", &tl.to_string()).attr("Content-Type", "a/b");
        if c.md5 {
            f = f.attr("Content-MD5", &if c.wrong_md5 { md5_b64(b"not the object") } else { md5_b64(&o.content()) });
        }
        if c.cenc != 0 {
            f = f.attr("Content-Encoding", ["null", "zlib", "deflate", "gzip"][c.cenc as usize]);
        }
        let xml = crate::fdtxml::FdtX::new(&exp).file(f).xml();
        let t = rec.pkts[0].0;
        let fdt = crate::fdtxml::fdt_packets(TSI, 1, xml.as_bytes(), 4096, None, None);
        let keep: Vec<usize> = (0..rec.pkts.len()).filter(|i| rec.info[*i].toi != 0).collect();
        let mut pk: Vec<(std::time::SystemTime, Vec<u8>)> = fdt.into_iter().map(|p| (t, p)).collect();
        pk.extend(keep.iter().map(|i| rec.pkts[*i].clone()));
        rec.info = pk.iter().map(|p| info_of(&p.1).unwrap()).collect();
        rec.pkts = pk;
    }
    let n = rec.pkts.len();
    let fdt = rec.fdt_idx();
    let obj = rec.obj_idx(toi);
    let mut hostile: Vec<usize> = Vec::new();
    if c.order == 8 && obj.len() >= 3 {
        let src = obj[2];
        let bytes = rec.pkts[src].1.clone();
        let hdr = bytes[2] as usize * 4;
        let idl = if c.scheme == Scheme::Rs28Us { 8 } else { 4 };
        for k in 0..idl {
            if hdr + k < bytes.len() {
                let mut b = bytes.clone();
                b[hdr + k] = 0xFF;
                rec.pkts.push((rec.pkts[src].0, b));
                rec.info.push(rec.info[src].clone());
                hostile.push(rec.pkts.len() - 1);
            }
        }
    }
    if c.order == 9 && !obj.is_empty() {
        let src = *obj.last().unwrap();
        let bytes = rec.pkts[src].1.clone();
        let hdr = (bytes[2] as usize * 4).min(bytes.len());
        let mut variants: Vec<Vec<u8>> = vec![bytes[..hdr].to_vec(), bytes[..(hdr + 2).min(bytes.len())].to_vec()];
        let mut other = bytes[..(hdr + 4).min(bytes.len())].to_vec();
        other[3] = if c.scheme == Scheme::Rs28Us { 0 } else { 129 };
        variants.push(other);
        for b in variants {
            rec.pkts.push((rec.pkts[src].0, b));
            rec.info.push(rec.info[src].clone());
            hostile.push(rec.pkts.len() - 1);
        }
    }
    let seq: Vec<usize> = match c.order {
        9 => obj.iter().chain(hostile.iter()).chain(fdt.iter()).cloned().collect(),
        10 => obj.iter().take(1).chain(fdt.iter()).chain(obj.iter().skip(1)).cloned().collect(),
        7 => (0..n).filter(|i| !(rec.info[*i].toi == toi && rec.info[*i].esi == 0)).collect(),
        8 => {
            let cut = obj.get(1).map(|i| i + 1).unwrap_or(n);
            (0..cut).chain(hostile.iter().cloned()).chain(cut..n).collect()
        }
        0 => (0..n).collect(),
        1 => (0..n).rev().collect(),
        2 => obj.iter().chain(fdt.iter()).cloned().collect(),
        3 => (0..n).filter(|i| !(rec.info[*i].toi == toi && rec.info[*i].sbn == 0 && rec.info[*i].esi == 0)).collect(),
        4 => (0..n).flat_map(|i| [i, i]).collect(),
        5 => obj.clone(),
        _ => fdt.clone(),
    };
    Ok(Prepared { rec, seq, content: o.content(), toi })
}

const L_BUILDER: u32 = 1;
const L_OPEN: u32 = 2;
const L_WRITE: u32 = 3;
const L_DROP: u32 = 4;
const L_TIMEOUT: u32 = 5;

#[derive(Clone, Debug, Default)]
pub struct Obs {
    pub logs: Vec<String>,
    pub violation: Option<(String, String)>,
    pub opened: usize,
    pub completes: usize,
    pub faults: (u32, u32, u32, u32, u32),
}

pub fn body(p: &Prepared, cfg: &Cfg, ch: &mut Chooser) -> Obs {
    let cell = Rc::new(RefCell::new(std::mem::replace(ch, Chooser::replay(vec![]))));
    let c2 = cell.clone();
    let faults = Rc::new(RefCell::new((0u32, 0u32, 0u32, 0u32, 0u32)));
    let f2 = faults.clone();
    let plan: Plan = Rc::new(RefCell::new(move |q: Ask| -> u32 {
        let mut ch = c2.borrow_mut();
        match q {
            Ask::Builder => {
                let r = ch.choose(L_BUILDER, 3);
                if r != 0 {
                    f2.borrow_mut().0 += 1;
                }
                r
            }
            Ask::Open => {
                let r = ch.choose(L_OPEN, 2);
                if r != 0 {
                    f2.borrow_mut().1 += 1;
                }
                r
            }
            Ask::Write => {
                let r = ch.choose(L_WRITE, 2);
                if r != 0 {
                    f2.borrow_mut().2 += 1;
                }
                r
            }
        }
    }));
    let mon = Mon::with_plan(cfg.md5, plan);
    flute::verif::clock_reset(0);
    let mut obs = Obs::default();
    let res = catch(|| {
        let mut rc = recv_config(!cfg.receive_twice);
        if cfg.small_cache {
            rc.object_max_cache_size = Some(10);
        }
        let mut rx = Some(MultiReceiver::new(mon.builder(), Some(rc), false));
        let ep = endpoint();
        let mut t = p.rec.pkts[0].0;
        for &i in &p.seq {
            if let Some(r) = rx.as_mut() {
                let _ = r.push(&ep, &p.rec.pkts[i].1, t);
            }
            t += Duration::from_millis(1);
            if rx.is_some() {
                let d = cell.borrow_mut().choose(L_DROP, 2);
                if d == 1 {
                    faults.borrow_mut().3 += 1;
                    rx = None; // receiver dropped here
                }
            }
            if rx.is_some() {
                let d = cell.borrow_mut().choose(L_TIMEOUT, 2);
                if d == 1 {
                    faults.borrow_mut().4 += 1;
                    flute::verif::clock_advance(Duration::from_secs(11));
                    t += Duration::from_secs(11);
                    rx.as_mut().unwrap().cleanup(t);
                }
            }
        }
        drop(rx);
    });
    // the plan closure holds a clone of `cell`: release it before taking the chooser back
    *mon.0.plan.borrow_mut() = None;
    let chooser = match Rc::try_unwrap(cell) {
        Ok(c) => c.into_inner(),
        Err(_) => panic!("chooser still shared (machinery)"),
    };
    *ch = chooser;
    obs.faults = *faults.borrow();
    if let Err(pm) = res {
        obs.violation = Some((format!("C09/panic/{}", panic_sig(&pm)), format!("panic: {}", pm)));
        return obs;
    }
    let ctx = format!("{}{}", if p.content.is_empty() { "/empty-object" } else { "" }, if cfg.cenc != 0 { "/cenc" } else { "" });
    for w in mon.writers() {
        if w.toi != p.toi {
            continue;
        }
        obs.logs.push(w.short());
        if w.opened() {
            obs.opened += 1;
        }
        if let Some(b) = w.protocol_breach() {
            // strip the call index to keep the signature stable
            let b0 = b.split('(').next().unwrap().to_string();
            obs.violation = Some((format!("C09/{}{}", b0, ctx), format!("writer log [{}]: {}", w.short(), b)));
            return obs;
        }
        let d = w.data();
        // a forged packet (order 8) is indistinguishable from a repair symbol with other content: what the
        // decoder then writes is not the sender's object, and only the MD5 can tell (C03). The content
        // clauses are evaluated on authentic histories, the call-protocol clauses on all of them.
        let authentic = cfg.order != 8;
        if authentic && (d.len() > p.content.len() || d[..] != p.content[..d.len()]) {
            obs.violation = Some((format!("C09/writes-not-a-prefix{}", ctx), format!("writer log [{}]: {} bytes written are not a prefix of the {}-byte object", w.short(), d.len(), p.content.len())));
            return obs;
        }
        if w.is_complete() && cfg.wrong_md5 && cfg.md5 {
            obs.violation = Some((format!("C09/complete-despite-md5-mismatch{}", ctx), format!("writer log [{}]: the FDT announces another Content-MD5 and the writer asks for the check, yet the object was reported complete", w.short())));
            return obs;
        }
        if w.is_complete() {
            obs.completes += 1;
            if d != p.content && (authentic || cfg.md5) {
                obs.violation = Some((format!("C09/complete-with-partial-content{}", ctx), format!("writer log [{}]: complete after {} of {} bytes", w.short(), d.len(), p.content.len())));
                return obs;
            }
            if w.calls.iter().any(|c| matches!(c, Call::Write(_, _, false))) {
                obs.violation = Some((format!("C09/complete-after-failed-write{}", ctx), format!("writer log [{}]", w.short())));
                return obs;
            }
        }
        // the receiver has been dropped: every opened writer must be Done
        if w.opened() && w.terminal() == Terminal::None {
            obs.violation = Some((format!("C09/opened-writer-never-terminated{}", ctx), format!("writer log [{}] has no terminal call although the receiver was dropped", w.short())));
            return obs;
        }
    }
    obs
}

pub fn replay(v: &serde_json::Value) -> Vec<Violation> {
    let c: Case = serde_json::from_value(v["case"].clone()).expect("case");
    let p = prepare(&c.cfg).expect("prepare");
    let mut ch = Chooser::replay(c.choices.clone());
    let o = body(&p, &c.cfg, &mut ch);
    if let Some(d) = &ch.diverged {
        eprintln!("replay diverged: {}", d);
    }
    eprintln!("writer logs: {:?}; choice points: {:?}", o.logs, ch.trace.iter().map(|p| (p.label, p.chosen)).collect::<Vec<_>>());
    o.violation.into_iter().map(|(key, what)| Violation { key, what, case: v.clone() }).collect()
}

fn configs(thorough: bool) -> Vec<Cfg> {
    let mut v = Vec::new();
    let base: Vec<(Scheme, u16, u16, u16, usize, u8)> = vec![
        (Scheme::NoCode, 4, 2, 0, 11, 0),
        (Scheme::NoCode, 4, 2, 0, 0, 0),
        (Scheme::NoCode, 16, 2, 0, 40, 3),
        (Scheme::Rs28, 4, 2, 1, 11, 0),
        (Scheme::RaptorQ, 4, 2, 1, 7, 0),
        (Scheme::Raptor, 2, 4, 1, 8, 0),
        (Scheme::Rs28Us, 4, 2, 1, 7, 0),
        (Scheme::NoCode, 4, 2, 0, 0, 3),
        // content-encoded objects of three and more blocks of unequal size (the inflater's input ring wraps)
        (Scheme::NoCode, 4, 5, 0, 40, 3),
        (Scheme::NoCode, 4, 3, 0, 70, 1),
        (Scheme::Rs28, 4, 5, 1, 45, 2),
        // RaptorQ objects of several blocks whose length leaves a remainder against Z * T (the receiver has to rebuild
        // the block structure from (F, T, Z) when the FTI comes in-band)
        (Scheme::RaptorQ, 16, 4, 1, 97, 0),
        (Scheme::RaptorQ, 4, 2, 1, 21, 0),
        (Scheme::Raptor, 4, 4, 1, 31, 0),
    ];
    for (scheme, e, b, parity, len, cenc) in base {
        for inband_fti in [true, false] {
            for count in [1u32, 2] {
                for md5 in [true, false] {
                    if !thorough && (count == 2 && scheme != Scheme::NoCode || !md5 && cenc == 0 && scheme != Scheme::NoCode) {
                        continue;
                    }
                    if cenc == 0 && len > 0 && count == 1 {
                        // malformed and cache-exhausting histories (the writer is open when the receiver gives up)
                        v.push(Cfg { scheme, e, b, parity, len, cenc, inband_fti, count, md5, order: 8, crafted_fdt: false, receive_twice: false, small_cache: false, wrong_md5: false, split_cenc: false, al: 0, n: 0 });
                        v.push(Cfg { scheme, e, b, parity, len, cenc, inband_fti, count, md5, order: 9, crafted_fdt: false, receive_twice: false, small_cache: false, wrong_md5: false, split_cenc: false, al: 0, n: 0 });
                        for order in [0u8, 1, 7] {
                            v.push(Cfg { scheme, e, b, parity, len: len + 5 * e as usize * b as usize, cenc, inband_fti, count, md5, order, crafted_fdt: false, receive_twice: false, small_cache: true, wrong_md5: false, split_cenc: false, al: 0, n: 0 });
                        }
                    }
                    if cenc != 0 && inband_fti && len > 0 && count == 1 {
                        for order in [0u8, 1, 2, 4] {
                            v.push(Cfg { scheme, e, b, parity, len, cenc, inband_fti, count, md5, order, crafted_fdt: false, receive_twice: false, small_cache: false, wrong_md5: false, split_cenc: true, al: 0, n: 0 });
                        }
                    }
                    for order in (0..7u8).chain([10u8]) {
                        v.push(Cfg { scheme, e, b, parity, len, cenc, inband_fti, count, md5, order, crafted_fdt: false, receive_twice: false, small_cache: false, wrong_md5: false, split_cenc: false, al: 0, n: 0 });
                        if count == 2 && order <= 2 {
                            v.push(Cfg { scheme, e, b, parity, len, cenc, inband_fti, count, md5, order, crafted_fdt: false, receive_twice: true, small_cache: false, wrong_md5: false, split_cenc: false, al: 0, n: 0 });
                        }
                        if inband_fti && md5 && order <= 2 && len > 0 {
                            v.push(Cfg { scheme, e, b, parity, len, cenc, inband_fti, count, md5, order, crafted_fdt: true, receive_twice: false, small_cache: false, wrong_md5: true, split_cenc: false, al: 0, n: 0 });
                        }
                        if inband_fti && order <= 4 && (thorough || order != 1) {
                            v.push(Cfg { scheme, e, b, parity, len, cenc, inband_fti, count, md5, order, crafted_fdt: true, receive_twice: false, small_cache: false, wrong_md5: false, split_cenc: false, al: 0, n: 0 });
                        }
                    }
                }
            }
        }
    }
    // RaptorQ with sub-blocks and an alignment (T / Al a multiple of N or not), with and without MD5
    for (e, b, al, n, len) in [(12u16, 2u16, 4u8, 2u16, 40usize), (16, 2, 4, 2, 40), (24, 3, 4, 3, 100), (12, 2, 1, 2, 40)] {
        for md5 in [true, false] {
            for order in [0u8, 1, 2] {
                v.push(Cfg { scheme: Scheme::RaptorQ, e, b, parity: 2, len, cenc: 0, inband_fti: order != 2, count: 1, md5, order, crafted_fdt: false, receive_twice: false, small_cache: false, wrong_md5: false, split_cenc: false, al, n });
            }
        }
    }
    v
}

pub fn run(thorough: bool) -> i32 {
    let mut rep = Report::new("C09", "model_checking", if thorough { "thorough" } else { "quick" });
    let bound = if thorough { 3 } else { 2 };
    let cfgs = configs(thorough);
    let mut execs = 0u64;
    let mut points = 0u64;
    let mut outcomes = std::collections::BTreeSet::new();
    let mut g = (0u64, 0u64, 0u64, 0u64, 0u64);
    let mut opened = 0u64;
    let mut completes = 0u64;
    let mut capped = false;
    let mut max_depth = 0;
    for cfg in &cfgs {
        let p = match prepare(cfg) {
            Ok(p) => p,
            Err(e) => {
                rep.machinery(format!("cannot record session {:?}: {}", cfg, e));
                continue;
            }
        };
        // Prepared holds Rc-free data only; share it by reference across the explorer's workers
        let found: Mutex<Vec<(Vec<u32>, Obs)>> = Mutex::new(Vec::new());
        let st = explore(
            bound,
            2_000_000,
            |ch| body(&p, cfg, ch),
            |choices, o: Obs| {
                found.lock().unwrap().push((choices.to_vec(), o));
            },
        );
        execs += st.executions;
        points += st.choice_points;
        capped |= st.capped;
        max_depth = max_depth.max(st.max_depth);
        for d in st.divergences {
            rep.machinery(format!("replay divergence: {}", d));
        }
        let mut all = found.into_inner().unwrap();
        all.sort_by(|a, b| (a.0.iter().filter(|c| **c != 0).count(), a.0.len(), &a.0).cmp(&(b.0.iter().filter(|c| **c != 0).count(), b.0.len(), &b.0)));
        for (choices, o) in all {
            outcomes.insert(h64(&o.logs));
            g.0 += o.faults.0 as u64;
            g.1 += o.faults.1 as u64;
            g.2 += o.faults.2 as u64;
            g.3 += o.faults.3 as u64;
            g.4 += o.faults.4 as u64;
            opened += o.opened as u64;
            completes += o.completes as u64;
            if let Some((key, what)) = o.violation {
                rep.add(Violation { key, what, case: json!({"check": "writer", "case": {"cfg": cfg, "choices": choices}}) });
            }
        }
    }
    // determinism self-check: the same choice vector twice gives the same observation
    if let Some(cfg) = cfgs.first() {
        if let Ok(p) = prepare(cfg) {
            let a = body(&p, cfg, &mut Chooser::replay(vec![0, 0, 1]));
            let b = body(&p, cfg, &mut Chooser::replay(vec![0, 0, 1]));
            if a.logs != b.logs {
                rep.machinery("replaying one schedule twice gave different observations".into());
            }
        }
    }
    rep.cov("states", outcomes.len() as u64);
    rep.cov("transitions", points);
    rep.cov("traces_validated_against_impl", execs);
    rep.cov("evaluations", execs);
    rep.cov("distinct_nontrivial", outcomes.len() as u64);
    rep.cov("explanation", "states = distinct observed writer call logs; transitions = environment choice points met (builder decision, open result, each write result, drop-after-packet, timeout+cleanup-after-packet); every execution runs the real MultiReceiver");
    rep.cov("exhaustive", !capped);
    rep.cov("deviation_bound_completed", bound as u64);
    rep.cov("capped", capped);
    rep.cov("configs_x_orders", cfgs.len() as u64);
    rep.cov("max_choice_depth", max_depth as u64);
    rep.cov("writers_opened", opened);
    rep.cov("completes_checked", completes);
    rep.guard("builder_refusals_injected", g.0);
    rep.guard("open_failures_injected", g.1);
    rep.guard("write_failures_injected", g.2);
    rep.guard("receiver_drops_injected", g.3);
    rep.guard("timeout_cleanups_injected", g.4);
    rep.sample(json!({"cfg": cfgs[0], "choices": [0, 0, 1], "meaning": "answers at the successive choice points; 0 = default environment answer"}));
    rep.assume("deviations are bounded (2 quick, 3 thorough); packet histories are the 7 delivery orders of each recorded session, not all orders (those are C03's)");
    rep.finish()
}
