//! C08 — every transfer carries each source symbol once at the RFC offsets; end flags last.
//! Engine: exhaustive configuration grid x one deviation (remove_object after packet i, every i),
//! real Sender, stream decoded by the independent codec only.
use crate::report::*;
use crate::rfc;
use crate::sess::*;
use crate::util::*;
use flute::sender::{Event, ObjectDataSource, Subscriber};
use serde::{Deserialize, Serialize};
use serde_json::json;
use std::collections::BTreeMap;
use std::sync::{Arc, Mutex};
use std::time::Duration;

#[derive(Serialize, Deserialize, Clone, Debug)]
pub struct Case {
    pub oti: OtiSpec,
    pub len: usize,
    pub cenc: u8,
    pub interleave: u8,
    pub count: u32,
    pub carousel: bool,
    /// remove the object after this many packets (of any TOI) have been read
    pub remove_at: Option<usize>,
    pub immediate_stop: Option<bool>,
    /// 0 = buffer source; 1..4 = stream source without MD5 pass handed over after one byte / in the middle /
    /// at its end / at its start (cenc must be 0)
    #[serde(default)]
    pub stream: u8,
    /// FDTPublishMode::ObjectsBeingTransferred (the FDT instance of a transfer is sent between the selection of the
    /// object and its first packet: a removal can fall into that gap)
    #[serde(default)]
    pub obt: bool,
}

#[derive(Clone, Debug)]
enum Item {
    Start(u128),
    Stop(u128),
    Pkt(Vec<u8>),
    Removed,
    Close(Vec<u8>),
}

struct Rec(Mutex<Vec<Item>>);
impl Subscriber for Rec {
    fn on_sender_event(&self, evt: &Event, _now: std::time::SystemTime) {
        let mut l = self.0.lock().unwrap();
        match evt {
            Event::StartTransfer(f) => l.push(Item::Start(f.toi)),
            Event::StopTransfer(f) => l.push(Item::Stop(f.toi)),
        }
    }
}

#[derive(Default, Clone)]
pub struct G {
    pub transfers_checked: u64,
    pub window_multi_with_parity: u64,
    pub removal_first_transfer: u64,
    pub removal_later_transfer: u64,
    pub packets: u64,
    pub b_flags: u64,
    pub refused: u64,
}

pub fn run_case(c: &Case, g: &mut G) -> Option<(String, String)> {
    let sch = format!("{:?}", c.oti.scheme);
    let r = catch(|| -> Result<Option<(String, String)>, String> {
        let mut o = ObjSpec::simple(c.len, 6);
        o.oti = Some(c.oti.clone());
        o.cenc = c.cenc;
        o.text = c.cenc != 0;
        o.count = c.count;
        o.immediate_stop = c.immediate_stop;
        if c.carousel {
            o.carousel = Some(Carousel::Delay(500));
        }
        let mut sess = SessSpec::basic(OtiSpec::new(Scheme::NoCode, 1424, 64, 0, true));
        sess.interleave = c.interleave;
        sess.full_fdt = !c.obt;
        let mut s = sess.sender()?;
        let rec = Arc::new(Rec(Mutex::new(Vec::new())));
        s.subscribe(rec.clone());
        if c.stream != 0 {
            o.source = Source::Stream(3);
            o.stream_start = c.stream % 4;
            o.md5 = false;
        }
        let desc = o.desc(None)?;
        let enc: Vec<u8> = match &desc.source {
            ObjectDataSource::Buffer(b) => b.clone(),
            _ if c.stream != 0 && c.cenc == 0 => o.content(),
            _ => return Err("stream source".into()),
        };
        let tl = desc.transfer_length as usize;
        if enc.len() != tl {
            return Ok(Some(("C08/transfer-length-vs-source".into(), format!("transfer_length {} but the encoded source has {} bytes", tl, enc.len()))));
        }
        if inflate(c.cenc, &enc).ok() != Some(o.content()) {
            return Ok(Some(("C08/transfer-encoding".into(), "the transfer-encoded source does not inflate to the object".into())));
        }
        let toi = match add_tallied(&mut s, 0, desc, &sess.oti) {
            Ok(t) => t,
            Err(_) => {
                g.refused += 1;
                return Ok(None);
            }
        };
        if !c.obt {
            s.publish(t0()).map_err(|e| e.0.to_string())?;
        }
        let polls: Vec<u64> = if c.carousel { vec![0, 1000, 2000] } else { vec![0] };
        let mut nread = 0usize;
        let mut removed = false;
        let mut removed_transfers_done: Option<u64> = None;
        for ms in &polls {
            let now = at_ms(*ms);
            loop {
                if !removed && c.remove_at == Some(nread) {
                    removed_transfers_done = s.nb_transfers(toi);
                    s.remove_object(toi);
                    rec.0.lock().unwrap().push(Item::Removed);
                    removed = true;
                }
                match s.read(now) {
                    Some(p) => {
                        rec.0.lock().unwrap().push(Item::Pkt(p));
                        nread += 1;
                        if nread > 100_000 {
                            return Ok(Some((format!("C08/sender-not-quiescent/{}", sch), "more than 100000 packets at one instant".into())));
                        }
                    }
                    None => break,
                }
            }
            let cs = s.read_close_session(now);
            rec.0.lock().unwrap().push(Item::Close(cs));
        }
        if c.remove_at.is_some() && !removed {
            return Ok(None); // index beyond the session: nothing to check (counted by the caller)
        }
        let log = rec.0.lock().unwrap().clone();
        // ---- oracle on the decoded stream ----
        let p = rfc::partition(c.oti.b as u128, tl as u128, c.oti.e as u128).ok_or("partition")?;
        let e = c.oti.e as usize;
        // split this TOI's packets into transfers
        struct Tr {
            pkts: Vec<rfc::RPkt>,
            stopped: bool,
            removed_during: bool,
            removed_before: bool,
        }
        let mut trs: Vec<Tr> = Vec::new();
        let mut open = false;
        let mut was_removed = false;
        let mut obj_pkts_after_removal = 0usize;
        let mut last_obj_pkt_b = false;
        let mut total_obj_pkts = 0usize;
        for it in &log {
            match it {
                Item::Start(t) if *t == toi => {
                    if open {
                        return Ok(Some((format!("C08/events/{}", sch), "StartTransfer while a transfer is open".into())));
                    }
                    open = true;
                    trs.push(Tr { pkts: vec![], stopped: false, removed_during: false, removed_before: was_removed });
                }
                Item::Stop(t) if *t == toi => {
                    if !open {
                        return Ok(Some((format!("C08/events/{}", sch), "StopTransfer without StartTransfer".into())));
                    }
                    open = false;
                    trs.last_mut().unwrap().stopped = true;
                }
                Item::Removed => {
                    was_removed = true;
                    if open {
                        trs.last_mut().unwrap().removed_during = true;
                    }
                }
                Item::Pkt(b) => {
                    let r = rfc::decode(b).map_err(|e| format!("undecodable packet: {}", e))?;
                    g.packets += 1;
                    if r.a {
                        return Ok(Some((format!("C08/close-session-flag/{}", sch), "A flag on a packet returned by Sender::read".into())));
                    }
                    if r.toi == toi {
                        total_obj_pkts += 1;
                        if was_removed {
                            obj_pkts_after_removal += 1;
                        }
                        last_obj_pkt_b = r.b;
                        if !open {
                            return Ok(Some((format!("C08/events/{}", sch), "object packet outside Start/Stop".into())));
                        }
                        if r.cp != c.oti.scheme.cp() {
                            return Ok(Some((format!("C08/codepoint/{}", sch), format!("codepoint {}", r.cp))));
                        }
                        trs.last_mut().unwrap().pkts.push(r);
                    } else if r.toi == 0 && r.b {
                        // FDT instances are single-transfer objects: B allowed on their last packet only (not checked here)
                    }
                }
                Item::Close(b) => {
                    let r = rfc::decode(b).map_err(|e| format!("undecodable close-session packet: {}", e))?;
                    if !r.a {
                        return Ok(Some(("C08/close-session-packet-without-A".into(), "read_close_session packet lacks the A flag".into())));
                    }
                }
                _ => {}
            }
        }
        let _ = (obj_pkts_after_removal, last_obj_pkt_b, total_obj_pkts);
        let ntr = trs.len();
        for (ti, tr) in trs.iter().enumerate() {
            // a transfer may be cut short only by a forced stop: removed during it AND (immediate stop OR sent before)
            let forced = tr.removed_during && (c.immediate_stop == Some(true) || removed_transfers_done.unwrap_or(0) > 0);
            let is_last_transfer_overall = ti + 1 == ntr;
            // B flags
            for (pi, r) in tr.pkts.iter().enumerate() {
                if r.b {
                    g.b_flags += 1;
                    let last_in_transfer = pi + 1 == tr.pkts.len();
                    let lone_empty = tl == 0 && tr.pkts.len() == 1;
                    let ok_final = last_in_transfer && is_last_transfer_overall;
                    if !(ok_final || lone_empty) {
                        return Ok(Some((
                            format!("C08/close-object-flag-early/{}", sch),
                            format!("B flag on packet {}/{} of transfer {}/{} (sbn {:?}); later packets of the object follow", pi + 1, tr.pkts.len(), ti + 1, ntr, r.payload_id(8).ok()),
                        )));
                    }
                }
            }
            if forced {
                // after the removal point at most one more packet, and it carries B
                continue;
            }
            if !tr.stopped {
                continue; // still running at the end of the horizon (only possible with time gates)
            }
            g.transfers_checked += 1;
            if tl == 0 {
                if tr.pkts.len() != 1 || !tr.pkts[0].b || !tr.pkts[0].payload().is_empty() {
                    return Ok(Some((format!("C08/empty-object/{}", sch), format!("empty object sent as {} packet(s); first: B={} payload {} bytes", tr.pkts.len(), tr.pkts[0].b, tr.pkts[0].payload().len()))));
                }
                continue;
            }
            let mut per: BTreeMap<u32, Vec<(u32, &rfc::RPkt)>> = BTreeMap::new();
            let mut open_blocks: Vec<u32> = Vec::new();
            let mut max_open = 0usize;
            for r in &tr.pkts {
                let (sbn, esi, sbl, _) = r.payload_id(8).map_err(|e| e.to_string())?;
                if sbn as u128 >= p.n {
                    return Ok(Some((format!("C08/sbn-out-of-range/{}", sch), format!("sbn {} with {} blocks", sbn, p.n))));
                }
                if let Some(sbl) = sbl {
                    if sbl as u128 != p.symbols_of(sbn as u128) {
                        return Ok(Some((format!("C08/source-block-length/{}", sch), format!("payload id says block {} has {} symbols, partition says {}", sbn, sbl, p.symbols_of(sbn as u128)))));
                    }
                }
                per.entry(sbn).or_default().push((esi, r));
                if !open_blocks.contains(&sbn) {
                    open_blocks.push(sbn);
                }
                max_open = max_open.max(open_blocks.iter().filter(|b| (per[b].len() as u128) < p.symbols_of(**b as u128) + c.oti.parity as u128).count());
            }
            if max_open >= 2 && c.oti.parity > 0 {
                g.window_multi_with_parity += 1;
            }
            if per.len() as u128 != p.n {
                return Ok(Some((format!("C08/missing-block/{}", sch), format!("transfer {} carries {} of {} blocks", ti + 1, per.len(), p.n))));
            }
            for (sbn, syms) in &per {
                let k = p.symbols_of(*sbn as u128) as u32;
                let off = (p.symbols_before(*sbn as u128) * e as u128) as usize;
                let bend = (p.symbols_before(*sbn as u128 + 1) * e as u128).min(tl as u128) as usize;
                let mut last: Option<u32> = None;
                let mut nsrc = 0u32;
                let mut nrep = 0u32;
                for (esi, r) in syms {
                    if let Some(l) = last {
                        if *esi <= l {
                            return Ok(Some((format!("C08/esi-order/{}", sch), format!("block {}: ESI {} after {}", sbn, esi, l))));
                        }
                    }
                    last = Some(*esi);
                    if *esi < k {
                        nsrc += 1;
                        let a = off + *esi as usize * e;
                        let b = (a + e).min(bend);
                        let slice = &enc[a.min(enc.len())..b.min(enc.len())];
                        let pay = r.payload();
                        let short_block = (bend - off) % e != 0;
                        let ok = if c.oti.scheme.pads() { pay.len() == e && &pay[..slice.len()] == slice && pay[slice.len()..].iter().all(|x| *x == 0) } else { pay == slice };
                        if !ok {
                            let cls = if c.oti.scheme == Scheme::Raptor && short_block { "/short-last-block" } else { "" };
                            return Ok(Some((
                                format!("C08/source-symbol-slice/{}{}", sch, cls),
                                format!("E={} B={} L={} block {} (bytes {}..{}) ESI {}: payload {} is not the RFC slice {} of the transfer-encoded object", c.oti.e, c.oti.b, tl, sbn, off, bend, esi, hex(pay), hex(slice)),
                            )));
                        }
                    } else {
                        nrep += 1;
                    }
                }
                if nsrc != k {
                    return Ok(Some((format!("C08/source-symbols-missing/{}", sch), format!("block {}: {} of {} source symbols in transfer {}", sbn, nsrc, k, ti + 1))));
                }
                if nrep > c.oti.parity as u32 {
                    return Ok(Some((format!("C08/too-many-repair/{}", sch), format!("block {}: {} repair symbols, configured {}", sbn, nrep, c.oti.parity))));
                }
            }
        }
        // removal clauses (flag side): after a forced stop at most one more packet, carrying B
        if removed {
            let done = removed_transfers_done.unwrap_or(0);
            let mid = trs.iter().any(|t| t.removed_during);
            if mid {
                if done == 0 {
                    g.removal_first_transfer += 1;
                } else {
                    g.removal_later_transfer += 1;
                }
            }
            let forced = c.immediate_stop == Some(true) || done > 0;
            // packets of the object after the removal point
            let mut after: Vec<bool> = Vec::new();
            let mut seen_rm = false;
            for it in &log {
                match it {
                    Item::Removed => seen_rm = true,
                    Item::Pkt(b) if seen_rm => {
                        let r = rfc::decode(b).unwrap();
                        if r.toi == toi {
                            after.push(r.b);
                        }
                    }
                    _ => {}
                }
            }
            if forced && mid {
                if after.len() > 1 || (after.len() == 1 && !after[0]) {
                    return Ok(Some((
                        format!("C08/after-removal/{}", sch),
                        format!("object removed mid-transfer (transfers done {}, immediate stop {:?}): {} further packet(s), B flags {:?}; expected at most one, flagged", done, c.immediate_stop, after.len(), after),
                    )));
                }
            }
            if !mid && !after.is_empty() && trs.iter().any(|t| t.removed_before) {
                return Ok(Some((format!("C08/transfer-started-after-removal/{}", sch), format!("{} packet(s) of a transfer started after remove_object", after.len()))));
            }
        }
        Ok(None)
    });
    match r {
        Ok(Ok(v)) => v,
        Ok(Err(e)) => Some(("C08/harness".into(), e)),
        Err(p) => Some((format!("C08/panic/{}", panic_sig(&p)), format!("panic: {}", p))),
    }
}

pub fn replay(v: &serde_json::Value) -> Vec<Violation> {
    let c: Case = serde_json::from_value(v["case"].clone()).expect("case");
    let mut g = G::default();
    run_case(&c, &mut g).into_iter().map(|(key, what)| Violation { key, what, case: v.clone() }).collect()
}

pub fn run(thorough: bool) -> i32 {
    let mut rep = Report::new("C08", "model_checking", if thorough { "thorough" } else { "quick" });
    // base configurations
    let mut bases: Vec<Case> = Vec::new();
    for scheme in ALL_SCHEMES {
        let mut ebs: Vec<(u16, u16)> = match scheme {
            Scheme::Raptor => vec![(1, 4), (2, 5), (3, 4)],
            _ => vec![(1, 1), (2, 1), (3, 2), (4, 3)],
        };
        if thorough {
            ebs.extend(match scheme {
                Scheme::Raptor => vec![(4, 7), (8, 4)],
                _ => vec![(5, 3), (8, 4), (16, 2), (2, 9)],
            });
        }
        for (e, b) in ebs {
            let parities: Vec<u16> = if scheme == Scheme::NoCode { vec![0] } else if thorough { vec![1, 2, 3] } else { vec![1, 2] };
            for parity in parities {
                let lmax = (if thorough { 5 } else { 3 }) * e as usize * b as usize + 2;
                for len in 0..=lmax {
                    for interleave in [1u8, 2, 3] {
                        for cenc in (if thorough { vec![0u8, 1, 2, 3] } else { vec![0u8, 3] }) {
                            if cenc != 0 && len % 4 != 1 && len != 0 {
                                continue; // the transfer-encoded length is what matters; a few text sizes suffice (and the EMPTY object: its encoded form is not empty)
                            }
                            for (count, carousel) in [(1u32, false), (2, false), (3, false), (1, true), (2, true)] {
                                if !thorough && count == 3 {
                                    continue;
                                }
                                bases.push(Case { oti: OtiSpec::new(scheme, e, b, parity, len % 2 == 0), len, cenc, interleave, count, carousel, remove_at: None, immediate_stop: None, stream: 0, obt: false });
                            }
                        }
                    }
                }
            }
        }
    }
    // many source blocks: more than 256 (and 255, RaptorQ's maximum) - the SBN field widths differ per scheme
    for (scheme, e, b, parity, len) in [
        (Scheme::NoCode, 1u16, 1u16, 0u16, 300usize),
        (Scheme::Rs28, 1, 1, 1, 300),
        (Scheme::Rs28Us, 1, 1, 1, 300),
        (Scheme::Raptor, 1, 4, 1, 1100),
        (Scheme::RaptorQ, 1, 1, 1, 255),
        (Scheme::NoCode, 2, 3, 0, 3000),
    ] {
        for interleave in [1u8, 3] {
            bases.push(Case { oti: OtiSpec::new(scheme, e, b, parity, interleave == 1), len, cenc: 0, interleave, count: 1, carousel: false, remove_at: None, immediate_stop: None, stream: 0, obt: false });
        }
    }
    // stream sources handed over at any position, no MD5 pass: every transfer still carries the whole object
    for scheme in [Scheme::NoCode, Scheme::Rs28, Scheme::RaptorQ] {
        for len in [0usize, 1, 9, 17] {
            for stream in 1..=4u8 {
                for (count, carousel) in [(1u32, false), (2, false), (1, true)] {
                    bases.push(Case { oti: OtiSpec::new(scheme, 4, 2, if scheme == Scheme::NoCode { 0 } else { 1 }, true), len, cenc: 0, interleave: 1 + (len % 2) as u8, count, carousel, remove_at: None, immediate_stop: None, stream, obt: false });
                }
            }
        }
    }
    // the same sessions under per-transfer FDT instances
    let obt_bases: Vec<Case> = bases.iter().enumerate().filter(|(i, b)| b.stream == 0 && (thorough || i % 3 == 0)).map(|(_, b)| { let mut c = b.clone(); c.obt = true; c }).collect();
    bases.extend(obt_bases);
    let nbase = bases.len();
    // one deviation: removal after every packet index, with every immediate-stop setting, under both publish
    // modes. The deviations of a base session are generated and run inside its worker (the full case list of the
    // thorough tier does not fit in memory as a vector).
    let deviations = move |bi: usize, b: &Case| -> Vec<Case> {
        let mut v = Vec::new();
        if (!thorough && bi % 5 != 0) || b.cenc != 0 || b.obt {
            return v;
        }
        let t = (b.len + b.oti.e as usize - 1) / b.oti.e as usize;
        let per_transfer = t + (b.oti.parity as usize) * ((t + b.oti.b as usize - 1) / (b.oti.b as usize).max(1));
        let total = 1 + per_transfer.max(1) * b.count as usize * if b.carousel { 3 } else { 1 };
        for i in 0..=total.min(40) {
            for imm in [None, Some(true), Some(false)] {
                let mut c = b.clone();
                c.remove_at = Some(i);
                c.immediate_stop = imm;
                v.push(c.clone());
                if i <= 6 || thorough {
                    c.obt = true;
                    v.push(c);
                }
            }
        }
        v
    };
    let bases = Arc::new(bases);
    let bases2 = bases.clone();
    let res = par_map_wd(
        bases.clone(),
        Duration::from_secs(300),
        move |bi, b| {
            let mut g = G::default();
            let mut found: Vec<(Case, String, String)> = Vec::new();
            let mut n = 0u64;
            let mut distinct = 0u64;
            let mut last: Option<Case> = None;
            for c in std::iter::once(b.clone()).chain(deviations(bi, b)) {
                let before = g.transfers_checked;
                n += 1;
                if let Some((key, what)) = run_case(&c, &mut g) {
                    if !found.iter().any(|f| f.1 == key) {
                        found.push((c.clone(), key, what));
                    }
                }
                if g.transfers_checked > before {
                    distinct += 1;
                }
                last = Some(c);
            }
            (found, g, n, distinct, last)
        },
        move |bi, _| (vec![(bases2[bi].clone(), format!("C08/hang/{:?}", bases2[bi].oti.scheme), "the sessions of this base configuration did not finish in 300 s".to_string())], G::default(), 0, 0, None),
    );
    let mut g = G::default();
    let mut distinct = 0u64;
    let mut ncases = 0u64;
    let mut last_case: Option<Case> = None;
    for (found, gg, n, d, last) in res {
        g.transfers_checked += gg.transfers_checked;
        g.window_multi_with_parity += gg.window_multi_with_parity;
        g.removal_first_transfer += gg.removal_first_transfer;
        g.removal_later_transfer += gg.removal_later_transfer;
        g.packets += gg.packets;
        g.b_flags += gg.b_flags;
        g.refused += gg.refused;
        distinct += d;
        ncases += n;
        if last.is_some() {
            last_case = last;
        }
        for (c, key, what) in found {
            rep.add(Violation { key, what, case: json!({"check": "stream", "case": serde_json::to_value(&c).unwrap()}) });
        }
    }
    rep.cov("states", distinct);
    rep.cov("transitions", g.packets);
    rep.cov("traces_validated_against_impl", ncases);
    rep.cov("evaluations", ncases);
    rep.cov("distinct_nontrivial", distinct);
    rep.cov("explanation", "states = distinct sessions in which at least one complete transfer was checked symbol by symbol; transitions = packets read from the real Sender and decoded by rfc.rs; every session is an execution of the implementation itself");
    rep.cov("exhaustive", true);
    rep.cov("base_sessions", nbase as u64);
    rep.cov("removal_sessions", ncases - nbase as u64);
    rep.cov("transfers_checked", g.transfers_checked);
    rep.cov("close_object_flags_seen", g.b_flags);
    rep.cov("refused_by_add_object", g.refused);
    rep.guard("window_with_2_open_blocks_and_parity", g.window_multi_with_parity);
    rep.guard("removal_inside_first_transfer", g.removal_first_transfer);
    rep.guard("removal_inside_later_transfer", g.removal_later_transfer);
    rep.sample(serde_json::to_value(&bases[nbase / 2]).unwrap());
    if let Some(c) = &last_case {
        rep.sample(serde_json::to_value(c).unwrap());
    }
    rep.assume("transfers are delimited by the Subscriber Start/StopTransfer events; a transfer cut by a forced stop (object removed while immediate stop is allowed or after a first complete transfer) is exempt from the completeness clause, as the property states");
    rep.finish()
}
