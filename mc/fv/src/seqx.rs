//! E1: stateless choice-sequence explorer. A body is a deterministic closure consulting a
//! `Chooser` for every environment answer; answer 0 is the default. The explorer re-runs the body
//! under every alternative (full mode) or under every combination of at most `bound` non-default
//! answers (deviation-bounded mode). Prefix replay is validated: a recorded prefix must meet the
//! same (label, arity) sequence again, otherwise the run is a machinery error.
#![allow(dead_code)]
use std::sync::atomic::{AtomicU64, Ordering};
use std::sync::Mutex;

#[derive(Clone, Debug, PartialEq)]
pub struct Point {
    pub label: u32,
    pub arity: u32,
    pub chosen: u32,
}

pub struct Chooser {
    prefix: Vec<u32>,
    pub trace: Vec<Point>,
    expect: Vec<(u32, u32)>,
    pub diverged: Option<String>,
}

impl Chooser {
    pub fn new(prefix: Vec<u32>, expect: Vec<(u32, u32)>) -> Chooser {
        Chooser { prefix, trace: Vec::new(), expect, diverged: None }
    }
    pub fn replay(prefix: Vec<u32>) -> Chooser {
        Chooser::new(prefix, Vec::new())
    }
    /// environment choice with `arity` possible answers; 0 is the default answer
    pub fn choose(&mut self, label: u32, arity: u32) -> u32 {
        let i = self.trace.len();
        if arity <= 1 {
            return 0;
        }
        let c = if i < self.prefix.len() { self.prefix[i] } else { 0 };
        if i < self.expect.len() && self.expect[i] != (label, arity) && self.diverged.is_none() {
            self.diverged = Some(format!(
                "choice point {} was ({},{}) when recorded, is ({},{}) on replay",
                i, self.expect[i].0, self.expect[i].1, label, arity
            ));
        }
        if c >= arity && self.diverged.is_none() {
            self.diverged = Some(format!("choice {} out of range {} at point {}", c, arity, i));
        }
        let c = c.min(arity - 1);
        self.trace.push(Point { label, arity, chosen: c });
        c
    }
    pub fn choices(&self) -> Vec<u32> {
        self.trace.iter().map(|p| p.chosen).collect()
    }
    pub fn deviations(&self) -> usize {
        self.trace.iter().filter(|p| p.chosen != 0).count()
    }
}

#[derive(Default, Debug, Clone)]
pub struct Stats {
    pub executions: u64,
    pub choice_points: u64,
    pub max_depth: usize,
    pub capped: bool,
    pub divergences: Vec<String>,
}

/// Explore all executions of `body` with at most `bound` non-default answers (usize::MAX = full).
/// `sink(choices, result)` is called for every execution (from worker threads, serialised).
/// `max_exec` is a safety cap; hitting it sets `capped`.
pub fn explore<R: Send>(
    bound: usize,
    max_exec: u64,
    body: impl Fn(&mut Chooser) -> R + Sync,
    sink: impl FnMut(&[u32], R) + Send,
) -> Stats {
    let sink = Mutex::new(sink);
    let stats = Mutex::new(Stats::default());
    let execs = AtomicU64::new(0);
    // work items: (prefix choices, expected (label,arity) for the prefix)
    let queue: Mutex<Vec<(Vec<u32>, Vec<(u32, u32)>)>> = Mutex::new(vec![(vec![], vec![])]);
    let pending = AtomicU64::new(1);
    let nt = crate::util::nthreads();
    std::thread::scope(|s| {
        for _ in 0..nt {
            s.spawn(|| {
                let mut local: Vec<(Vec<u32>, Vec<(u32, u32)>)> = Vec::new();
                loop {
                    let item = match local.pop() {
                        Some(i) => Some(i),
                        None => queue.lock().unwrap().pop(),
                    };
                    let (prefix, expect) = match item {
                        Some(i) => i,
                        None => {
                            if pending.load(Ordering::SeqCst) == 0 {
                                break;
                            }
                            std::thread::yield_now();
                            continue;
                        }
                    };
                    if execs.fetch_add(1, Ordering::Relaxed) >= max_exec {
                        stats.lock().unwrap().capped = true;
                        pending.fetch_sub(1, Ordering::SeqCst);
                        continue;
                    }
                    let plen = prefix.len();
                    let mut ch = Chooser::new(prefix, expect);
                    let r = body(&mut ch);
                    let choices = ch.choices();
                    {
                        let mut st = stats.lock().unwrap();
                        st.executions += 1;
                        st.choice_points += ch.trace.len() as u64;
                        st.max_depth = st.max_depth.max(ch.trace.len());
                        if let Some(d) = &ch.diverged {
                            if st.divergences.len() < 5 {
                                st.divergences.push(d.clone());
                            }
                        }
                    }
                    (sink.lock().unwrap())(&choices, r);
                    // children: every alternative at every point at or after the prefix end
                    let devs_prefix = ch.trace[..plen.min(ch.trace.len())].iter().filter(|p| p.chosen != 0).count();
                    let mut devs = devs_prefix;
                    let mut kids = Vec::new();
                    for i in plen..ch.trace.len() {
                        let p = &ch.trace[i];
                        debug_assert!(p.chosen == 0);
                        if devs + 1 <= bound {
                            for alt in 1..p.arity {
                                let mut np: Vec<u32> = choices[..i].to_vec();
                                np.push(alt);
                                let ne: Vec<(u32, u32)> = ch.trace[..=i].iter().map(|p| (p.label, p.arity)).collect();
                                kids.push((np, ne));
                            }
                        }
                        let _ = &mut devs; // default answers after the prefix add no deviation
                    }
                    pending.fetch_add(kids.len() as u64, Ordering::SeqCst);
                    pending.fetch_sub(1, Ordering::SeqCst);
                    local.extend(kids);
                    if local.len() > 32 {
                        let half = local.len() / 2;
                        let give: Vec<_> = local.drain(..half).collect();
                        queue.lock().unwrap().extend(give);
                    }
                }
            });
        }
    });
    stats.into_inner().unwrap()
}

/// single-threaded variant of `explore` (for use inside an already parallel sweep)
pub fn explore_seq<R>(bound: usize, max_exec: u64, body: impl Fn(&mut Chooser) -> R, mut sink: impl FnMut(&[u32], R)) -> Stats {
    let mut st = Stats::default();
    let mut stack: Vec<(Vec<u32>, Vec<(u32, u32)>)> = vec![(vec![], vec![])];
    while let Some((prefix, expect)) = stack.pop() {
        if st.executions >= max_exec {
            st.capped = true;
            break;
        }
        let plen = prefix.len();
        let mut ch = Chooser::new(prefix, expect);
        let r = body(&mut ch);
        let choices = ch.choices();
        st.executions += 1;
        st.choice_points += ch.trace.len() as u64;
        st.max_depth = st.max_depth.max(ch.trace.len());
        if let Some(d) = &ch.diverged {
            if st.divergences.len() < 5 {
                st.divergences.push(d.clone());
            }
        }
        sink(&choices, r);
        let devs = ch.trace[..plen.min(ch.trace.len())].iter().filter(|p| p.chosen != 0).count();
        if devs + 1 <= bound {
            for i in (plen..ch.trace.len()).rev() {
                let p = &ch.trace[i];
                for alt in (1..p.arity).rev() {
                    let mut np: Vec<u32> = choices[..i].to_vec();
                    np.push(alt);
                    let ne: Vec<(u32, u32)> = ch.trace[..=i].iter().map(|p| (p.label, p.arity)).collect();
                    stack.push((np, ne));
                }
            }
        }
    }
    st
}
