//! E2: explicit-state breadth-first search over the real transition function. A state is the event
//! history reaching it (live flute objects do not clone): expanding a state builds a fresh system,
//! replays the history plus one event, and fingerprints the result canonically. Level-synchronous,
//! parallel over the frontier, deterministic (children are merged in (parent, event) order).
#![allow(dead_code)]
use std::collections::HashSet;

pub trait Sys: Sized {
    type Ev: Clone + Send + Sync + std::fmt::Debug + serde::Serialize;
    /// events enabled in this state (small finite menu)
    fn enabled(&self) -> Vec<Self::Ev>;
    /// apply one event to the real system (and the monitors)
    fn apply(&mut self, ev: &Self::Ev);
    /// called once after the last `apply` of a replay, before fingerprint/verdicts/witnesses
    fn settle(&mut self) {}
    /// canonical fingerprint of system + monitor state
    fn fingerprint(&self) -> u64;
    /// violations detected so far (monitor verdicts); each is (signature, description)
    fn verdicts(&self) -> Vec<(String, String)>;
    /// non-vacuity witnesses reached in this state
    fn witnesses(&self) -> Vec<&'static str> {
        vec![]
    }
}

#[derive(Default, Debug, Clone)]
pub struct BfsStats {
    pub states: u64,
    pub transitions: u64,
    pub depth_completed: usize,
    pub per_depth: Vec<u64>,
    pub capped: bool,
    pub witnesses: std::collections::BTreeMap<String, u64>,
}

pub struct Found<E> {
    pub sig: String,
    pub what: String,
    pub history: Vec<E>,
}

pub fn bfs<S: Sys>(
    make: impl Fn() -> S + Sync,
    max_depth: usize,
    state_cap: u64,
) -> (BfsStats, Vec<Found<S::Ev>>) {
    let mut stats = BfsStats::default();
    let mut found: Vec<Found<S::Ev>> = Vec::new();
    let mut found_sigs: HashSet<String> = HashSet::new();
    let mut seen: HashSet<u64> = HashSet::new();
    let root = make();
    seen.insert(root.fingerprint());
    stats.states = 1;
    stats.per_depth.push(1);
    let mut frontier: Vec<Vec<S::Ev>> = vec![vec![]];
    for depth in 0..max_depth {
        if frontier.is_empty() {
            stats.depth_completed = max_depth;
            break;
        }
        // expand every frontier state in parallel
        #[allow(clippy::type_complexity)]
        let results: Vec<Vec<(S::Ev, u64, Vec<(String, String)>, Vec<&'static str>)>> =
            crate::util::par_map(&frontier, |_, hist| {
                let mut base = make();
                for e in hist {
                    base.apply(e);
                }
                base.settle();
                let evs = base.enabled();
                let mut out = Vec::with_capacity(evs.len());
                let n = evs.len();
                let mut base = Some(base);
                for (i, ev) in evs.into_iter().enumerate() {
                    let mut s = if i + 1 == n {
                        base.take().unwrap()
                    } else {
                        let mut s = make();
                        for e in hist {
                            s.apply(e);
                        }
                        s
                    };
                    // (context for a verdict issued from the panic hook when the subject aborts the process)
                    crate::util::set_case_ctx(Some(serde_json::json!({"history_before": hist, "event": ev}).to_string()));
                    s.apply(&ev);
                    s.settle();
                    crate::util::set_case_ctx(None);
                    out.push((ev, s.fingerprint(), s.verdicts(), s.witnesses()));
                }
                out
            });
        let mut next: Vec<Vec<S::Ev>> = Vec::new();
        for (hist, res) in frontier.iter().zip(results) {
            for (ev, fp, verdicts, wit) in res {
                stats.transitions += 1;
                for w in wit {
                    *stats.witnesses.entry(w.to_string()).or_insert(0) += 1;
                }
                let mut h = hist.clone();
                h.push(ev);
                for (sig, what) in verdicts {
                    if found_sigs.insert(sig.clone()) {
                        found.push(Found { sig, what, history: h.clone() });
                    }
                }
                if seen.insert(fp) {
                    stats.states += 1;
                    next.push(h);
                }
            }
        }
        stats.per_depth.push(next.len() as u64);
        stats.depth_completed = depth + 1;
        frontier = next;
        if stats.states > state_cap {
            stats.capped = true;
            break;
        }
    }
    (stats, found)
}
